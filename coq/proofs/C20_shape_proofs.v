(* C20_shape_proofs.v — the FULL shape of an introspection result, as a specification that does
   not mention the decoder of theories/Introspection.v, and the theorem that [decode_query]
   accepts a JSON tree exactly when it has that shape.

   The shape is given by a small description language [jty] for the Rust types of
   src/introspection/introspection.rs (strings, bools, arbitrary values, Vec, structs with required
   and Option members, internally tagged enums of structs, the two recursive type-reference enums,
   DirectiveLocation) and a generic conformance check [conforms : jty -> json -> bool] that says
   what serde accepts for each of them:
   * struct <- object: every required member exactly once and conforming; every Option member at
     most once and null or conforming; any other member allowed (any number of times);
   * struct <- array: exactly one element per member, in declaration order (Option: null allowed);
   * tagged enum <- object: exactly one member "kind", naming a variant (a string; inside buffered
     content also a non-negative integer = index of the variant), and the object conforms to that
     variant's struct; <- array: the tag first, then the variant's members positionally. *)
From GT Require Import Json Introspection.
From GTS Require Import SpecIntrospection.
From GTP Require Import C20_proofs.
From Coq Require Import Lia Permutation.
Local Open Scope string_scope.

(* ================================================================ specification *)
Inductive presence := Req | Opt.

Inductive jty : Type :=
| JTString                                           (* String *)
| JTBool                                             (* bool *)
| JTValue                                            (* serde_json::Value *)
| JTLocation                                         (* DirectiveLocation *)
| JTRef (variants : list string) (buffered : bool)   (* Introspection{Output,Input}TypeRef *)
| JTVec (t : jty)                                    (* Vec<T> *)
| JTStruct (ms : list (string * (presence * jty)))   (* struct: members in declaration order *)
| JTEnum (buffered : bool) (vs : list (string * list (string * (presence * jty)))).
                                                     (* #[serde(tag = "kind")] enum of structs *)

Definition members := list (string * (presence * jty)).

(* ---- the Rust declarations ---- *)
Definition named_ref_members : members := [("name", (Req, JTString))].
Definition named_ref_ty : jty := JTStruct named_ref_members.

Definition out_ref_names : list string :=
  ["SCALAR"; "LIST"; "NON_NULL"; "ENUM"; "INPUT_OBJECT"; "UNION"; "OBJECT"; "INTERFACE"].
Definition in_ref_names : list string := ["LIST"; "NON_NULL"; "SCALAR"; "ENUM"; "INPUT_OBJECT"].

Definition scalar_members : members :=
  [("name", (Req, JTString)); ("description", (Opt, JTString)); ("specifiedByURL", (Opt, JTString))].

Definition input_value_members (buffered : bool) : members :=
  [("name", (Req, JTString)); ("description", (Opt, JTString)); ("defaultValue", (Opt, JTValue));
   ("isDeprecated", (Opt, JTBool)); ("deprecationReason", (Opt, JTString));
   ("type", (Opt, JTRef in_ref_names buffered))].
Definition input_value_ty (buffered : bool) : jty := JTStruct (input_value_members buffered).

Definition field_members (buffered : bool) : members :=
  [("name", (Req, JTString)); ("description", (Opt, JTString));
   ("args", (Req, JTVec (input_value_ty buffered)));
   ("isDeprecated", (Opt, JTBool)); ("deprecationReason", (Opt, JTString));
   ("type", (Req, JTRef out_ref_names buffered))].
Definition field_ty (buffered : bool) : jty := JTStruct (field_members buffered).

Definition object_members : members :=
  [("name", (Req, JTString)); ("description", (Opt, JTString));
   ("fields", (Req, JTVec (field_ty true))); ("interfaces", (Req, JTVec named_ref_ty))].
Definition interface_members : members :=
  [("name", (Req, JTString)); ("description", (Opt, JTString));
   ("fields", (Req, JTVec (field_ty true))); ("interfaces", (Opt, JTVec named_ref_ty));
   ("possibleTypes", (Req, JTVec named_ref_ty))].
Definition union_members : members :=
  [("name", (Req, JTString)); ("description", (Opt, JTString));
   ("possibleTypes", (Req, JTVec named_ref_ty))].
Definition enum_value_members : members :=
  [("name", (Req, JTString)); ("description", (Opt, JTString));
   ("isDeprecated", (Opt, JTBool)); ("deprecationReason", (Opt, JTString))].
Definition enum_value_ty : jty := JTStruct enum_value_members.
Definition enum_members : members :=
  [("name", (Req, JTString)); ("description", (Opt, JTString));
   ("enumValues", (Req, JTVec enum_value_ty))].
Definition input_object_members : members :=
  [("name", (Req, JTString)); ("description", (Opt, JTString));
   ("inputFields", (Req, JTVec (input_value_ty true)))].

(* IntrospectionType: read directly from the text (string tags only); its content is buffered *)
Definition type_ty : jty :=
  JTEnum false
    [("SCALAR", scalar_members); ("OBJECT", object_members); ("INTERFACE", interface_members);
     ("UNION", union_members); ("ENUM", enum_members); ("INPUT_OBJECT", input_object_members)].

Definition directive_members : members :=
  [("name", (Req, JTString)); ("description", (Opt, JTString)); ("isRepeatable", (Opt, JTBool));
   ("locations", (Req, JTVec JTLocation)); ("args", (Req, JTVec (input_value_ty false)))].
Definition directive_ty : jty := JTStruct directive_members.

Definition schema_members : members :=
  [("description", (Opt, JTString)); ("queryType", (Req, named_ref_ty));
   ("mutationType", (Opt, named_ref_ty)); ("subscriptionType", (Opt, named_ref_ty));
   ("types", (Req, JTVec type_ty)); ("directives", (Req, JTVec directive_ty))].
Definition schema_ty : jty := JTStruct schema_members.

Definition query_members : members := [("__schema", (Req, schema_ty))].
Definition query_ty : jty := JTStruct query_members.

(* ---- what serde accepts for a type description ---- *)
Definition is_null (j : json) : bool := match j with JNull => true | _ => false end.
Definition is_string (j : json) : bool := match j with JStr _ => true | _ => false end.
Definition is_bool (j : json) : bool := match j with JBool _ => true | _ => false end.
Definition nullable (p : json -> bool) (j : json) : bool := is_null j || p j.
Definition array_of (p : json -> bool) (j : json) : bool :=
  match j with JArr l => forallb p l | _ => false end.

Section AllWithKey.
  Variable p : json -> bool.
  (* every member with key k has a value satisfying p *)
  Fixpoint all_with_key (k : string) (es : list (string * json)) : bool :=
    match es with
    | [] => true
    | (k', v) :: r => (if String.eqb k k' then p v else true) && all_with_key k r
    end.
End AllWithKey.

(* a member description whose type has been replaced by the check of its values *)
Definition member_check := (string * (presence * (json -> bool)))%type.

Definition member_ok_obj (es : list (string * json)) (m : member_check) : bool :=
  match m with
  | (k, (Req, p)) => Nat.eqb (count_key k es) 1 && all_with_key p k es
  | (k, (Opt, p)) => Nat.leb (count_key k es) 1 && all_with_key (nullable p) k es
  end.
Definition member_ok_pos (m : member_check) (v : json) : bool :=
  match m with
  | (_, (Req, p)) => p v
  | (_, (Opt, p)) => nullable p v
  end.
Fixpoint positional (ms : list member_check) (l : list json) : bool :=
  match ms, l with
  | [], [] => true
  | m :: ms', v :: l' => member_ok_pos m v && positional ms' l'
  | _, _ => false
  end.

Definition struct_of (ms : list member_check) (j : json) : bool :=
  match j with
  | JObj es => forallb (member_ok_obj es) ms
  | JArr l => Nat.eqb (List.length l) (List.length ms) && positional ms l
  | _ => false
  end.

(* the tag of an internally tagged enum: a string, or (only inside buffered content) a
   non-negative integer i standing for the i-th variant in declaration order *)
Definition tag_name (buffered : bool) (names : list string) (tj : json) : option string :=
  match tj with
  | JStr t => Some t
  | JNum z => if buffered then (if (z <? 0)%Z then None else nth_error names (Z.to_nat z)) else None
  | _ => None
  end.

Definition variant_check := (string * (json -> bool))%type.
Definition variant_ok (vs : list variant_check) (t : string) (content : json) : bool :=
  match find (fun v => String.eqb t (fst v)) vs with
  | Some (_, p) => p content
  | None => false
  end.
Definition tagged_of (buffered : bool) (vs : list variant_check) (j : json) : bool :=
  match j with
  | JObj es =>
      match member "kind" es with
      | Some tj => match tag_name buffered (map fst vs) tj with
                   | Some t => variant_ok vs t (JObj es)
                   | None => false
                   end
      | None => false
      end
  | JArr (tj :: rest) =>
      match tag_name buffered (map fst vs) tj with
      | Some t => variant_ok vs t (JArr rest)
      | None => false
      end
  | _ => false
  end.

(* type references: "LIST" and "NON_NULL" wrap an optional reference (member ofType, always
   buffered); every other variant is a named reference *)
Definition is_wrapper (t : string) : bool := String.eqb t "LIST" || String.eqb t "NON_NULL".
Definition mem_string (t : string) (l : list string) : bool := existsb (String.eqb t) l.
Definition named_ref_check : list member_check := [("name", (Req, is_string))].

Fixpoint ref_shape (variants : list string) (buffered : bool) (j : json) {struct j} : bool :=
  match j with
  | JObj es =>
      match member "kind" es with
      | Some tj =>
          match tag_name buffered variants tj with
          | Some t =>
              mem_string t variants &&
              (if is_wrapper t then
                 Nat.leb (count_key "ofType" es) 1 &&
                 all_with_key (nullable (ref_shape variants true)) "ofType" es
               else struct_of named_ref_check (JObj es))
          | None => false
          end
      | None => false
      end
  | JArr (tj :: rest) =>
      match tag_name buffered variants tj with
      | Some t =>
          mem_string t variants &&
          (if is_wrapper t then
             match rest with [x] => nullable (ref_shape variants true) x | _ => false end
           else struct_of named_ref_check (JArr rest))
      | None => false
      end
  | _ => false
  end.

(* DirectiveLocation: the name as a string, or an object with that name as its only key and null *)
Definition location_names : list string :=
  ["QUERY"; "MUTATION"; "SUBSCRIPTION"; "FIELD"; "FRAGMENT_DEFINITION"; "FRAGMENT_SPREAD";
   "INLINE_FRAGMENT"; "VARIABLE_DEFINITION"; "SCHEMA"; "SCALAR"; "OBJECT"; "FIELD_DEFINITION";
   "ARGUMENT_DEFINITION"; "INTERFACE"; "UNION"; "ENUM"; "ENUM_VALUE"; "INPUT_OBJECT";
   "INPUT_FIELD_DEFINITION"].
Definition location_shape (j : json) : bool :=
  match j with
  | JStr s => mem_string s location_names
  | JObj [(k, JNull)] => mem_string k location_names
  | _ => false
  end.

Fixpoint conforms (t : jty) : json -> bool :=
  match t with
  | JTString => is_string
  | JTBool => is_bool
  | JTValue => fun _ => true
  | JTLocation => location_shape
  | JTRef vs b => ref_shape vs b
  | JTVec t' => array_of (conforms t')
  | JTStruct ms =>
      struct_of (map (fun m => (fst m, (fst (snd m), conforms (snd (snd m))))) ms)
  | JTEnum b vs =>
      tagged_of b
        (map (fun v => (fst v,
                        struct_of (map (fun m => (fst m, (fst (snd m), conforms (snd (snd m)))))
                                       (snd v)))) vs)
  end.

Definition check_members (ms : members) : list member_check :=
  map (fun m => (fst m, (fst (snd m), conforms (snd (snd m))))) ms.

(* THE shape of an introspection result *)
Definition full_shape (j : json) : bool := conforms query_ty j.

(* ================================================================ generic facts *)
Lemma is_some_bind {A B} (a : option A) (f : A -> option B) (c r : bool) :
  is_some a = c -> (forall x, is_some (f x) = r) -> is_some (opt_bind a f) = c && r.
Proof. intros <- H. destruct a as [x|]; cbn; [apply H|reflexivity]. Qed.

Lemma is_some_opt_map {A B} (f : A -> B) (o : option A) : is_some (opt_map f o) = is_some o.
Proof. destruct o; reflexivity. Qed.

Lemma is_some_true {A} (o : option A) : is_some o = true <-> exists x, o = Some x.
Proof.
  destruct o as [x|]; cbn; split; intro H; try discriminate.
  - exists x. reflexivity.
  - reflexivity.
  - destruct H as [x H]. discriminate.
Qed.

Lemma all_with_key_filter p k es :
  all_with_key p k es = forallb (fun kv => p (snd kv)) (filter (fun kv => String.eqb k (fst kv)) es).
Proof.
  induction es as [|[k' v] es IH]; [reflexivity|].
  cbn [all_with_key filter fst]. destruct (String.eqb k k'); cbn [forallb snd andb]; rewrite IH; reflexivity.
Qed.

Lemma filter_In_snd k (es : list (string * json)) kv :
  In kv (filter (fun kv => String.eqb k (fst kv)) es) -> In kv es.
Proof. intro H. apply filter_In in H. apply H. Qed.

Lemma member_lookup k es :
  member k es = match lookup_with (fun x => x) k es with LOne v => Some v | _ => None end.
Proof.
  unfold member. rewrite lookup_with_filter.
  destruct (filter (fun kv => String.eqb k (fst kv)) es) as [|[k1 v1] [|kv2 r]]; reflexivity.
Qed.

Lemma member_In k es v : member k es = Some v -> In (k, v) es.
Proof.
  unfold member. intro H.
  destruct (filter (fun kv => String.eqb k (fst kv)) es) as [|[k1 v1] [|kv2 r]] eqn:E; try discriminate.
  inversion H. subst v1. assert (G : In (k1, v) (filter (fun kv => String.eqb k (fst kv)) es)) by (rewrite E; left; reflexivity).
  apply filter_In in G. destruct G as [G1 G2]. cbn [fst] in G2. apply String.eqb_eq in G2. subst k1. exact G1.
Qed.

(* required / optional members of an object *)
Lemma req_map_ok_in {A} (dec : json -> option A) (p : json -> bool) es i k :
  (forall kv, In kv es -> is_some (dec (snd kv)) = p (snd kv)) ->
  is_some (req dec (SrcMap es) i k) = Nat.eqb (count_key k es) 1 && all_with_key p k es.
Proof.
  intro H. unfold req, req_field, count_key. cbn [get]. rewrite lookup_with_filter, all_with_key_filter.
  pose proof (filter_In_snd k es) as F.
  destruct (filter (fun kv => String.eqb k (fst kv)) es) as [|[k1 v1] [|kv2 r]]; cbn; try reflexivity.
  assert (G : is_some (dec v1) = p v1) by (apply (H (k1, v1)); apply F; left; reflexivity).
  rewrite G, andb_true_r. reflexivity.
Qed.
Lemma req_map_ok {A} (dec : json -> option A) (p : json -> bool) es i k :
  (forall v, is_some (dec v) = p v) ->
  is_some (req dec (SrcMap es) i k) = Nat.eqb (count_key k es) 1 && all_with_key p k es.
Proof. intro H. apply req_map_ok_in. intros kv _. apply H. Qed.

Lemma opt_dec_ok {A} (dec : json -> option A) (p : json -> bool) v :
  is_some (dec v) = p v -> is_some (opt_dec dec v) = nullable p v.
Proof. intro H. unfold opt_dec, nullable. destruct v; cbn [is_null orb]; rewrite ?is_some_opt_map; try exact H; reflexivity. Qed.

Lemma opt_field_lookup_ok_in {A} (dec : json -> option A) (p : json -> bool) es k :
  (forall kv, In kv es -> is_some (dec (snd kv)) = p (snd kv)) ->
  is_some (opt_field (lookup_with (opt_dec dec) k es)) = Nat.leb (count_key k es) 1 && all_with_key (nullable p) k es.
Proof.
  intro H. unfold opt_field, count_key. rewrite lookup_with_filter, all_with_key_filter.
  pose proof (filter_In_snd k es) as F.
  destruct (filter (fun kv => String.eqb k (fst kv)) es) as [|[k1 v1] [|kv2 r]]; cbn; try reflexivity.
  rewrite (opt_dec_ok dec p v1); [rewrite andb_true_r; reflexivity|].
  apply (H (k1, v1)). apply F. left. reflexivity.
Qed.
Lemma opt_map_ok {A} (dec : json -> option A) (p : json -> bool) es i k :
  (forall v, is_some (dec v) = p v) ->
  is_some (opt dec (SrcMap es) i k) = Nat.leb (count_key k es) 1 && all_with_key (nullable p) k es.
Proof. intro H. unfold opt. cbn [get]. apply opt_field_lookup_ok_in. intros kv _. apply H. Qed.

Lemma forallb_ext_in {A} (p q : A -> bool) l : (forall x, In x l -> p x = q x) -> forallb p l = forallb q l.
Proof.
  induction l as [|x l IH]; intro H; [reflexivity|]. cbn [forallb].
  rewrite (H x (or_introl eq_refl)), IH; [reflexivity|]. intros y Hy. apply H. right. exact Hy.
Qed.

Lemma map_opt_ok {A} (dec : json -> option A) (p : json -> bool) l :
  (forall v, In v l -> is_some (dec v) = p v) -> is_some (map_opt dec l) = forallb p l.
Proof.
  induction l as [|x l IH]; intro H; [reflexivity|]. cbn [map_opt forallb].
  rewrite <- (H x (or_introl eq_refl)), <- IH; [|intros y Hy; apply H; right; exact Hy].
  destruct (dec x); [destruct (map_opt dec l)|]; reflexivity.
Qed.
Lemma list_ok {A} (dec : json -> option A) (p : json -> bool) v :
  (forall x, is_some (dec x) = p x) -> is_some (decode_list dec v) = array_of p v.
Proof. intro H. destruct v; try reflexivity. cbn [decode_list array_of]. apply map_opt_ok. intros x _. apply H. Qed.

(* struct shapes on sources *)
Definition struct_src (ms : list member_check) (src : source) : bool :=
  match src with
  | SrcMap es => forallb (member_ok_obj es) ms
  | SrcSeq l => Nat.eqb (List.length l) (List.length ms) && positional ms l
  end.
Lemma of_source_ok {A} (dec : source -> option A) ms j :
  (forall src, is_some (dec src) = struct_src ms src) -> is_some (of_source dec j) = struct_of ms j.
Proof. intro H. unfold of_source. destruct j; try reflexivity; cbn [to_source opt_bind struct_of]; apply H. Qed.

(* leaves *)
Lemma str_ok v : is_some (decode_string v) = conforms JTString v.
Proof. destruct v; reflexivity. Qed.
Lemma bool_ok v : is_some (decode_bool v) = conforms JTBool v.
Proof. destruct v; reflexivity. Qed.
Lemma value_ok v : is_some (decode_value v) = conforms JTValue v.
Proof. reflexivity. Qed.
Lemma vec_ok {A} (dec : json -> option A) t v :
  (forall x, is_some (dec x) = conforms t x) -> is_some (decode_list dec v) = conforms (JTVec t) v.
Proof. intro H. cbn [conforms]. apply list_ok. exact H. Qed.

Create HintDb shape.
#[local] Hint Resolve str_ok bool_ok value_ok vec_ok : shape.

Ltac leaf := solve [auto 6 with shape].
Ltac member_step :=
  first [ apply req_map_ok; intro; leaf
        | apply opt_map_ok; intro; leaf
        | apply opt_dec_ok; leaf
        | leaf ].
Ltac chain :=
  lazymatch goal with
  | |- is_some (opt_bind _ _) = _ && _ => apply is_some_bind; [member_step|intro; chain]
  | |- is_some (Some _) = true => reflexivity
  end.
Ltac struct_src_tac dec ms :=
  let es := fresh "es" in let l := fresh "l" in
  intros [es|l]; unfold dec, ms;
  [ cbn [arity_ok check_members map fst snd struct_src forallb member_ok_obj]; chain
  | destruct l as [|x1 [|x2 [|x3 [|x4 [|x5 [|x6 [|x7 l]]]]]]];
    cbn [arity_ok List.length Nat.eqb check_members map fst snd struct_src positional member_ok_pos andb
         req opt req_field opt_field get nth_with is_some];
    try reflexivity; chain ].

(* ================================================================ the decoders, bottom up *)
Lemma named_ref_src_ok : forall src,
  is_some (decode_named_ref_src src) = struct_src (check_members named_ref_members) src.
Proof. struct_src_tac decode_named_ref_src named_ref_members. Qed.
Lemma named_ref_ok v : is_some (decode_named_ref v) = conforms named_ref_ty v.
Proof. apply of_source_ok. apply named_ref_src_ok. Qed.
#[local] Hint Resolve named_ref_ok : shape.

(* ---- tags ---- *)
Lemma tag_of_name b vs tj : tag_of b vs tj = tag_name b vs tj.
Proof.
  destruct tj as [| |z| | |]; try reflexivity. cbn [tag_of tag_name]. destruct b; [|reflexivity].
  unfold variant_by_index. destruct (z <? 0)%Z eqn:E1.
  - apply Z.ltb_lt in E1. destruct (0 <=? z)%Z eqn:E2; [apply Z.leb_le in E2; lia|reflexivity].
  - apply Z.ltb_ge in E1. destruct (0 <=? z)%Z eqn:E2; [|apply Z.leb_gt in E2; lia]. cbn [andb].
    destruct (z <? Z.of_nat (List.length vs))%Z eqn:E3; [reflexivity|].
    apply Z.ltb_ge in E3. symmetry. apply nth_error_None. lia.
Qed.

(* ---- type references ---- *)
Lemma out_named_ok t : is_wrapper t = false -> is_some (out_named_variant t) = mem_string t out_ref_names.
Proof.
  unfold is_wrapper, out_named_variant, mem_string, out_ref_names. cbn [existsb]. intro H.
  apply orb_false_iff in H. destruct H as [H1 H2]. rewrite H1, H2. cbn [orb].
  repeat match goal with
         | |- is_some (if String.eqb t ?s then _ else _) = _ => destruct (String.eqb t s); [reflexivity|]
         end.
  reflexivity.
Qed.
Lemma in_named_ok t : is_wrapper t = false -> is_some (in_named_variant t) = mem_string t in_ref_names.
Proof.
  unfold is_wrapper, in_named_variant, mem_string, in_ref_names. cbn [existsb]. intro H.
  apply orb_false_iff in H. destruct H as [H1 H2]. rewrite H1, H2. cbn [orb].
  repeat match goal with
         | |- is_some (if String.eqb t ?s then _ else _) = _ => destruct (String.eqb t s); [reflexivity|]
         end.
  reflexivity.
Qed.

Lemma named_variant_ok {R} (o : option (named_ref -> R)) src :
  is_some (match o with Some c => opt_map c (decode_named_ref_src src) | None => None end) =
  is_some o && struct_src named_ref_check src.
Proof. destruct o as [c|]; [|reflexivity]. rewrite is_some_opt_map. apply named_ref_src_ok. Qed.

Lemma out_ref_ok v : forall bf, is_some (decode_out_ref bf v) = conforms (JTRef out_ref_names bf) v.
Proof.
  cbn [conforms].
  induction v as [| | | |l IH|es IH] using json_ind'; intro bf; try reflexivity.
  - destruct l as [|tj rest]; [reflexivity|]. cbn [decode_out_ref ref_shape].
    change out_ref_variants with out_ref_names. rewrite tag_of_name.
    destruct (tag_name bf out_ref_names tj) as [t|]; [|reflexivity].
    unfold is_wrapper. destruct (String.eqb t "LIST") eqn:E1; cbn [orb].
    + apply String.eqb_eq in E1. subst t. change (mem_string "LIST" out_ref_names) with true. cbn [andb].
      destruct rest as [|x [|y r]]; try reflexivity. rewrite is_some_opt_map. apply opt_dec_ok.
      inversion IH as [|? ? _ IH2]. inversion IH2 as [|? ? Hx _]. apply Hx.
    + destruct (String.eqb t "NON_NULL") eqn:E2.
      * apply String.eqb_eq in E2. subst t. change (mem_string "NON_NULL" out_ref_names) with true. cbn [andb].
        destruct rest as [|x [|y r]]; try reflexivity. rewrite is_some_opt_map. apply opt_dec_ok.
        inversion IH as [|? ? _ IH2]. inversion IH2 as [|? ? Hx _]. apply Hx.
      * rewrite named_variant_ok, out_named_ok; [reflexivity|]. unfold is_wrapper. rewrite E1, E2. reflexivity.
  - cbn [decode_out_ref ref_shape]. rewrite member_lookup.
    destruct (lookup_with (fun x => x) "kind" es) as [| |tj]; try reflexivity.
    change out_ref_variants with out_ref_names. rewrite tag_of_name.
    destruct (tag_name bf out_ref_names tj) as [t|]; [|reflexivity].
    unfold is_wrapper. destruct (String.eqb t "LIST") eqn:E1; cbn [orb].
    + apply String.eqb_eq in E1. subst t. change (mem_string "LIST" out_ref_names) with true. cbn [andb].
      rewrite is_some_opt_map. apply opt_field_lookup_ok_in.
      intros kv Hkv. rewrite Forall_forall in IH. apply (IH kv Hkv).
    + destruct (String.eqb t "NON_NULL") eqn:E2.
      * apply String.eqb_eq in E2. subst t. change (mem_string "NON_NULL" out_ref_names) with true. cbn [andb].
        rewrite is_some_opt_map. apply opt_field_lookup_ok_in.
        intros kv Hkv. rewrite Forall_forall in IH. apply (IH kv Hkv).
      * rewrite named_variant_ok, out_named_ok; [reflexivity|]. unfold is_wrapper. rewrite E1, E2. reflexivity.
Qed.

Lemma in_ref_ok v : forall bf, is_some (decode_in_ref bf v) = conforms (JTRef in_ref_names bf) v.
Proof.
  cbn [conforms].
  induction v as [| | | |l IH|es IH] using json_ind'; intro bf; try reflexivity.
  - destruct l as [|tj rest]; [reflexivity|]. cbn [decode_in_ref ref_shape].
    change in_ref_variants with in_ref_names. rewrite tag_of_name.
    destruct (tag_name bf in_ref_names tj) as [t|]; [|reflexivity].
    unfold is_wrapper. destruct (String.eqb t "LIST") eqn:E1; cbn [orb].
    + apply String.eqb_eq in E1. subst t. change (mem_string "LIST" in_ref_names) with true. cbn [andb].
      destruct rest as [|x [|y r]]; try reflexivity. rewrite is_some_opt_map. apply opt_dec_ok.
      inversion IH as [|? ? _ IH2]. inversion IH2 as [|? ? Hx _]. apply Hx.
    + destruct (String.eqb t "NON_NULL") eqn:E2.
      * apply String.eqb_eq in E2. subst t. change (mem_string "NON_NULL" in_ref_names) with true. cbn [andb].
        destruct rest as [|x [|y r]]; try reflexivity. rewrite is_some_opt_map. apply opt_dec_ok.
        inversion IH as [|? ? _ IH2]. inversion IH2 as [|? ? Hx _]. apply Hx.
      * rewrite named_variant_ok, in_named_ok; [reflexivity|]. unfold is_wrapper. rewrite E1, E2. reflexivity.
  - cbn [decode_in_ref ref_shape]. rewrite member_lookup.
    destruct (lookup_with (fun x => x) "kind" es) as [| |tj]; try reflexivity.
    change in_ref_variants with in_ref_names. rewrite tag_of_name.
    destruct (tag_name bf in_ref_names tj) as [t|]; [|reflexivity].
    unfold is_wrapper. destruct (String.eqb t "LIST") eqn:E1; cbn [orb].
    + apply String.eqb_eq in E1. subst t. change (mem_string "LIST" in_ref_names) with true. cbn [andb].
      rewrite is_some_opt_map. apply opt_field_lookup_ok_in.
      intros kv Hkv. rewrite Forall_forall in IH. apply (IH kv Hkv).
    + destruct (String.eqb t "NON_NULL") eqn:E2.
      * apply String.eqb_eq in E2. subst t. change (mem_string "NON_NULL" in_ref_names) with true. cbn [andb].
        rewrite is_some_opt_map. apply opt_field_lookup_ok_in.
        intros kv Hkv. rewrite Forall_forall in IH. apply (IH kv Hkv).
      * rewrite named_variant_ok, in_named_ok; [reflexivity|]. unfold is_wrapper. rewrite E1, E2. reflexivity.
Qed.

#[local] Hint Resolve out_ref_ok in_ref_ok : shape.

(* ---- structs ---- *)
Lemma scalar_src_ok : forall src,
  is_some (decode_scalar_type_src src) = struct_src (check_members scalar_members) src.
Proof. struct_src_tac decode_scalar_type_src scalar_members. Qed.

Lemma input_value_src_ok b : forall src,
  is_some (decode_input_value_src b src) = struct_src (check_members (input_value_members b)) src.
Proof. struct_src_tac decode_input_value_src input_value_members. Qed.
Lemma input_value_ok b v : is_some (decode_input_value b v) = conforms (input_value_ty b) v.
Proof. apply of_source_ok. apply input_value_src_ok. Qed.
#[local] Hint Resolve input_value_ok : shape.

Lemma field_src_ok b : forall src,
  is_some (decode_field_src b src) = struct_src (check_members (field_members b)) src.
Proof. struct_src_tac decode_field_src field_members. Qed.
Lemma field_ok b v : is_some (decode_field b v) = conforms (field_ty b) v.
Proof. apply of_source_ok. apply field_src_ok. Qed.
#[local] Hint Resolve field_ok : shape.

Lemma object_src_ok : forall src,
  is_some (decode_object_type_src true src) = struct_src (check_members object_members) src.
Proof. struct_src_tac decode_object_type_src object_members. Qed.
Lemma interface_src_ok : forall src,
  is_some (decode_interface_type_src true src) = struct_src (check_members interface_members) src.
Proof. struct_src_tac decode_interface_type_src interface_members. Qed.
Lemma union_src_ok : forall src,
  is_some (decode_union_type_src src) = struct_src (check_members union_members) src.
Proof. struct_src_tac decode_union_type_src union_members. Qed.

Lemma enum_value_src_ok : forall src,
  is_some (decode_enum_value_src src) = struct_src (check_members enum_value_members) src.
Proof. struct_src_tac decode_enum_value_src enum_value_members. Qed.
Lemma enum_value_ok v : is_some (decode_enum_value v) = conforms enum_value_ty v.
Proof. apply of_source_ok. apply enum_value_src_ok. Qed.
#[local] Hint Resolve enum_value_ok : shape.

Lemma enum_src_ok : forall src,
  is_some (decode_enum_type_src src) = struct_src (check_members enum_members) src.
Proof. struct_src_tac decode_enum_type_src enum_members. Qed.
Lemma input_object_src_ok : forall src,
  is_some (decode_input_object_type_src true src) = struct_src (check_members input_object_members) src.
Proof. struct_src_tac decode_input_object_type_src input_object_members. Qed.

(* ---- IntrospectionType ---- *)
Definition type_checks : list variant_check :=
  [("SCALAR", struct_of (check_members scalar_members)); ("OBJECT", struct_of (check_members object_members));
   ("INTERFACE", struct_of (check_members interface_members)); ("UNION", struct_of (check_members union_members));
   ("ENUM", struct_of (check_members enum_members));
   ("INPUT_OBJECT", struct_of (check_members input_object_members))].

Lemma type_content_ok t j src : to_source j = Some src ->
  is_some (if String.eqb t "SCALAR" then opt_map T_SCALAR (decode_scalar_type_src src)
           else if String.eqb t "OBJECT" then opt_map T_OBJECT (decode_object_type_src true src)
           else if String.eqb t "INTERFACE" then opt_map T_INTERFACE (decode_interface_type_src true src)
           else if String.eqb t "UNION" then opt_map T_UNION (decode_union_type_src src)
           else if String.eqb t "ENUM" then opt_map T_ENUM (decode_enum_type_src src)
           else if String.eqb t "INPUT_OBJECT" then opt_map T_INPUT_OBJECT (decode_input_object_type_src true src)
           else None) =
  variant_ok type_checks t j.
Proof.
  intro H. unfold variant_ok, type_checks. cbn [find fst].
  destruct j as [| | | |l|es]; try discriminate; inversion H; subst src;
  repeat match goal with
         | |- is_some (if String.eqb t ?s then _ else _) = _ =>
             destruct (String.eqb t s);
             [rewrite is_some_opt_map;
              first [apply scalar_src_ok|apply object_src_ok|apply interface_src_ok|apply union_src_ok
                    |apply enum_src_ok|apply input_object_src_ok]|]
         end; reflexivity.
Qed.

Lemma type_ok v : is_some (decode_type v) = conforms type_ty v.
Proof.
  unfold decode_type, type_ty. cbn [conforms]. unfold tagged_of, split_tag.
  rewrite map_map. cbn [map fst].
  change type_variants with ["SCALAR"; "OBJECT"; "INTERFACE"; "UNION"; "ENUM"; "INPUT_OBJECT"].
  destruct v as [| | | |l|es]; try reflexivity.
  - destruct l as [|tj rest]; [reflexivity|]. rewrite tag_of_name.
    destruct (tag_name false _ tj) as [t|]; [|reflexivity]. cbn [opt_bind fst snd].
    apply (type_content_ok t (JArr rest) (SrcSeq rest) eq_refl).
  - rewrite member_lookup. destruct (lookup_with (fun x => x) "kind" es) as [| |tj]; try reflexivity.
    rewrite tag_of_name.
    destruct (tag_name false _ tj) as [t|]; [|reflexivity]. cbn [opt_bind fst snd].
    apply (type_content_ok t (JObj es) (SrcMap es) eq_refl).
Qed.
#[local] Hint Resolve type_ok : shape.

(* ---- DirectiveLocation ---- *)
Lemma loc_name_ok s : is_some (loc_of_name s) = mem_string s location_names.
Proof.
  unfold loc_of_name, all_locs, mem_string, location_names. cbn [find_first existsb loc_name].
  repeat match goal with
         | |- is_some (if String.eqb ?a s then _ else _) = _ =>
             rewrite (String.eqb_sym a s); destruct (String.eqb s a); [reflexivity|]
         end.
  reflexivity.
Qed.
Lemma location_ok v : is_some (decode_location v) = conforms JTLocation v.
Proof.
  cbn [conforms]. destruct v as [| | |s|l|es]; try reflexivity.
  - apply loc_name_ok.
  - destruct es as [|[k [| | | | |]] [|kv r]]; try reflexivity. apply loc_name_ok.
Qed.
#[local] Hint Resolve location_ok : shape.

(* ---- IntrospectionDirective / IntrospectionSchema / IntrospectionQuery ---- *)
Lemma directive_src_ok : forall src,
  is_some (decode_directive_src src) = struct_src (check_members directive_members) src.
Proof. struct_src_tac decode_directive_src directive_members. Qed.
Lemma directive_ok v : is_some (decode_directive v) = conforms directive_ty v.
Proof. apply of_source_ok. apply directive_src_ok. Qed.
#[local] Hint Resolve directive_ok : shape.

Lemma schema_src_ok : forall src,
  is_some (decode_schema_src src) = struct_src (check_members schema_members) src.
Proof. struct_src_tac decode_schema_src schema_members. Qed.
Lemma schema_ok v : is_some (decode_schema v) = conforms schema_ty v.
Proof. apply of_source_ok. apply schema_src_ok. Qed.
#[local] Hint Resolve schema_ok : shape.

Lemma query_src_ok : forall src,
  is_some (decode_query_src src) = struct_src (check_members query_members) src.
Proof. struct_src_tac decode_query_src query_members. Qed.

(* ================================================================ accepted exactly when of the shape *)
Theorem decode_is_shape j : is_some (decode_query j) = full_shape j.
Proof. apply of_source_ok. apply query_src_ok. Qed.

Theorem decode_iff_shape : forall j, (exists q, decode_query j = Some q) <-> full_shape j = true.
Proof. intro j. rewrite <- decode_is_shape. symmetry. apply is_some_true. Qed.

Corollary decode_shape j q : decode_query j = Some q -> full_shape j = true.
Proof. intro H. apply decode_iff_shape. exists q. exact H. Qed.
Corollary not_shape_error j : full_shape j = false -> decode_query j = None.
Proof. rewrite <- decode_is_shape. destruct (decode_query j); [discriminate|reflexivity]. Qed.

(* what is written by the serialiser / the introspection result of a well-formed schema has the shape;
   the outermost shape of spec/SpecIntrospection.v follows from the full one *)
Corollary encode_full_shape q : query_normal q = true -> full_shape (encode_query q) = true.
Proof. intro H. eapply decode_shape. apply roundtrip. exact H. Qed.
Corollary render_full_shape pol s : GTS.WfSchema.wf_schema s = true -> full_shape (render pol s) = true.
Proof. intro H. eapply decode_shape. apply lossless. exact H. Qed.
Corollary full_shape_has_shape j : full_shape j = true -> has_shape j = true.
Proof. intro H. apply decode_iff_shape in H. destruct H as [q H]. eapply shape. exact H. Qed.

(* ================================================================ typed positions *)
(* [at_pos t j t' j'] : inside a tree j read as a t, the subtree j' is read as a t' (the places
   the reading of j descends into: elements of vectors, members of structs in object or positional
   form, the variant content of tagged enums, ofType chains and named references of type
   references; an Option member that is null is not descended into) *)
Definition variant_members (vs : list (string * members)) (t : string) : option members :=
  opt_map snd (find (fun v : string * members => String.eqb t (fst v)) vs).

Inductive at_pos : jty -> json -> jty -> json -> Prop :=
| pos_here t j : at_pos t j t j
| pos_elem t l x t' j' : In x l -> at_pos t x t' j' -> at_pos (JTVec t) (JArr l) t' j'
| pos_member ms es k pr t v t' j' :
    In (k, (pr, t)) ms -> In (k, v) es -> (pr = Opt -> v <> JNull) ->
    at_pos t v t' j' -> at_pos (JTStruct ms) (JObj es) t' j'
| pos_index ms l i k pr t v t' j' :
    nth_error ms i = Some (k, (pr, t)) -> nth_error l i = Some v -> (pr = Opt -> v <> JNull) ->
    at_pos t v t' j' -> at_pos (JTStruct ms) (JArr l) t' j'
| pos_variant_obj b vs es tj tag ms t' j' :
    member "kind" es = Some tj -> tag_name b (map fst vs) tj = Some tag ->
    variant_members vs tag = Some ms ->
    at_pos (JTStruct ms) (JObj es) t' j' -> at_pos (JTEnum b vs) (JObj es) t' j'
| pos_variant_arr b vs tj rest tag ms t' j' :
    tag_name b (map fst vs) tj = Some tag -> variant_members vs tag = Some ms ->
    at_pos (JTStruct ms) (JArr rest) t' j' -> at_pos (JTEnum b vs) (JArr (tj :: rest)) t' j'
| pos_oftype vs b es tj tag v t' j' :
    member "kind" es = Some tj -> tag_name b vs tj = Some tag -> is_wrapper tag = true ->
    In ("ofType", v) es -> v <> JNull ->
    at_pos (JTRef vs true) v t' j' -> at_pos (JTRef vs b) (JObj es) t' j'
| pos_oftype_arr vs b tj tag v t' j' :
    tag_name b vs tj = Some tag -> is_wrapper tag = true -> v <> JNull ->
    at_pos (JTRef vs true) v t' j' -> at_pos (JTRef vs b) (JArr [tj; v]) t' j'
| pos_named vs b es tj tag t' j' :
    member "kind" es = Some tj -> tag_name b vs tj = Some tag -> is_wrapper tag = false ->
    at_pos named_ref_ty (JObj es) t' j' -> at_pos (JTRef vs b) (JObj es) t' j'
| pos_named_arr vs b tj rest tag t' j' :
    tag_name b vs tj = Some tag -> is_wrapper tag = false ->
    at_pos named_ref_ty (JArr rest) t' j' -> at_pos (JTRef vs b) (JArr (tj :: rest)) t' j'.

Lemma all_with_key_In p k es v : all_with_key p k es = true -> In (k, v) es -> p v = true.
Proof.
  induction es as [|[k' v'] es IH]; cbn [all_with_key]; intros H Hin; [contradiction|].
  destruct Hin as [E|Hin]; apply andb_prop in H; destruct H as [H1 H2].
  - inversion E. subst k' v'. rewrite String.eqb_refl in H1. exact H1.
  - apply IH; assumption.
Qed.

Lemma check_members_In k pr t (ms : members) : In (k, (pr, t)) ms -> In (k, (pr, conforms t)) (check_members ms).
Proof. intro H. unfold check_members. apply (in_map (fun m => (fst m, (fst (snd m), conforms (snd (snd m))))) ms _ H). Qed.

Lemma nullable_not_null p v : nullable p v = true -> v <> JNull -> p v = true.
Proof. unfold nullable. destruct v; cbn [is_null orb]; intros H N; try exact H. contradiction. Qed.

Lemma member_ok_pos_value pr p k v : member_ok_pos (k, (pr, p)) v = true -> (pr = Opt -> v <> JNull) -> p v = true.
Proof.
  destruct pr; cbn [member_ok_pos]; intros H N; [exact H|]. apply nullable_not_null; [exact H|apply N; reflexivity].
Qed.

Lemma struct_obj_member ms es k pr t v :
  conforms (JTStruct ms) (JObj es) = true -> In (k, (pr, t)) ms -> In (k, v) es ->
  (pr = Opt -> v <> JNull) -> conforms t v = true.
Proof.
  cbn [conforms struct_of]. intros H Hm He N. rewrite forallb_forall in H.
  specialize (H _ (check_members_In _ _ _ _ Hm)). destruct pr; cbn [member_ok_obj] in H;
    apply andb_prop in H; destruct H as [_ H]; pose proof (all_with_key_In _ _ _ _ H He) as G.
  - exact G.
  - apply nullable_not_null; [exact G|apply N; reflexivity].
Qed.

Lemma positional_nth cs l i c v :
  positional cs l = true -> nth_error cs i = Some c -> nth_error l i = Some v -> member_ok_pos c v = true.
Proof.
  revert l i. induction cs as [|c0 cs IH]; intros l i H Hc Hv; [destruct i; discriminate|].
  destruct l as [|v0 l]; [discriminate|]. cbn [positional] in H. apply andb_prop in H. destruct H as [H1 H2].
  destruct i as [|i]; cbn [nth_error] in Hc, Hv.
  - inversion Hc. inversion Hv. subst. exact H1.
  - eapply IH; eassumption.
Qed.

Lemma struct_arr_member ms l i k pr t v :
  conforms (JTStruct ms) (JArr l) = true -> nth_error ms i = Some (k, (pr, t)) -> nth_error l i = Some v ->
  (pr = Opt -> v <> JNull) -> conforms t v = true.
Proof.
  cbn [conforms struct_of]. intros H Hm Hv N. apply andb_prop in H. destruct H as [_ H].
  assert (Hc : nth_error (check_members ms) i = Some (k, (pr, conforms t))).
  { unfold check_members. rewrite nth_error_map, Hm. reflexivity. }
  eapply member_ok_pos_value; [eapply positional_nth; eassumption|exact N].
Qed.

Lemma find_map_variants (f : members -> json -> bool) t (vs : list (string * members)) :
  find (fun v : variant_check => String.eqb t (fst v)) (map (fun v => (fst v, f (snd v))) vs) =
  opt_map (fun v => (fst v, f (snd v))) (find (fun v : string * members => String.eqb t (fst v)) vs).
Proof.
  induction vs as [|[n ms] vs IH]; [reflexivity|]. cbn [map find fst snd].
  destruct (String.eqb t n); [reflexivity|exact IH].
Qed.

Lemma enum_variant vs t content :
  variant_ok (map (fun v : string * members => (fst v, struct_of (check_members (snd v)))) vs) t content =
  match variant_members vs t with Some ms => conforms (JTStruct ms) content | None => false end.
Proof.
  unfold variant_ok, variant_members. rewrite (find_map_variants (fun ms => struct_of (check_members ms))).
  destruct (find _ vs) as [[n ms]|]; reflexivity.
Qed.
Lemma enum_names (vs : list (string * members)) :
  map fst (map (fun v : string * members => (fst v, struct_of (check_members (snd v)))) vs) = map fst vs.
Proof. rewrite map_map. reflexivity. Qed.

Lemma conforms_enum b vs j :
  conforms (JTEnum b vs) j =
  tagged_of b (map (fun v : string * members => (fst v, struct_of (check_members (snd v)))) vs) j.
Proof. reflexivity. Qed.

(* the shape holds at every position *)
Theorem conforms_at t j t' j' : at_pos t j t' j' -> conforms t j = true -> conforms t' j' = true.
Proof.
  induction 1 as [t j|t l x t' j' Hin _ IH|ms es k pr t v t' j' Hm He N _ IH|ms l i k pr t v t' j' Hm Hv N _ IH
                 |b vs es tj tag ms t' j' Hk Ht Hv _ IH|b vs tj rest tag ms t' j' Ht Hv _ IH
                 |vs b es tj tag v t' j' Hk Ht Hw Hin N _ IH|vs b tj tag v t' j' Ht Hw N _ IH
                 |vs b es tj tag t' j' Hk Ht Hw _ IH|vs b tj rest tag t' j' Ht Hw _ IH]; intro H.
  - exact H.
  - apply IH. cbn [conforms array_of] in H. rewrite forallb_forall in H. apply H. exact Hin.
  - apply IH. eapply struct_obj_member; eassumption.
  - apply IH. eapply struct_arr_member; eassumption.
  - apply IH. rewrite conforms_enum in H. unfold tagged_of in H. rewrite Hk, enum_names, Ht, enum_variant, Hv in H. exact H.
  - apply IH. rewrite conforms_enum in H. unfold tagged_of in H. rewrite enum_names, Ht, enum_variant, Hv in H. exact H.
  - apply IH. cbn [conforms ref_shape] in H. rewrite Hk, Ht, Hw in H. apply andb_prop in H. destruct H as [_ H].
    apply andb_prop in H. destruct H as [_ H].
    apply nullable_not_null; [|exact N]. eapply all_with_key_In; eassumption.
  - apply IH. cbn [conforms ref_shape] in H. rewrite Ht, Hw in H. apply andb_prop in H. destruct H as [_ H].
    apply nullable_not_null; [exact H|exact N].
  - apply IH. cbn [conforms ref_shape] in H. rewrite Hk, Ht, Hw in H. apply andb_prop in H. apply H.
  - apply IH. cbn [conforms ref_shape] in H. rewrite Ht, Hw in H. apply andb_prop in H. apply H.
Qed.

Lemma at_pos_trans t1 j1 t2 j2 t3 j3 : at_pos t1 j1 t2 j2 -> at_pos t2 j2 t3 j3 -> at_pos t1 j1 t3 j3.
Proof.
  induction 1; intro G;
    [exact G|eapply pos_elem|eapply pos_member|eapply pos_index|eapply pos_variant_obj|eapply pos_variant_arr
    |eapply pos_oftype|eapply pos_oftype_arr|eapply pos_named|eapply pos_named_arr]; eauto.
Qed.

(* a tree with a position that does not conform is an error *)
Corollary reject_at j t' j' : at_pos query_ty j t' j' -> conforms t' j' = false -> decode_query j = None.
Proof.
  intros P H. apply not_shape_error. unfold full_shape. destruct (conforms query_ty j) eqn:E; [|reflexivity].
  rewrite (conforms_at _ _ _ _ P E) in H. discriminate.
Qed.

(* ================================================================ the five kinds of rejection *)
Lemma count_key_app k es1 es2 : count_key k (es1 ++ es2)%list = count_key k es1 + count_key k es2.
Proof. unfold count_key. rewrite filter_app, app_length. reflexivity. Qed.
Lemma count_key_cons_same k v es : count_key k ((k, v) :: es) = S (count_key k es).
Proof. unfold count_key. cbn [filter fst]. rewrite String.eqb_refl. reflexivity. Qed.
Lemma count_key_twice k es1 v1 es2 v2 es3 :
  2 <= count_key k (es1 ++ (k, v1) :: es2 ++ (k, v2) :: es3)%list.
Proof. rewrite count_key_app, count_key_cons_same, count_key_app, count_key_cons_same. lia. Qed.
Lemma count_key_absent k es : has_key k es = false -> count_key k es = 0.
Proof.
  unfold has_key, count_key. induction es as [|[k' v] es IH]; [reflexivity|]. cbn [existsb filter fst].
  destruct (String.eqb k k'); cbn [orb]; [discriminate|exact IH].
Qed.
Lemma count_key_In k v es : In (k, v) es -> 1 <= count_key k es.
Proof.
  intro H. apply in_split in H. destruct H as [l1 [l2 E]]. subst es. rewrite count_key_app, count_key_cons_same. lia.
Qed.
Lemma member_count k es : member k es = None \/ count_key k es = 1.
Proof.
  unfold member, count_key. destruct (filter (fun kv => String.eqb k (fst kv)) es) as [|[k1 v1] [|kv2 r]];
    [left|right|left]; reflexivity.
Qed.
Lemma member_unique k es v v' : member k es = Some v -> In (k, v') es -> v' = v.
Proof.
  unfold member. intros H Hin.
  assert (G : In (k, v') (filter (fun kv => String.eqb k (fst kv)) es)).
  { apply filter_In. split; [exact Hin|]. cbn [fst]. apply String.eqb_refl. }
  destruct (filter (fun kv => String.eqb k (fst kv)) es) as [|[k1 v1] [|kv2 r]]; try discriminate.
  inversion H. subst v1. destruct G as [G|[]]. inversion G. reflexivity.
Qed.

Lemma struct_obj_count ms es k pr t :
  conforms (JTStruct ms) (JObj es) = true -> In (k, (pr, t)) ms ->
  count_key k es <= 1 /\ (pr = Req -> count_key k es = 1).
Proof.
  cbn [conforms struct_of]. intros H Hm. rewrite forallb_forall in H.
  specialize (H _ (check_members_In _ _ _ _ Hm)). destruct pr; cbn [member_ok_obj] in H;
    apply andb_prop in H; destruct H as [H _].
  - apply Nat.eqb_eq in H. split; [lia|intros _; exact H].
  - apply Nat.leb_le in H. split; [exact H|discriminate].
Qed.

(* the JSON type a description asks for *)
Definition json_type_ok (t : jty) (v : json) : bool :=
  match t, v with
  | JTValue, _ => true
  | JTString, JStr _ => true
  | JTBool, JBool _ => true
  | JTLocation, (JStr _ | JObj _) => true
  | JTVec _, JArr _ => true
  | (JTRef _ _ | JTStruct _ | JTEnum _ _), (JArr _ | JObj _) => true
  | _, _ => false
  end.
Lemma conforms_json_type t v : conforms t v = true -> json_type_ok t v = true.
Proof. destruct t, v; intro H; try reflexivity; cbn in H; discriminate H. Qed.
Lemma null_not_typed t : t <> JTValue -> json_type_ok t JNull = false.
Proof. destruct t; intro H; try reflexivity. contradiction. Qed.

Section Rejections.
  Variables (j : json) (ms : members) (es : list (string * json)).
  (* somewhere in j, the object with members es is read as a struct with members ms *)
  Hypothesis P : at_pos query_ty j (JTStruct ms) (JObj es).

  Lemma pos_conforms : full_shape j = true -> conforms (JTStruct ms) (JObj es) = true.
  Proof. apply conforms_at. exact P. Qed.

  Ltac by_shape H :=
    apply not_shape_error; destruct (full_shape j) eqn:F; [exfalso; pose proof (pos_conforms F) as H|reflexivity].

  (* 1. a required member is missing *)
  Theorem reject_missing k t : In (k, (Req, t)) ms -> has_key k es = false -> decode_query j = None.
  Proof.
    intros Hm Hk. by_shape H. destruct (struct_obj_count _ _ _ _ _ H Hm) as [_ G].
    rewrite (count_key_absent _ _ Hk) in G. specialize (G eq_refl). discriminate.
  Qed.

  (* 3. a member has the wrong JSON type (for a required member that includes null) *)
  Theorem reject_wrong_type k pr t v :
    In (k, (pr, t)) ms -> In (k, v) es -> (pr = Opt -> v <> JNull) -> json_type_ok t v = false ->
    decode_query j = None.
  Proof.
    intros Hm He N Hty. by_shape H. pose proof (struct_obj_member _ _ _ _ _ _ H Hm He N) as G.
    apply conforms_json_type in G. rewrite G in Hty. discriminate.
  Qed.

  (* 2. a required member is null *)
  Theorem reject_null k t : In (k, (Req, t)) ms -> t <> JTValue -> In (k, JNull) es -> decode_query j = None.
  Proof.
    intros Hm Ht He. apply (reject_wrong_type k Req t JNull Hm He); [discriminate|apply null_not_typed; exact Ht].
  Qed.

  (* 5. a known member is given twice (whatever the two values, also null) *)
  Theorem reject_duplicate k pr t es1 v1 es2 v2 es3 :
    In (k, (pr, t)) ms -> es = (es1 ++ (k, v1) :: es2 ++ (k, v2) :: es3)%list -> decode_query j = None.
  Proof.
    intros Hm E. by_shape H. destruct (struct_obj_count _ _ _ _ _ H Hm) as [G _].
    pose proof (count_key_twice k es1 v1 es2 v2 es3) as G2. rewrite <- E in G2. lia.
  Qed.
End Rejections.

(* 4. an unknown kind tag (tagged enum / type reference); the tag missing or given twice *)
Theorem reject_unknown_kind j b vs es tag :
  at_pos query_ty j (JTEnum b vs) (JObj es) -> In ("kind", JStr tag) es -> variant_members vs tag = None ->
  decode_query j = None.
Proof.
  intros P Hin Hv. apply (reject_at _ _ _ P). rewrite conforms_enum. unfold tagged_of.
  destruct (member "kind" es) as [tj|] eqn:E; [|reflexivity].
  rewrite <- (member_unique _ _ _ _ E Hin). cbn [tag_name]. rewrite enum_variant, Hv. reflexivity.
Qed.
Theorem reject_unknown_kind_ref j b vs es tag :
  at_pos query_ty j (JTRef vs b) (JObj es) -> In ("kind", JStr tag) es -> mem_string tag vs = false ->
  decode_query j = None.
Proof.
  intros P Hin Hv. apply (reject_at _ _ _ P). cbn [conforms ref_shape].
  destruct (member "kind" es) as [tj|] eqn:E; [|reflexivity].
  rewrite <- (member_unique _ _ _ _ E Hin). cbn [tag_name]. rewrite Hv. reflexivity.
Qed.
Theorem reject_kind_count j t es :
  at_pos query_ty j t (JObj es) -> (exists b vs, t = JTEnum b vs) \/ (exists vs b, t = JTRef vs b) ->
  count_key "kind" es <> 1 -> decode_query j = None.
Proof.
  intros P Ht Hc. apply (reject_at _ _ _ P).
  destruct (member_count "kind" es) as [E|E]; [|contradiction].
  destruct Ht as [[b [vs Ht]]|[vs [b Ht]]]; subst t.
  - rewrite conforms_enum. unfold tagged_of. rewrite E. reflexivity.
  - cbn [conforms ref_shape]. rewrite E. reflexivity.
Qed.

(* ---- how positions are reached: an argument of a field of an OBJECT type ---- *)
Example pos_field_argument es_q es_s tl tes fl fes al a :
  In ("__schema", JObj es_s) es_q -> In ("types", JArr tl) es_s -> In (JObj tes) tl ->
  member "kind" tes = Some (JStr "OBJECT") -> In ("fields", JArr fl) tes -> In (JObj fes) fl ->
  In ("args", JArr al) fes -> In a al ->
  at_pos query_ty (JObj es_q) (input_value_ty true) a.
Proof.
  intros H1 H2 H3 H4 H5 H6 H7 H8.
  eapply pos_member; [left; reflexivity|exact H1|discriminate|].
  eapply pos_member; [do 4 right; left; reflexivity|exact H2|discriminate|].
  eapply pos_elem; [exact H3|].
  eapply pos_variant_obj; [exact H4|reflexivity|reflexivity|].
  eapply pos_member; [do 2 right; left; reflexivity|exact H5|discriminate|].
  eapply pos_elem; [exact H6|].
  eapply pos_member; [do 2 right; left; reflexivity|exact H7|discriminate|].
  eapply pos_elem; [exact H8|]. apply pos_here.
Qed.
(* ... hence, e.g.: such an argument without a name makes the whole result an error *)
Example reject_argument_without_name es_q es_s tl tes fl fes al aes :
  In ("__schema", JObj es_s) es_q -> In ("types", JArr tl) es_s -> In (JObj tes) tl ->
  member "kind" tes = Some (JStr "OBJECT") -> In ("fields", JArr fl) tes -> In (JObj fes) fl ->
  In ("args", JArr al) fes -> In (JObj aes) al -> has_key "name" aes = false ->
  decode_query (JObj es_q) = None.
Proof.
  intros H1 H2 H3 H4 H5 H6 H7 H8 H9.
  apply (reject_missing _ _ _ (pos_field_argument _ _ _ _ _ _ _ _ H1 H2 H3 H4 H5 H6 H7 H8) "name" JTString);
    [left; reflexivity|exact H9].
Qed.

(* C06_graph_proofs.v — the two graph rules of C06: NoUnusedFragments (work-list reachability)
   and NoFragmentsCycle (depth-first search with the current path indexed by name) against the
   closure-based specification predicates. *)
From GT Require Import Visitor Validate.
From GTS Require Import SpecLin Annot WfSchema SpecRules SpecValid.
From GTP Require Import VisitorFacts TraceFacts RuleFacts.

(* ================================================================== names, lists *)
Lemma name_eqb_eq a b : name_eqb a b = true <-> a = b.
Proof. apply String.eqb_eq. Qed.
Lemma name_eqb_refl a : name_eqb a a = true.
Proof. apply String.eqb_refl. Qed.
Lemma name_eqb_sym a b : name_eqb a b = name_eqb b a.
Proof. apply String.eqb_sym. Qed.
Lemma name_eqb_neq a b : name_eqb a b = false <-> a <> b.
Proof. apply String.eqb_neq. Qed.

Lemma mem_name_In x l : mem_name x l = true <-> In x l.
Proof.
  unfold mem_name. rewrite existsb_exists. split.
  - intros [y [Hy E]]. apply name_eqb_eq in E. subst y. exact Hy.
  - intro H. exists x. split; [exact H|apply name_eqb_refl].
Qed.
Lemma mem_name_nIn x l : mem_name x l = false <-> ~ In x l.
Proof.
  rewrite <- mem_name_In. destruct (mem_name x l); split; congruence.
Qed.
Lemma mem_name_app x a b : mem_name x (a ++ b) = mem_name x a || mem_name x b.
Proof. unfold mem_name. apply existsb_app. Qed.

Lemma dedup_In x l : In x (dedup_names l) <-> In x l.
Proof.
  induction l as [|y r IH]; cbn [dedup_names]; [tauto|].
  destruct (mem_name y r) eqn:E.
  - rewrite IH. cbn [In]. split; [tauto|]. intros [H|H]; [|exact H]. subst y. apply mem_name_In. exact E.
  - cbn [In]. rewrite IH. tauto.
Qed.

Lemma nodup_names_NoDup l : nodup_names l = true -> NoDup l.
Proof.
  induction l as [|y r IH]; cbn [nodup_names]; intro H; [constructor|].
  apply andb_true_iff in H. destruct H as [H1 H2]. constructor.
  - apply negb_true_iff in H1. apply mem_name_nIn. exact H1.
  - apply IH. exact H2.
Qed.

Lemma flat_map_flat_map {A B C} (f : B -> list C) (g : A -> list B) (l : list A) :
  flat_map f (flat_map g l) = flat_map (fun x => flat_map f (g x)) l.
Proof.
  induction l as [|x r IH]; cbn [flat_map]; [reflexivity|].
  rewrite flat_map_app, IH. reflexivity.
Qed.

Lemma NoDup_app_r {A} (l1 l2 : list A) : NoDup (l1 ++ l2) -> NoDup l2.
Proof.
  induction l1 as [|x r IH]; cbn [app]; intro H; [exact H|]. inversion H; subst. apply IH. assumption.
Qed.

Lemma flat_map_nil_all {A B} (f : A -> list B) (l : list A) :
  (forall x, In x l -> f x = []) -> flat_map f l = [].
Proof.
  induction l as [|x r IH]; cbn [flat_map]; intro H; [reflexivity|].
  rewrite (H x (or_introl eq_refl)), IH; [reflexivity|]. intros y Hy. apply H. right. exact Hy.
Qed.

(* ================================================================== folds over the trace *)
(* a handler that ignores the context folds over the linearisation *)
Lemma fold_ctx_free {St} (h : St -> event -> ctx -> St) (g : St -> event -> St) :
  (forall st e c, h st e c = g st e) ->
  forall tr st, fold_left (hh h) tr st = fold_left g (map fst tr) st.
Proof.
  intros H tr. induction tr as [|[e c] r IH]; intro st; cbn [fold_left map fst]; [reflexivity|].
  unfold hh at 2. cbn [fst snd]. rewrite H. apply IH.
Qed.

Lemma visit_lin {St} (h : St -> event -> ctx -> St) (g : St -> event -> St) s d c st :
  (forall st e c, h st e c = g st e) ->
  visit_document h s d c st = (c, fold_left g (lin_document d) st).
Proof.
  intro H. rewrite visit_fold, (fold_ctx_free h g H), ctr_document_events. reflexivity.
Qed.

(* events no graph rule looks at *)
Definition inert (e : event) : bool :=
  match e with
  | Enter (NSpread _) => false
  | Enter n | Leave n =>
      match n with NDocument _ | NOperation _ | NFragmentDef _ => false | _ => true end
  end.

Lemma Forall_inert_value v : Forall (fun e => inert e = true) (lin_value v).
Proof.
  induction v as [n|z|b|str|b| |n|l IH|l IH] using value_ind'; cbn [lin_value];
    try (repeat constructor; fail).
  - constructor; [reflexivity|]. apply Forall_app. split.
    + apply Forall_flat_map. exact IH.
    + repeat constructor.
  - constructor; [reflexivity|]. apply Forall_app. split.
    + apply Forall_flat_map. eapply Forall_impl; [|exact IH]. intros kv Hkv.
      constructor; [reflexivity|]. apply Forall_app. split; [exact Hkv|repeat constructor].
    + repeat constructor.
Qed.

Lemma Forall_inert_arguments args : Forall (fun e => inert e = true) (flat_map lin_argument args).
Proof.
  apply Forall_flat_map. apply Forall_forall. intros a _. unfold lin_argument.
  constructor; [reflexivity|]. apply Forall_app. split; [apply Forall_inert_value|repeat constructor].
Qed.

Lemma Forall_inert_directives dirs : Forall (fun e => inert e = true) (flat_map lin_directive dirs).
Proof.
  apply Forall_flat_map. apply Forall_forall. intros a _. unfold lin_directive.
  constructor; [reflexivity|]. apply Forall_app. split; [apply Forall_inert_arguments|repeat constructor].
Qed.

Lemma Forall_inert_vardefs vars : Forall (fun e => inert e = true) (flat_map lin_vardef vars).
Proof.
  apply Forall_flat_map. apply Forall_forall. intros a _. unfold lin_vardef.
  constructor; [reflexivity|]. apply Forall_app. split; [|repeat constructor].
  destruct (v_default a); [apply Forall_inert_value|constructor].
Qed.

(* the spreads below a selection, in traversal order *)
Fixpoint sp_sel (x : selection) : list (pos * name * list directive) :=
  match x with
  | SSpread p n ds => [(p, n, ds)]
  | SField _ _ _ _ _ _ ss | SInline _ _ _ _ ss => flat_map sp_sel ss
  end.
Definition sp_sels (l : list selection) := flat_map sp_sel l.
Definition sp_event (t : pos * name * list directive) : event :=
  Enter (NSpread (SSpread (fst (fst t)) (snd (fst t)) (snd t))).
Definition sp_name (t : pos * name * list directive) : name := snd (fst t).

Lemma spreads_in_sp l : spreads_in l = map sp_name (sp_sels l).
Proof.
  unfold spreads_in, sels_all, sp_sels. rewrite flat_map_flat_map, map_flat_map.
  apply flat_map_Forall_ext. apply Forall_forall. intros x _.
  induction x as [p al n args dirs sp sels IH|p n dirs|p tc dirs sp sels IH] using selection_ind';
    cbn [sel_all sp_sel flat_map app map]; try reflexivity.
  - rewrite flat_map_flat_map, map_flat_map. apply flat_map_Forall_ext. exact IH.
  - rewrite flat_map_flat_map, map_flat_map. apply flat_map_Forall_ext. exact IH.
Qed.

Lemma recursive_spreads_sp l : map snd (get_recursive_fragment_spreads l) = map sp_name (sp_sels l).
Proof.
  unfold get_recursive_fragment_spreads, sp_sels. rewrite !map_flat_map.
  apply flat_map_Forall_ext. apply Forall_forall. intros x _.
  induction x as [p al n args dirs sp sels IH|p n dirs|p tc dirs sp sels IH] using selection_ind';
    cbn [spreads_of_selection sp_sel map]; try reflexivity.
  - rewrite !map_flat_map. apply flat_map_Forall_ext. exact IH.
  - rewrite !map_flat_map. apply flat_map_Forall_ext. exact IH.
Qed.

Lemma recursive_spreads_spreads_in l : map snd (get_recursive_fragment_spreads l) = spreads_in l.
Proof. rewrite recursive_spreads_sp, spreads_in_sp. reflexivity. Qed.

Definition def_skeleton (x : definition) : list event :=
  match x with
  | DOp o => Enter (NOperation o) :: map sp_event (sp_sels (o_sels o)) ++ [Leave (NOperation o)]
  | DFrag f => Enter (NFragmentDef f) :: map sp_event (sp_sels (fr_sels f)) ++ [Leave (NFragmentDef f)]
  end.

Section Skeleton.
  Variable St : Type.
  Variable g : St -> event -> St.
  Hypothesis g_inert : forall st e, inert e = true -> g st e = st.

  Lemma fold_inert l st : Forall (fun e => inert e = true) l -> fold_left g l st = st.
  Proof.
    intro H. revert st. induction H as [|e r He Hr IH]; intro st; cbn [fold_left]; [reflexivity|].
    rewrite (g_inert st e He). apply IH.
  Qed.

  Lemma fold_flat_map_ext {A} (f f' : A -> list event) (l : list A) :
    Forall (fun x => forall st, fold_left g (f x) st = fold_left g (f' x) st) l ->
    forall st, fold_left g (flat_map f l) st = fold_left g (flat_map f' l) st.
  Proof.
    induction 1 as [|x r Hx Hr IH]; intro st; cbn [flat_map]; [reflexivity|].
    rewrite !fold_left_app, Hx. apply IH.
  Qed.

  Lemma fold_selection x : forall st,
    fold_left g (lin_selection x) st = fold_left g (map sp_event (sp_sel x)) st.
  Proof.
    induction x as [p al n args dirs sp sels IH|p n dirs|p tc dirs sp sels IH] using selection_ind'; intro st.
    - cbn [lin_selection sp_sel fold_left].
      rewrite g_inert by reflexivity.
      rewrite !fold_left_app. rewrite (fold_inert _ _ (Forall_inert_arguments args)).
      rewrite (fold_inert _ _ (Forall_inert_directives dirs)).
      cbn [fold_left]. rewrite g_inert by reflexivity. rewrite fold_left_app.
      cbn [fold_left]. rewrite !g_inert by reflexivity.
      rewrite map_flat_map. apply fold_flat_map_ext. exact IH.
    - cbn [lin_selection sp_sel fold_left map sp_event fst snd].
      rewrite fold_left_app. rewrite (fold_inert _ _ (Forall_inert_directives dirs)).
      cbn [fold_left]. rewrite g_inert by reflexivity. reflexivity.
    - cbn [lin_selection sp_sel fold_left].
      rewrite g_inert by reflexivity.
      rewrite !fold_left_app.
      rewrite (fold_inert _ _ (Forall_inert_directives dirs)).
      cbn [fold_left]. rewrite g_inert by reflexivity. rewrite fold_left_app.
      cbn [fold_left]. rewrite !g_inert by reflexivity.
      rewrite map_flat_map. apply fold_flat_map_ext. exact IH.
  Qed.

  Lemma fold_selection_set sp sels st :
    fold_left g (lin_selection_set sp sels) st = fold_left g (map sp_event (sp_sels sels)) st.
  Proof.
    unfold lin_selection_set, sp_sels. cbn [fold_left]. rewrite g_inert by reflexivity.
    rewrite fold_left_app. cbn [fold_left]. rewrite g_inert by reflexivity.
    rewrite map_flat_map. apply fold_flat_map_ext. apply Forall_forall. intros x _. apply fold_selection.
  Qed.

  Lemma fold_definition x st :
    fold_left g (lin_definition x) st = fold_left g (def_skeleton x) st.
  Proof.
    destruct x as [o|f]; unfold lin_definition, def_skeleton; cbn [fold_left]; rewrite !fold_left_app.
    - rewrite (fold_inert _ _ (Forall_inert_directives _)), (fold_inert _ _ (Forall_inert_vardefs _)).
      rewrite fold_selection_set. reflexivity.
    - rewrite (fold_inert _ _ (Forall_inert_directives _)).
      rewrite fold_selection_set. reflexivity.
  Qed.

  Lemma fold_document d st :
    fold_left g (lin_document d) st =
    g (fold_left g (flat_map def_skeleton d) (g st (Enter (NDocument d)))) (Leave (NDocument d)).
  Proof.
    unfold lin_document. cbn [fold_left]. rewrite fold_left_app. cbn [fold_left]. f_equal.
    apply fold_flat_map_ext. apply Forall_forall. intros x _. intro st'. apply fold_definition.
  Qed.
End Skeleton.

(* ================================================================== the spread graph *)
Section Graph.
  Variable d : document.

  Definition edge (a b : name) : Prop := In b (fragment_spreads d a).

  (* path a l x: a walk from a to x whose vertices, x excluded, are l *)
  Inductive path : name -> list name -> name -> Prop :=
  | path_nil a : path a [] a
  | path_cons a b l x : edge a b -> path b l x -> path a (a :: l) x.

  Definition reach (a x : name) : Prop := exists l, path a l x.

  Lemma edge_defined a b : edge a b -> In a (frag_names d).
  Proof.
    unfold edge, fragment_spreads, frag_names. intro H. apply in_flat_map in H.
    destruct H as [f [Hf Hb]]. destruct (name_eqb (fr_name f) a) eqn:E; [|destruct Hb].
    apply name_eqb_eq in E. subst a. apply in_map. exact Hf.
  Qed.

  Lemma path_snoc a l x y : path a l x -> edge x y -> path a (l ++ [x]) y.
  Proof.
    induction 1 as [a|a b l x Hab Hp IH]; intro He; cbn [app].
    - econstructor; [exact He|constructor].
    - econstructor; [exact Hab|]. apply IH. exact He.
  Qed.

  Lemma path_app a l x l' y : path a l x -> path x l' y -> path a (l ++ l') y.
  Proof.
    induction 1 as [a|a b l x Hab Hp IH]; intro H2; cbn [app]; [exact H2|].
    econstructor; [exact Hab|]. apply IH. exact H2.
  Qed.

  Lemma reach_refl a : reach a a.
  Proof. exists []. constructor. Qed.
  Lemma reach_step a b x : edge a b -> reach b x -> reach a x.
  Proof. intros He [l Hl]. exists (a :: l). econstructor; eassumption. Qed.
  Lemma reach_snoc a x y : reach a x -> edge x y -> reach a y.
  Proof. intros [l Hl] He. exists (l ++ [x]). apply path_snoc; assumption. Qed.
  Lemma reach_trans a x y : reach a x -> reach x y -> reach a y.
  Proof. intros [l Hl] [l' Hl']. exists (l ++ l'). eapply path_app; eassumption. Qed.

  Lemma reach_closed (P : name -> Prop) a x :
    reach a x -> P a -> (forall u v, P u -> edge u v -> P v) -> P x.
  Proof.
    intros [l Hl] Ha Hc. induction Hl as [a|a b l x Hab Hp IH]; [exact Ha|].
    apply IH. eapply Hc; eassumption.
  Qed.

  Lemma path_vertices_defined a l x : path a l x -> incl l (frag_names d).
  Proof.
    induction 1 as [a|a b l x Hab Hp IH]; intros y Hy; [destruct Hy|].
    destruct Hy as [Hy|Hy]; [subst y; eapply edge_defined; exact Hab|apply IH; exact Hy].
  Qed.

  Lemma path_suffix l1 : forall a v l2 x, path a (l1 ++ v :: l2) x -> path v (v :: l2) x.
  Proof.
    induction l1 as [|u l1 IH]; intros a v l2 x H; cbn [app] in H.
    - inversion H; subst. econstructor; eassumption.
    - inversion H; subst. eapply IH. eassumption.
  Qed.

  Lemma path_shorten a l x : path a l x -> exists l', path a l' x /\ NoDup l' /\ incl l' l.
  Proof.
    induction 1 as [a|a b l x Hab Hp IH].
    - exists []. split; [constructor|]. split; [constructor|]. intros y Hy. exact Hy.
    - destruct IH as [l' [Hp' [Hnd Hincl]]].
      destruct (in_dec string_dec a l') as [Hin|Hnin].
      + apply in_split in Hin. destruct Hin as [l1 [l2 El]]. subst l'.
        exists (a :: l2). split; [eapply path_suffix; exact Hp'|]. split.
        * apply NoDup_app_r in Hnd. exact Hnd.
        * intros y Hy. destruct Hy as [Hy|Hy]; [left; exact Hy|].
          right. apply Hincl. apply in_or_app. right. right. exact Hy.
      + exists (a :: l'). split; [econstructor; eassumption|]. split.
        * constructor; assumption.
        * intros y Hy. destruct Hy as [Hy|Hy]; [left; exact Hy|right; apply Hincl; exact Hy].
  Qed.

  Lemma reach_bounded a x : reach a x -> exists l, path a l x /\ List.length l <= List.length (fragments_of d).
  Proof.
    intros [l Hl]. destruct (path_shorten _ _ _ Hl) as [l' [Hp [Hnd _]]].
    exists l'. split; [exact Hp|].
    replace (List.length (fragments_of d)) with (List.length (frag_names d)) by apply map_length.
    apply NoDup_incl_length; [exact Hnd|]. eapply path_vertices_defined. exact Hp.
  Qed.

  Lemma closure_paths k : forall set x,
    In x (spread_closure k d set) <-> exists a l, In a set /\ path a l x /\ List.length l <= k.
  Proof.
    induction k as [|k IH]; intros set x; cbn [spread_closure].
    - split.
      + intro H. exists x, []. split; [exact H|]. split; [constructor|apply le_n].
      + intros [a [l [Ha [Hp Hl]]]]. destruct l; [|cbn in Hl; lia]. inversion Hp; subst. exact Ha.
    - rewrite IH. split.
      + intros [a [l [Ha [Hp Hl]]]]. apply (proj1 (dedup_In _ _)) in Ha. apply in_app_or in Ha. destruct Ha as [Ha|Ha].
        * exists a, l. split; [exact Ha|]. split; [exact Hp|lia].
        * apply in_flat_map in Ha. destruct Ha as [a0 [Ha0 He]].
          exists a0, (a0 :: l). split; [exact Ha0|]. split; [econstructor; eassumption|cbn; lia].
      + intros [a [l [Ha [Hp Hl]]]]. inversion Hp; subst.
        * exists x, []. split; [|split; [constructor|cbn; lia]].
          apply dedup_In. apply in_or_app. left. exact Ha.
        * exists b, l0. split; [|split; [assumption|cbn in Hl; lia]].
          apply dedup_In. apply in_or_app. right. apply in_flat_map. exists a. split; assumption.
  Qed.

  (* S (number of fragment definitions) rounds reach the fixed point *)
  Lemma closure_reach set x :
    In x (spread_closure (S (List.length (fragments_of d))) d set) <-> exists a, In a set /\ reach a x.
  Proof.
    rewrite closure_paths. split.
    - intros [a [l [Ha [Hp _]]]]. exists a. split; [exact Ha|exists l; exact Hp].
    - intros [a [Ha Hr]]. destruct (reach_bounded _ _ Hr) as [l [Hp Hl]].
      exists a, l. split; [exact Ha|]. split; [exact Hp|lia].
  Qed.
End Graph.

(* ================================================================== NoUnusedFragments *)
Definition nuf_ev (d : document) (st : nuf_state) (e : event) : nuf_state := nuf_step d st e ctx0.

Lemma nuf_inert d st e : inert e = true -> nuf_ev d st e = st.
Proof.
  unfold nuf_ev, nuf_step. destruct e as [n|n]; destruct n; cbn [inert]; intro H;
    try discriminate H; reflexivity.
Qed.

(* the spreads met so far, each with the definition it was met in *)
Definition slog := list (option name * name).
Definition sel_log (k : option name) (lg : slog) : list name :=
  flat_map (fun p : option name * name => if oname_eqb (fst p) k then [snd p] else []) lg.
Definition nonempty_opt {A} (l : list A) : option (list A) := match l with [] => None | _ => Some l end.

Lemma sel_log_app k a b : sel_log k (a ++ b) = sel_log k a ++ sel_log k b.
Proof. apply flat_map_app. Qed.
Lemma sel_log_snoc k lg c n : sel_log k (lg ++ [(c, n)]) = sel_log k lg ++ (if oname_eqb c k then [n] else []).
Proof. rewrite sel_log_app. unfold sel_log at 2. cbn [flat_map fst snd]. rewrite app_nil_r. reflexivity. Qed.
Lemma sel_log_map {A} k c (f : A -> name) (l : list A) :
  sel_log k (map (fun t => (c, f t)) l) = if oname_eqb c k then map f l else [].
Proof.
  induction l as [|t r IH]; cbn [map]; [destruct (oname_eqb c k); reflexivity|].
  change ((c, f t) :: map (fun t0 => (c, f t0)) r) with ([(c, f t)] ++ map (fun t0 => (c, f t0)) r).
  rewrite sel_log_app, IH. unfold sel_log. cbn [flat_map fst snd]. destruct (oname_eqb c k); reflexivity.
Qed.

Record LogInv (st : nuf_state) (lg : slog) : Prop := mkLogInv {
  li_ops : nuf_ops st = sel_log None lg;
  li_frags : forall n, al_get n (nuf_frags st) = nonempty_opt (sel_log (Some n) lg);
  li_len : List.length (nuf_ops st) + List.length (flat_map snd (nuf_frags st)) = List.length lg;
  li_res : nuf_res st = mkRes [] false }.

Lemma as_get_al_get {V} k (m : list (name * V)) : as_get name_eqb k m = al_get k m.
Proof. induction m as [|[k' v] r IH]; cbn [as_get al_get]; [reflexivity|]. rewrite IH. reflexivity. Qed.

Lemma al_get_as_set {V} k k' (v : V) m :
  al_get k (as_set name_eqb k' v m) = if name_eqb k k' then Some v else al_get k m.
Proof.
  induction m as [|[k2 v2] r IH]; cbn [as_set al_get].
  - reflexivity.
  - destruct (name_eqb k' k2) eqn:E1; cbn [al_get].
    + apply name_eqb_eq in E1. subst k2. destruct (name_eqb k k'); reflexivity.
    + rewrite IH. destruct (name_eqb k k2) eqn:E2; [|reflexivity].
      apply name_eqb_eq in E2. subst k2. rewrite name_eqb_sym, E1. reflexivity.
Qed.

Lemma al_get_app_last {V} k k' (v : V) m :
  al_get k (m ++ [(k', v)]) =
  match al_get k m with Some x => Some x | None => if name_eqb k k' then Some v else None end.
Proof.
  induction m as [|[k2 v2] r IH]; cbn [app al_get]; [reflexivity|].
  destruct (name_eqb k k2); [reflexivity|exact IH].
Qed.

Lemma len_as_set k' (l l' : list name) m : al_get k' m = Some l ->
  List.length (flat_map snd (as_set name_eqb k' l' m)) + List.length l
  = List.length (flat_map snd m) + List.length l'.
Proof.
  induction m as [|[k2 v2] r IH]; cbn [al_get as_set]; intro H; [discriminate H|].
  destruct (name_eqb k' k2); cbn [flat_map snd]; rewrite !app_length.
  - injection H as H. subst v2. lia.
  - specialize (IH H). lia.
Qed.

Lemma LogInv_spread d st lg t :
  LogInv st lg ->
  LogInv (nuf_ev d st (sp_event t)) (lg ++ [(nuf_current st, sp_name t)]) /\
  nuf_current (nuf_ev d st (sp_event t)) = nuf_current st.
Proof.
  intros [Hops Hfr Hlen Hres]. destruct t as [[p n] ds].
  unfold nuf_ev, sp_event, sp_name, nuf_step. cbn [fst snd].
  destruct (nuf_current st) as [fname|] eqn:Ec; cbn [nuf_current]; (split; [|reflexivity]).
  - constructor; cbn [nuf_ops nuf_frags nuf_res].
    + rewrite sel_log_snoc. cbn [oname_eqb]. rewrite app_nil_r. exact Hops.
    + intro m. rewrite sel_log_snoc. cbn [oname_eqb]. unfold as_push. rewrite as_get_al_get.
      pose proof (Hfr fname) as Hf. pose proof (Hfr m) as Hm.
      destruct (al_get fname (nuf_frags st)) as [l|] eqn:Eg.
      * rewrite al_get_as_set. rewrite (name_eqb_sym m fname).
        destruct (name_eqb fname m) eqn:E.
        -- apply name_eqb_eq in E. subst m. rewrite Eg in Hm.
           destruct (sel_log (Some fname) lg) as [|a r]; [discriminate Hm|].
           cbn [nonempty_opt] in Hm. injection Hm as Hm. subst l. reflexivity.
        -- rewrite app_nil_r. exact Hm.
      * rewrite al_get_app_last. rewrite (name_eqb_sym m fname).
        destruct (name_eqb fname m) eqn:E.
        -- apply name_eqb_eq in E. subst m. rewrite Eg.
           destruct (sel_log (Some fname) lg) as [|a r]; [reflexivity|discriminate Hf].
        -- rewrite app_nil_r, Hm. destruct (nonempty_opt (sel_log (Some m) lg)); reflexivity.
    + rewrite app_length. cbn [List.length]. unfold as_push. rewrite as_get_al_get.
      destruct (al_get fname (nuf_frags st)) as [l|] eqn:Eg.
      * pose proof (len_as_set fname l (l ++ [n]) _ Eg) as Hl. rewrite app_length in Hl.
        cbn [List.length] in Hl. lia.
      * rewrite flat_map_app, app_length. cbn [flat_map snd List.length app]. lia.
    + exact Hres.
  - constructor; cbn [nuf_ops nuf_frags nuf_res].
    + rewrite sel_log_snoc. cbn [oname_eqb]. rewrite Hops. reflexivity.
    + intro m. rewrite sel_log_snoc. cbn [oname_eqb]. rewrite app_nil_r. apply Hfr.
    + rewrite !app_length. cbn [List.length]. lia.
    + exact Hres.
Qed.

Lemma LogInv_spreads d ts : forall st lg, LogInv st lg ->
  LogInv (fold_left (nuf_ev d) (map sp_event ts) st)
         (lg ++ map (fun t => (nuf_current st, sp_name t)) ts) /\
  nuf_current (fold_left (nuf_ev d) (map sp_event ts) st) = nuf_current st.
Proof.
  induction ts as [|t r IH]; intros st lg H; cbn [map fold_left].
  - rewrite app_nil_r. split; [exact H|reflexivity].
  - destruct (LogInv_spread d st lg t H) as [H1 Hc].
    destruct (IH _ _ H1) as [H2 Hc2]. rewrite Hc in H2, Hc2.
    rewrite <- app_assoc in H2. split; [exact H2|exact Hc2].
Qed.

Definition def_log (x : definition) : slog :=
  match x with
  | DOp o => map (fun t => (None, sp_name t)) (sp_sels (o_sels o))
  | DFrag f => map (fun t => (Some (fr_name f), sp_name t)) (sp_sels (fr_sels f))
  end.

Lemma LogInv_def d x st lg :
  LogInv st lg -> LogInv (fold_left (nuf_ev d) (def_skeleton x) st) (lg ++ def_log x).
Proof.
  intros [Hops Hfr Hlen Hres]. destruct x as [o|f]; unfold def_skeleton, def_log; cbn [fold_left];
    rewrite fold_left_app; cbn [fold_left].
  - set (st1 := nuf_ev d st (Enter (NOperation o))).
    assert (H1 : LogInv st1 lg) by (constructor; assumption).
    destruct (LogInv_spreads d (sp_sels (o_sels o)) st1 lg H1) as [H2 _]. exact H2.
  - set (st1 := nuf_ev d st (Enter (NFragmentDef f))).
    assert (H1 : LogInv st1 lg) by (constructor; assumption).
    destruct (LogInv_spreads d (sp_sels (fr_sels f)) st1 lg H1) as [H2 _]. exact H2.
Qed.

Lemma LogInv_defs d l : forall st lg,
  LogInv st lg -> LogInv (fold_left (nuf_ev d) (flat_map def_skeleton l) st) (lg ++ flat_map def_log l).
Proof.
  induction l as [|x r IH]; intros st lg H; cbn [flat_map fold_left].
  - rewrite app_nil_r. exact H.
  - rewrite fold_left_app, app_assoc. apply IH. apply LogInv_def. exact H.
Qed.

Lemma log_ops d :
  sel_log None (flat_map def_log d) = flat_map (fun o => spreads_in (o_sels o)) (operations_of d).
Proof.
  unfold operations_of. induction d as [|x r IH]; cbn [flat_map]; [reflexivity|].
  rewrite sel_log_app, flat_map_app, IH. f_equal.
  destruct x as [o|f]; unfold def_log; rewrite sel_log_map; cbn [oname_eqb flat_map].
  - rewrite app_nil_r, spreads_in_sp. reflexivity.
  - reflexivity.
Qed.

Lemma log_frags d n : sel_log (Some n) (flat_map def_log d) = fragment_spreads d n.
Proof.
  unfold fragment_spreads, fragments_of. induction d as [|x r IH]; cbn [flat_map]; [reflexivity|].
  rewrite sel_log_app, flat_map_app, IH. f_equal.
  destruct x as [o|f]; unfold def_log; rewrite sel_log_map; cbn [oname_eqb flat_map].
  - reflexivity.
  - rewrite app_nil_r, spreads_in_sp. reflexivity.
Qed.

Lemma log_length d : List.length (flat_map def_log d) = total_spreads d.
Proof.
  unfold total_spreads. induction d as [|x r IH]; cbn [flat_map]; [reflexivity|].
  rewrite !app_length, IH. f_equal.
  destruct x as [o|f]; unfold def_log; rewrite map_length.
  - rewrite <- (map_length sp_name), <- recursive_spreads_sp, map_length. reflexivity.
  - rewrite <- (map_length sp_name), <- recursive_spreads_sp, map_length. reflexivity.
Qed.

Definition wsum_of (m : list (name * list name)) (in_use : list name) : nat :=
  List.length (flat_map (fun kl : name * list name => if mem_name (fst kl) in_use then [] else snd kl) m).

Lemma wsum_mono m in_use x : wsum_of m (in_use ++ [x]) <= wsum_of m in_use.
Proof.
  unfold wsum_of. induction m as [|[k v] r IH]; cbn [flat_map fst snd]; [apply le_n|].
  rewrite !app_length, mem_name_app. destruct (mem_name k in_use); cbn [orb List.length].
  - lia.
  - destruct (mem_name k [x]); cbn [List.length]; lia.
Qed.

Lemma wsum_dec m in_use x l : al_get x m = Some l -> mem_name x in_use = false ->
  wsum_of m (in_use ++ [x]) + List.length l <= wsum_of m in_use.
Proof.
  unfold wsum_of. induction m as [|[k v] r IH]; cbn [al_get flat_map fst snd]; intros Hg Hm; [discriminate Hg|].
  rewrite !app_length, mem_name_app. destruct (name_eqb x k) eqn:E.
  - apply name_eqb_eq in E. subst k. injection Hg as Hg. subst v. rewrite Hm.
    cbn [mem_name existsb]. rewrite name_eqb_refl. cbn [orb List.length].
    pose proof (wsum_mono r in_use x) as Hmono. unfold wsum_of in Hmono. lia.
  - specialize (IH Hg Hm). destruct (mem_name k in_use); cbn [orb List.length]; [lia|].
    cbn [mem_name existsb]. rewrite name_eqb_sym, E. cbn [orb List.length]. lia.
Qed.

Section Reach.
  Variable d : document.
  Variable frags : list (name * list name).
  Hypothesis frags_ok : forall n, al_get n frags = nonempty_opt (fragment_spreads d n).

  Lemma succ_ok x : match al_get x frags with Some l => l | None => [] end = fragment_spreads d x.
  Proof. rewrite frags_ok. destruct (fragment_spreads d x); reflexivity. Qed.

  Lemma wsum_dec' in_use x : mem_name x in_use = false ->
    wsum_of frags (in_use ++ [x]) + List.length (fragment_spreads d x) <= wsum_of frags in_use.
  Proof.
    intro Hm. pose proof (frags_ok x) as Hx. destruct (fragment_spreads d x) as [|a l] eqn:E.
    - cbn [List.length]. pose proof (wsum_mono frags in_use x). lia.
    - cbn [nonempty_opt] in Hx. apply (wsum_dec _ _ _ _ Hx Hm).
  Qed.

  Lemma nuf_reach_spec (S0 : list name) : forall fuel pending in_use,
    List.length pending + wsum_of frags in_use < fuel ->
    (forall y, In y in_use \/ In y pending -> exists a, In a S0 /\ reach d a y) ->
    (forall y, In y S0 -> In y in_use \/ In y pending) ->
    (forall a y, In a in_use -> edge d a y -> In y in_use \/ In y pending) ->
    exists r, nuf_reach fuel frags pending in_use = Some r /\
              forall y, In y r <-> exists a, In a S0 /\ reach d a y.
  Proof.
    induction fuel as [|fuel IH]; intros pending in_use Hfuel Hsound Hstart Hclosed; [lia|].
    cbn [nuf_reach]. destruct (rev pending) as [|x rest] eqn:Er.
    - apply (f_equal (@rev name)) in Er. rewrite rev_involutive in Er. cbn [rev] in Er. subst pending.
      exists in_use. split; [reflexivity|]. intro y. split.
      + intro Hy. apply Hsound. left. exact Hy.
      + intros [a [Ha Hr]]. apply (reach_closed d (fun z => In z in_use) a y Hr).
        * destruct (Hstart a Ha) as [H|[]]. exact H.
        * intros u v Hu He. destruct (Hclosed u v Hu He) as [H|[]]. exact H.
    - apply (f_equal (@rev name)) in Er. rewrite rev_involutive in Er. cbn [rev] in Er. subst pending.
      rewrite app_length in Hfuel. cbn [List.length] in Hfuel.
      destruct (mem_name x in_use) eqn:Em.
      + apply mem_name_In in Em. apply IH.
        * lia.
        * intros y [Hy|Hy]; apply Hsound; [left; exact Hy|right; apply in_or_app; left; exact Hy].
        * intros y Hy. destruct (Hstart y Hy) as [H|H]; [left; exact H|].
          apply in_app_or in H. destruct H as [H|[H|[]]]; [right; exact H|subst y; left; exact Em].
        * intros a y Ha He. destruct (Hclosed a y Ha He) as [H|H]; [left; exact H|].
          apply in_app_or in H. destruct H as [H|[H|[]]]; [right; exact H|subst y; left; exact Em].
      + rewrite succ_ok. pose proof (wsum_dec' in_use x Em) as Hdec. apply IH.
        * rewrite app_length. lia.
        * intros y [Hy|Hy].
          -- apply in_app_or in Hy. destruct Hy as [Hy|[Hy|[]]].
             ++ apply Hsound. left. exact Hy.
             ++ subst y. apply Hsound. right. apply in_or_app. right. left. reflexivity.
          -- apply in_app_or in Hy. destruct Hy as [Hy|Hy].
             ++ apply Hsound. right. apply in_or_app. left. exact Hy.
             ++ destruct (Hsound x) as [a [Ha Hr]]; [right; apply in_or_app; right; left; reflexivity|].
                exists a. split; [exact Ha|]. eapply reach_snoc; [exact Hr|exact Hy].
        * intros y Hy. destruct (Hstart y Hy) as [H|H].
          -- left. apply in_or_app. left. exact H.
          -- apply in_app_or in H. destruct H as [H|[H|[]]].
             ++ right. apply in_or_app. left. exact H.
             ++ subst y. left. apply in_or_app. right. left. reflexivity.
        * intros a y Ha He. apply in_app_or in Ha. destruct Ha as [Ha|[Ha|[]]].
          -- destruct (Hclosed a y Ha He) as [H|H].
             ++ left. apply in_or_app. left. exact H.
             ++ apply in_app_or in H. destruct H as [H|[H|[]]].
                ** right. apply in_or_app. left. exact H.
                ** subst y. left. apply in_or_app. right. left. reflexivity.
          -- subst a. right. apply in_or_app. right. exact He.
  Qed.
End Reach.

Lemma known_fragment_names_In d n : In n (known_fragment_names d) <-> In n (frag_names d).
Proof.
  unfold known_fragment_names, frag_names. rewrite <- in_rev, dedup_In, <- in_rev. reflexivity.
Qed.

Lemma nuf_run s d : exists st,
  visit_document (nuf_step d) s d ctx0 (mkNuf None [] [] (mkRes [] false))
  = (ctx0, nuf_ev d st (Leave (NDocument d))) /\ LogInv st (flat_map def_log d).
Proof.
  exists (fold_left (nuf_ev d) (flat_map def_skeleton d) (mkNuf None [] [] (mkRes [] false))). split.
  - rewrite (visit_lin (nuf_step d) (nuf_ev d)) by reflexivity.
    rewrite (fold_document _ (nuf_ev d) (nuf_inert d)). reflexivity.
  - apply (LogInv_defs d d _ []). constructor; reflexivity.
Qed.

Lemma no_unused_fragments_iff_gen s d :
  run_alone R_NoUnusedFragments s d <> [] <-> violated R_NoUnusedFragments s d = true.
Proof.
  unfold run_alone. cbn [run_rule violated].
  destruct (nuf_run s d) as [st [Hrun [Hops Hfr Hlen Hres]]]. rewrite Hrun. cbn [snd].
  assert (Hfrags : forall n, al_get n (nuf_frags st) = nonempty_opt (fragment_spreads d n)).
  { intro n. rewrite Hfr, log_frags. reflexivity. }
  destruct (nuf_reach_spec d (nuf_frags st) Hfrags (nuf_ops st) (S (S (total_spreads d))) (nuf_ops st) [])
    as [r [Hr Hspec]].
  - rewrite <- log_length, <- Hlen. unfold wsum_of.
    assert (E : flat_map (fun kl : name * list name => if mem_name (fst kl) [] then [] else snd kl) (nuf_frags st)
                = flat_map snd (nuf_frags st)) by (apply flat_map_all_ext; intro kl; reflexivity).
    rewrite E. lia.
  - intros y [[]|Hy]. exists y. split; [exact Hy|apply reach_refl].
  - intros y Hy. right. exact Hy.
  - intros a y [].
  - unfold nuf_ev, nuf_step. rewrite Hr. cbn [nuf_res r_errors]. rewrite Hres. cbn [r_errors app].
    rewrite flat_map_nonempty_existsb. unfold v_no_unused_fragments. rewrite !existsb_exists.
    assert (Hreach : forall n, In n (reachable_from_operations d) <-> In n r).
    { intro n. unfold reachable_from_operations. rewrite closure_reach, Hspec. rewrite Hops, log_ops.
      split; intros [a [Ha Hra]]; exists a; (split; [|exact Hra]).
      - apply (proj1 (dedup_In _ _)) in Ha. exact Ha.
      - apply dedup_In. exact Ha. }
    split.
    + intros [n [Hn Hv]]. exists n. split; [apply known_fragment_names_In; exact Hn|].
      destruct (mem_name n r) eqn:Em; [discriminate Hv|].
      apply negb_true_iff. apply mem_name_nIn. rewrite Hreach. apply mem_name_nIn. exact Em.
    + intros [n [Hn Hv]]. exists n. split; [apply known_fragment_names_In; exact Hn|].
      apply negb_true_iff in Hv. apply mem_name_nIn in Hv. rewrite Hreach in Hv.
      apply mem_name_nIn in Hv. rewrite Hv. reflexivity.
Qed.

Theorem no_unused_fragments_iff : forall s d, distinct_fragments d = true ->
  (run_alone R_NoUnusedFragments s d <> [] <-> violated R_NoUnusedFragments s d = true).
Proof. intros s d _. apply no_unused_fragments_iff_gen. Qed.

(* ================================================================== NoFragmentsCycle *)
Lemma known_fragment_Some d n f : known_fragment d n = Some f -> In f (fragments_of d) /\ fr_name f = n.
Proof.
  unfold fragments_of. induction d as [|x r IH]; cbn [known_fragment flat_map]; intro H; [discriminate H|].
  destruct x as [o|g]; cbn [app].
  - apply IH. exact H.
  - destruct (known_fragment r n) as [g'|] eqn:E.
    + injection H as H. subst g'. destruct (IH eq_refl) as [H1 H2]. split; [right; exact H1|exact H2].
    + destruct (name_eqb n (fr_name g)) eqn:En; [|discriminate H].
      injection H as H. subst g. apply name_eqb_eq in En. split; [left; reflexivity|symmetry; exact En].
Qed.

Lemma known_fragment_None d n : known_fragment d n = None -> ~ In n (frag_names d).
Proof.
  unfold frag_names, fragments_of. induction d as [|x r IH]; cbn [known_fragment flat_map map]; intros H Hin; [exact Hin|].
  destruct x as [o|g]; cbn [app map] in Hin.
  - exact (IH H Hin).
  - destruct (known_fragment r n) as [g'|] eqn:E; [discriminate H|].
    destruct (name_eqb n (fr_name g)) eqn:En; [discriminate H|].
    apply name_eqb_neq in En. destruct Hin as [Hin|Hin]; [congruence|exact (IH eq_refl Hin)].
Qed.

Lemma fragment_spreads_unique d f :
  NoDup (frag_names d) -> In f (fragments_of d) -> fragment_spreads d (fr_name f) = spreads_in (fr_sels f).
Proof.
  unfold frag_names, fragment_spreads. generalize (fragments_of d) as fs.
  induction fs as [|g r IH]; cbn [map flat_map]; intros Hnd Hin; [destruct Hin|].
  inversion Hnd as [|? ? Hg Hr]; subst. destruct Hin as [Hin|Hin].
  - subst g. rewrite name_eqb_refl. rewrite flat_map_nil_all; [apply app_nil_r|].
    intros g' Hg'. destruct (name_eqb (fr_name g') (fr_name f)) eqn:E; [|reflexivity].
    apply name_eqb_eq in E. exfalso. apply Hg. rewrite <- E. apply in_map. exact Hg'.
  - destruct (name_eqb (fr_name g) (fr_name f)) eqn:E.
    + apply name_eqb_eq in E. exfalso. apply Hg. rewrite E. apply in_map. exact Hin.
    + cbn [app]. apply IH; assumption.
Qed.

Lemma al_set_as_set {V} k (v : V) m : al_set k v m = as_set name_eqb k v m.
Proof. induction m as [|[k' v'] r IH]; cbn [al_set as_set]; [reflexivity|]. rewrite IH. reflexivity. Qed.

Lemma al_get_al_set {V} k k' (v : V) m :
  al_get k (al_set k' v m) = if name_eqb k k' then Some v else al_get k m.
Proof. rewrite al_set_as_set. apply al_get_as_set. Qed.

Lemma filt_len_le {A} (p q : A -> bool) l :
  (forall x, In x l -> p x = true -> q x = true) -> List.length (filter p l) <= List.length (filter q l).
Proof.
  induction l as [|y r IH]; intro H; cbn [filter]; [apply le_n|].
  assert (IH' : List.length (filter p r) <= List.length (filter q r)).
  { apply IH. intros x Hx. apply H. right. exact Hx. }
  destruct (p y) eqn:Ep.
  - rewrite (H y (or_introl eq_refl) Ep). cbn [List.length]. lia.
  - destruct (q y); cbn [List.length]; lia.
Qed.

Lemma filt_len_lt {A} (p q : A -> bool) l x :
  (forall x, In x l -> p x = true -> q x = true) -> In x l -> p x = false -> q x = true ->
  List.length (filter p l) < List.length (filter q l).
Proof.
  induction l as [|y r IH]; intros H Hin Hp Hq; [destruct Hin|]. cbn [filter].
  assert (Hr : forall x, In x r -> p x = true -> q x = true) by (intros z Hz; apply H; right; exact Hz).
  destruct Hin as [Hin|Hin].
  - subst y. rewrite Hp, Hq. cbn [List.length]. pose proof (filt_len_le p q r Hr). lia.
  - specialize (IH Hr Hin Hp Hq). destruct (p y) eqn:Ep.
    + rewrite (H y (or_introl eq_refl) Ep). cbn [List.length]. lia.
    + destruct (q y); cbn [List.length]; lia.
Qed.

Lemma filter_length_bound {A} (p : A -> bool) l : List.length (filter p l) <= List.length l.
Proof. induction l as [|y r IH]; cbn [filter List.length]; [apply le_n|]. destruct (p y); cbn [List.length]; lia. Qed.

(* the loop over the spreads of one fragment, with the recursive call abstracted *)
Definition dc_loop
  (rec : fragment_def -> list (pos * name) -> list (name * nat) -> list name -> list verror
         -> option (list name * list verror))
  (d : document) (paths : list (pos * name)) (index1 : list (name * nat)) :=
  fix loop (l : list (pos * name)) (visited : list name) (errs : list verror)
    : option (list name * list verror) :=
    match l with
    | [] => Some (visited, errs)
    | sp :: r =>
        match al_get (snd sp) index1 with
        | None =>
            match known_fragment d (snd sp) with
            | Some def =>
                match rec def (paths ++ [sp]) index1 visited errs with
                | Some (v', e') => loop r v' e'
                | None => None
                end
            | None => loop r visited errs
            end
        | Some idx =>
            loop r visited (errs ++ [err R_NoFragmentsCycle (map fst (skipn idx (paths ++ [sp])))])
        end
    end.

Lemma detect_cycles_S fuel d frag paths index visited errs :
  detect_cycles (S fuel) d frag paths index visited errs =
  if mem_name (fr_name frag) visited then Some (visited, errs)
  else if is_nil (get_recursive_fragment_spreads (fr_sels frag)) then Some (visited ++ [fr_name frag], errs)
  else dc_loop (detect_cycles fuel d) d paths (al_set (fr_name frag) (List.length paths) index)
               (get_recursive_fragment_spreads (fr_sels frag)) (visited ++ [fr_name frag]) errs.
Proof. reflexivity. Qed.

Section Cycles.
  Variable d : document.
  Hypothesis Hnd : NoDup (frag_names d).

  Definition cyc (u : name) : Prop := exists w, edge d u w /\ reach d w u.

  Definition unvis (v : list name) : nat :=
    List.length (filter (fun n => negb (mem_name n v)) (frag_names d)).

  Lemma unvis_mono v v' : incl v v' -> unvis v' <= unvis v.
  Proof.
    intro H. apply filt_len_le. intros x _ Hx. apply negb_true_iff in Hx. apply negb_true_iff.
    apply mem_name_nIn. apply mem_name_nIn in Hx. intro Hin. apply Hx. apply H. exact Hin.
  Qed.

  Lemma unvis_dec v x : In x (frag_names d) -> ~ In x v -> unvis (v ++ [x]) < unvis v.
  Proof.
    intros Hx Hnv. apply (filt_len_lt _ _ _ x).
    - intros y _ Hy. apply negb_true_iff in Hy. apply negb_true_iff.
      rewrite mem_name_app in Hy. apply orb_false_iff in Hy. apply Hy.
    - exact Hx.
    - apply negb_false_iff. apply mem_name_In. apply in_or_app. right. left. reflexivity.
    - apply negb_true_iff. apply mem_name_nIn. exact Hnv.
  Qed.

  Lemma unvis_bound v : unvis v <= List.length (fragments_of d).
  Proof.
    unfold unvis. replace (List.length (fragments_of d)) with (List.length (frag_names d)) by apply map_length.
    apply filter_length_bound.
  Qed.

  (* finished vertices (visited, not on the current path) have finished defined successors
     and lie on no cycle *)
  Definition Inv (visited : list name) (index : list (name * nat)) : Prop :=
    forall u, In u visited -> al_get u index = None ->
      (forall w, edge d u w -> In w (frag_names d) -> In w visited /\ al_get w index = None) /\ ~ cyc u.

  Definition dc_post (frag : fragment_def) (index : list (name * nat)) (visited : list name) (errs : list verror)
             (res : option (list name * list verror)) : Prop :=
    exists v' extra,
      res = Some (v', errs ++ extra) /\ incl visited v' /\ In (fr_name frag) v' /\
      (extra <> [] -> exists u, cyc u) /\
      (extra = [] -> Inv visited index -> Inv v' index).

  Definition dc_ok (fuel : nat) : Prop :=
    forall frag paths index visited errs,
      unvis visited < fuel ->
      In frag (fragments_of d) ->
      (forall k, al_get k index <> None -> reach d k (fr_name frag)) ->
      dc_post frag index visited errs (detect_cycles fuel d frag paths index visited errs).

  Lemma loop_spec fuel (IHf : dc_ok fuel) (fname : name) paths index1 :
    (forall k, al_get k index1 <> None -> reach d k fname) ->
    forall l visited errs,
      unvis visited < fuel ->
      (forall sp, In sp l -> edge d fname (snd sp)) ->
      exists v' extra,
        dc_loop (detect_cycles fuel d) d paths index1 l visited errs = Some (v', errs ++ extra) /\
        incl visited v' /\
        (extra <> [] -> exists u, cyc u) /\
        (extra = [] -> Inv visited index1 ->
         Inv v' index1 /\
         forall sp, In sp l -> In (snd sp) (frag_names d) -> In (snd sp) v' /\ al_get (snd sp) index1 = None).
  Proof.
    intro Hpath. induction l as [|sp r IHl]; intros visited errs Hfuel Hedges; cbn [dc_loop].
    - exists visited, []. rewrite app_nil_r. split; [reflexivity|]. split; [apply incl_refl|].
      split; [intro H; exfalso; apply H; reflexivity|].
      intros _ HI. split; [exact HI|]. intros sp [].
    - assert (Hedges' : forall sp0, In sp0 r -> edge d fname (snd sp0)) by (intros sp0 H0; apply Hedges; right; exact H0).
      pose proof (Hedges sp (or_introl eq_refl)) as Hesp.
      destruct (al_get (snd sp) index1) as [idx|] eqn:Eidx.
      + (* the target is on the current path: an error, and a cycle *)
        destruct (IHl visited (errs ++ [err R_NoFragmentsCycle (map fst (skipn idx (paths ++ [sp])))]) Hfuel Hedges')
          as [v' [extra [Eq [Hincl _]]]].
        exists v', (err R_NoFragmentsCycle (map fst (skipn idx (paths ++ [sp]))) :: extra).
        split; [rewrite Eq, <- app_assoc; reflexivity|]. split; [exact Hincl|]. split.
        * intros _. exists fname, (snd sp). split; [exact Hesp|]. apply Hpath. rewrite Eidx. discriminate.
        * intro H. discriminate H.
      + destruct (known_fragment d (snd sp)) as [def|] eqn:Ek.
        * destruct (known_fragment_Some _ _ _ Ek) as [Hdef Hname].
          assert (Hpre : forall k, al_get k index1 <> None -> reach d k (fr_name def)).
          { intros k Hk. rewrite Hname. eapply reach_snoc; [apply Hpath; exact Hk|exact Hesp]. }
          destruct (IHf def (paths ++ [sp]) index1 visited errs Hfuel Hdef Hpre)
            as [v1 [extra1 [Eq1 [Hincl1 [Hin1 [Hsound1 Hinv1]]]]]].
          rewrite Eq1.
          assert (Hfuel1 : unvis v1 < fuel) by (pose proof (unvis_mono _ _ Hincl1); lia).
          destruct (IHl v1 (errs ++ extra1) Hfuel1 Hedges') as [v' [extra2 [Eq2 [Hincl2 [Hsound2 Hinv2]]]]].
          exists v', (extra1 ++ extra2). split; [rewrite Eq2, <- app_assoc; reflexivity|].
          split; [eapply incl_tran; eassumption|]. split.
          -- intro Hne. destruct extra1 as [|e1 x1].
             ++ apply Hsound2. exact Hne.
             ++ apply Hsound1. discriminate.
          -- intros Hnil HI. apply app_eq_nil in Hnil. destruct Hnil as [Hn1 Hn2].
             destruct (Hinv2 Hn2 (Hinv1 Hn1 HI)) as [HI' Htargets]. split; [exact HI'|].
             intros sp0 [Hsp0|Hsp0] Hd0.
             ++ subst sp0. split; [apply Hincl2; rewrite <- Hname; exact Hin1|exact Eidx].
             ++ apply Htargets; assumption.
        * destruct (IHl visited errs Hfuel Hedges') as [v' [extra [Eq [Hincl [Hsound Hinv]]]]].
          exists v', extra. split; [exact Eq|]. split; [exact Hincl|]. split; [exact Hsound|].
          intros Hnil HI. destruct (Hinv Hnil HI) as [HI' Htargets]. split; [exact HI'|].
          intros sp0 [Hsp0|Hsp0] Hd0.
          -- subst sp0. exfalso. exact (known_fragment_None _ _ Ek Hd0).
          -- apply Htargets; assumption.
  Qed.

  Lemma dc_spec : forall fuel, dc_ok fuel.
  Proof.
    induction fuel as [|fuel IHf]; intros frag paths index visited errs Hfuel Hfrag Hpath; [lia|].
    rewrite detect_cycles_S.
    pose proof (fragment_spreads_unique d frag Hnd Hfrag) as Hfs.
    rewrite <- recursive_spreads_spreads_in in Hfs.
    assert (Hdefd : In (fr_name frag) (frag_names d)) by (apply in_map; exact Hfrag).
    destruct (mem_name (fr_name frag) visited) eqn:Em.
    - exists visited, []. rewrite app_nil_r. split; [reflexivity|]. split; [apply incl_refl|].
      split; [apply mem_name_In; exact Em|]. split; [intro H; exfalso; apply H; reflexivity|]. intros _ HI. exact HI.
    - apply mem_name_nIn in Em.
      destruct (get_recursive_fragment_spreads (fr_sels frag)) as [|sp0 sps] eqn:Esp; cbn [is_nil].
      + (* no spreads: finished at once *)
        exists (visited ++ [fr_name frag]), []. rewrite app_nil_r. split; [reflexivity|].
        split; [apply incl_appl, incl_refl|]. split; [apply in_or_app; right; left; reflexivity|].
        split; [intro H; exfalso; apply H; reflexivity|]. intros _ HI u Hu Hidx.
        apply in_app_or in Hu. destruct Hu as [Hu|[Hu|[]]].
        * destruct (HI u Hu Hidx) as [Hs Hc]. split; [|exact Hc].
          intros w Hw Hdw. destruct (Hs w Hw Hdw) as [H1 H2]. split; [apply in_or_app; left; exact H1|exact H2].
        * subst u. split.
          -- intros w Hw. unfold edge in Hw. rewrite Hfs in Hw. destruct Hw.
          -- intros [w [Hw _]]. unfold edge in Hw. rewrite Hfs in Hw. destruct Hw.
      + rewrite <- Esp in *. clear Esp sp0 sps.
        set (index1 := al_set (fr_name frag) (List.length paths) index).
        assert (Hidx1 : forall k, al_get k index1 = if name_eqb k (fr_name frag) then Some (List.length paths) else al_get k index).
        { intro k. apply al_get_al_set. }
        assert (Hpath1 : forall k, al_get k index1 <> None -> reach d k (fr_name frag)).
        { intros k Hk. rewrite Hidx1 in Hk. destruct (name_eqb k (fr_name frag)) eqn:E.
          - apply name_eqb_eq in E. subst k. apply reach_refl.
          - apply Hpath. exact Hk. }
        assert (Hfuel1 : unvis (visited ++ [fr_name frag]) < fuel).
        { pose proof (unvis_dec visited (fr_name frag) Hdefd Em). lia. }
        assert (Hedges : forall sp, In sp (get_recursive_fragment_spreads (fr_sels frag)) -> edge d (fr_name frag) (snd sp)).
        { intros sp Hsp. unfold edge. rewrite Hfs. apply in_map. exact Hsp. }
        destruct (loop_spec fuel IHf (fr_name frag) paths index1 Hpath1 _ _ errs Hfuel1 Hedges)
          as [v' [extra [Eq [Hincl [Hsound Hinv]]]]].
        exists v', extra. split; [exact Eq|].
        split; [eapply incl_tran; [apply incl_appl, incl_refl|exact Hincl]|].
        split; [apply Hincl; apply in_or_app; right; left; reflexivity|]. split; [exact Hsound|].
        intros Hnil HI.
        assert (HI1 : Inv (visited ++ [fr_name frag]) index1).
        { intros u Hu Hui. rewrite Hidx1 in Hui. destruct (name_eqb u (fr_name frag)) eqn:E; [discriminate Hui|].
          apply name_eqb_neq in E. apply in_app_or in Hu. destruct Hu as [Hu|[Hu|[]]]; [|congruence].
          destruct (HI u Hu Hui) as [Hs Hc]. split; [|exact Hc].
          intros w Hw Hdw. destruct (Hs w Hw Hdw) as [H1 H2]. split; [apply in_or_app; left; exact H1|].
          rewrite Hidx1. destruct (name_eqb w (fr_name frag)) eqn:Ew; [|exact H2].
          apply name_eqb_eq in Ew. subst w. contradiction. }
        destruct (Hinv Hnil HI1) as [HI' Htargets].
        assert (Hsucc : forall w, edge d (fr_name frag) w -> In w (frag_names d) -> In w v' /\ al_get w index1 = None).
        { intros w Hw Hdw. unfold edge in Hw. rewrite Hfs in Hw. apply in_map_iff in Hw.
          destruct Hw as [sp [Esp Hsp]]. subst w. apply Htargets; assumption. }
        assert (Hdown : forall w, al_get w index1 = None -> al_get w index = None).
        { intros w Hw. rewrite Hidx1 in Hw. destruct (name_eqb w (fr_name frag)); [discriminate Hw|exact Hw]. }
        intros u Hu Hui. destruct (name_eqb u (fr_name frag)) eqn:E.
        * apply name_eqb_eq in E. subst u. split.
          -- intros w Hw Hdw. destruct (Hsucc w Hw Hdw) as [H1 H2]. split; [exact H1|apply Hdown; exact H2].
          -- intros [w [Hw Hr]].
             assert (HP : In (fr_name frag) (frag_names d) -> In (fr_name frag) v' /\ al_get (fr_name frag) index1 = None).
             { apply (reach_closed d (fun z => In z (frag_names d) -> In z v' /\ al_get z index1 = None) w _ Hr).
               - apply Hsucc. exact Hw.
               - intros a b Ha Hab Hb. destruct (Ha (edge_defined d a b Hab)) as [Ha1 Ha2].
                 destruct (HI' a Ha1 Ha2) as [Hs _]. apply Hs; assumption. }
             destruct (HP Hdefd) as [_ Hcontra]. rewrite Hidx1, name_eqb_refl in Hcontra. discriminate Hcontra.
        * assert (Hui1 : al_get u index1 = None) by (rewrite Hidx1, E; exact Hui).
          destruct (HI' u Hu Hui1) as [Hs Hc]. split; [|exact Hc].
          intros w Hw Hdw. destruct (Hs w Hw Hdw) as [H1 H2]. split; [exact H1|apply Hdown; exact H2].
  Qed.
End Cycles.

Definition nfc_ev (d : document) (st : nfc_state) (e : event) : nfc_state := nfc_step d st e ctx0.

Lemma nfc_inert d st e : inert e = true -> nfc_ev d st e = st.
Proof.
  unfold nfc_ev, nfc_step. destruct e as [n|n]; destruct n; cbn [inert]; intro H;
    try discriminate H; reflexivity.
Qed.

Lemma nfc_fold_spreads d ts st : fold_left (nfc_ev d) (map sp_event ts) st = st.
Proof. induction ts as [|t r IH]; cbn [map fold_left]; [reflexivity|]. exact IH. Qed.

Lemma nfc_fold_defs d l : forall st,
  fold_left (nfc_ev d) (flat_map def_skeleton l) st
  = fold_left (fun st f => nfc_ev d st (Enter (NFragmentDef f))) (fragments_of l) st.
Proof.
  unfold fragments_of. induction l as [|x r IH]; intro st; cbn [flat_map]; [reflexivity|].
  rewrite !fold_left_app, <- IH. f_equal.
  destruct x as [o|f]; unfold def_skeleton; cbn [fold_left]; rewrite fold_left_app, nfc_fold_spreads; reflexivity.
Qed.

Lemma cycles_spec d : v_no_fragment_cycles d = true <-> exists u, cyc d u.
Proof.
  unfold v_no_fragment_cycles. rewrite existsb_exists. split.
  - intros [n [_ Hm]]. apply mem_name_In in Hm. apply closure_reach in Hm.
    destruct Hm as [a [Ha Hr]]. apply (proj1 (dedup_In _ _)) in Ha. exists n, a. split; assumption.
  - intros [u [w [He Hr]]]. exists u. split; [eapply edge_defined; exact He|].
    apply mem_name_In. apply closure_reach. exists w. split; [apply dedup_In; exact He|exact Hr].
Qed.

Section CyclesTop.
  Variable d : document.
  Hypothesis Hnd : NoDup (frag_names d).

  Definition TInv (st : nfc_state) : Prop :=
    (r_errors (nfc_res st) <> [] -> exists u, cyc d u) /\
    (r_errors (nfc_res st) = [] -> Inv d (nfc_visited st) []).

  Lemma nfc_frag_step st f :
    In f (fragments_of d) -> TInv st ->
    TInv (nfc_ev d st (Enter (NFragmentDef f))) /\
    incl (nfc_visited st) (nfc_visited (nfc_ev d st (Enter (NFragmentDef f)))) /\
    In (fr_name f) (nfc_visited (nfc_ev d st (Enter (NFragmentDef f)))).
  Proof.
    intros Hf [Hs Hi]. unfold nfc_ev, nfc_step.
    destruct (dc_spec d Hnd (nfc_fuel d) f [] [] (nfc_visited st) (r_errors (nfc_res st)))
      as [v' [extra [Eq [Hincl [Hin [Hsound Hinv]]]]]].
    - unfold nfc_fuel. pose proof (unvis_bound d (nfc_visited st)). lia.
    - exact Hf.
    - intros k Hk. exfalso. apply Hk. reflexivity.
    - rewrite Eq. cbn [nfc_visited nfc_res r_errors]. split; [|split; assumption].
      split.
      + intro Hne. destruct extra as [|e x].
        * rewrite app_nil_r in Hne. apply Hs. exact Hne.
        * apply Hsound. discriminate.
      + intro Hnil. apply app_eq_nil in Hnil. destruct Hnil as [H1 H2]. apply Hinv; [exact H2|]. apply Hi. exact H1.
  Qed.

  Lemma nfc_frags_fold fs : forall st,
    incl fs (fragments_of d) -> TInv st ->
    let st' := fold_left (fun st f => nfc_ev d st (Enter (NFragmentDef f))) fs st in
    TInv st' /\ incl (nfc_visited st) (nfc_visited st') /\
    forall f, In f fs -> In (fr_name f) (nfc_visited st').
  Proof.
    induction fs as [|f r IH]; intros st Hincl HT; cbn [fold_left].
    - split; [exact HT|]. split; [apply incl_refl|]. intros f [].
    - destruct (nfc_frag_step st f (Hincl f (or_introl eq_refl)) HT) as [HT1 [Hi1 Hf1]].
      destruct (IH _ (fun g Hg => Hincl g (or_intror Hg)) HT1) as [HT2 [Hi2 Hf2]].
      split; [exact HT2|]. split; [eapply incl_tran; eassumption|].
      intros g [Hg|Hg]; [subst g; apply Hi2; exact Hf1|apply Hf2; exact Hg].
  Qed.
End CyclesTop.

Theorem no_fragment_cycles_iff : forall s d, distinct_fragments d = true ->
  (run_alone R_NoFragmentsCycle s d <> [] <-> violated R_NoFragmentsCycle s d = true).
Proof.
  intros s d Hd. unfold distinct_fragments, v_unique_fragment_names in Hd. rewrite negb_involutive in Hd.
  apply nodup_names_NoDup in Hd.
  unfold run_alone. cbn [run_rule violated].
  rewrite (visit_lin (nfc_step d) (nfc_ev d)) by reflexivity. cbn [snd].
  rewrite (fold_document _ (nfc_ev d) (nfc_inert d)).
  change (nfc_ev d (mkNfc [] (mkRes [] false)) (Enter (NDocument d))) with (mkNfc [] (mkRes [] false)).
  rewrite nfc_fold_defs.
  set (st0 := mkNfc [] (mkRes [] false)).
  assert (HT0 : TInv d st0).
  { split; [intro H; exfalso; apply H; reflexivity|]. intros _ u []. }
  destruct (nfc_frags_fold d Hd (fragments_of d) st0 (incl_refl _) HT0) as [[Hs Hi] [_ Hall]].
  set (st' := fold_left (fun st f => nfc_ev d st (Enter (NFragmentDef f))) (fragments_of d) st0) in *.
  change (nfc_res (nfc_ev d st' (Leave (NDocument d)))) with (nfc_res st').
  rewrite cycles_spec. split; [exact Hs|].
  intros [u Hc] Hnil. destruct (Hi Hnil u) as [_ Hnc].
  - destruct Hc as [w [He _]]. pose proof (edge_defined d u w He) as Hu.
    unfold frag_names in Hu. apply in_map_iff in Hu. destruct Hu as [f [Ef Hf]]. subst u. apply Hall. exact Hf.
  - reflexivity.
  - exact (Hnc Hc).
Qed.

(* RuleFacts.v — generic facts that reduce statements about rules (visitor handlers run by
   visit_document) to statements about the functional trace [ctr_document] / the annotation. *)
From GT Require Import Visitor Validate.
From GTS Require Import Annot WfSchema.
From GTP Require Import VisitorFacts TraceFacts.
Set Implicit Arguments.

(* running any handler = folding it over the trace, and the context comes back unchanged *)
Lemma visit_fold St (h : St -> event -> ctx -> St) s d c st :
  visit_document h s d c st = (c, fold_left (hh h) (ctr_document s d c) st).
Proof. exact (visit_document_fusion h s d c st). Qed.

(* handlers that only append errors computed from the current callback *)
Lemma fold_append_flat_map {A B} (f : B -> list A) (l : list B) (acc : list A) :
  fold_left (fun st x => st ++ f x) l acc = acc ++ flat_map f l.
Proof.
  revert acc. induction l as [|x r IH]; intro acc; cbn [fold_left flat_map].
  - rewrite app_nil_r. reflexivity.
  - rewrite IH, app_assoc. reflexivity.
Qed.

Definition stateless (h : list verror -> event -> ctx -> list verror) (f : event -> ctx -> list verror) : Prop :=
  forall st e c, h st e c = st ++ f e c.

Lemma stateless_run h f s d c :
  stateless h f ->
  visit_document h s d c [] = (c, flat_map (fun ec => f (fst ec) (snd ec)) (ctr_document s d c)).
Proof.
  intro H. rewrite visit_fold. f_equal.
  transitivity (fold_left (fun st (ec : event * ctx) => st ++ f (fst ec) (snd ec)) (ctr_document s d c) []).
  - apply fold_left_ext_fn. intros a [e c']. unfold hh. cbn. apply H.
  - rewrite fold_append_flat_map. reflexivity.
Qed.

Lemma flat_map_nonempty_existsb {A B} (f : A -> list B) (l : list A) :
  flat_map f l <> [] <-> existsb (fun x => negb (match f x with [] => true | _ => false end)) l = true.
Proof.
  induction l as [|x r IH]; cbn.
  - split; [congruence|discriminate].
  - destruct (f x) eqn:E; cbn.
    + exact IH.
    + split; [reflexivity|discriminate].
Qed.

(* from the trace to the annotation, when the per-callback check reads the context only through
   the six answers *)
Lemma existsb_ctr_annot s d (Hq : query_entry_ok s = true) (p : event -> answers -> bool) :
  existsb (fun ec : event * ctx => p (fst ec) (answers_of (snd ec))) (ctr_document s d ctx0)
  = existsb (fun ea : event * answers => p (fst ea) (snd ea)) (annot s d).
Proof.
  rewrite <- (ctr_document_answers s Hq d).
  induction (ctr_document s d ctx0) as [|ec r IH]; cbn; [reflexivity|].
  rewrite IH. reflexivity.
Qed.

(* ---- plans ---- *)
Lemma run_rule_ctx r s d c : fst (run_rule r s d c) = c.
Proof.
  destruct r; cbn [run_rule];
    repeat match goal with
           | |- context [visit_document ?h s d c ?st] => rewrite (visit_fold h s d c st)
           end; reflexivity.
Qed.

(* the errors of a rule do not depend on the context it starts from?  No: they do depend on the
   stacks in general; what validate needs is only that every rule starts from ctx0, which
   run_rule_ctx gives by induction over the plan. *)
Lemma validate_fold s d plan c acc :
  fold_left (fun (a : ctx * rule_result) (r : rule_id) =>
               let '(c', rr) := run_rule r s d (fst a) in
               (c', mkRes (r_errors (snd a) ++ r_errors rr) (r_oof (snd a) || r_oof rr)))
            plan (c, acc)
  = (c, mkRes (r_errors acc ++ flat_map (fun r => r_errors (snd (run_rule r s d c))) plan)
              (r_oof acc || existsb (fun r => r_oof (snd (run_rule r s d c))) plan)).
Proof.
  revert acc. induction plan as [|r plan IH]; intro acc; cbn [fold_left flat_map existsb].
  - rewrite app_nil_r, orb_false_r. destruct acc; reflexivity.
  - cbn [fst snd]. pose proof (run_rule_ctx r s d c) as Hc.
    destruct (run_rule r s d c) as [c' rr] eqn:E. cbn [fst snd] in *. subst c'.
    rewrite IH. cbn [r_errors r_oof]. rewrite <- app_assoc, orb_assoc. reflexivity.
Qed.

(* TraceFacts.v — the functional trace [ctr_document] projects to the structural linearisation
   (events) and to the environment-passing specification [annot] (context answers). *)
From GT Require Import Visitor SchemaVisitor.
From GTS Require Import SpecLin Annot.
From GTP Require Import VisitorFacts.

Lemma map_flat_map {A B C} (f : B -> C) (g : A -> list B) (l : list A) :
  map f (flat_map g l) = flat_map (fun x => map f (g x)) l.
Proof. induction l as [|x r IH]; cbn; [reflexivity|]. rewrite map_app, IH. reflexivity. Qed.

Lemma flat_map_Forall_ext {A B} (f g : A -> list B) (l : list A) :
  Forall (fun x => f x = g x) l -> flat_map f l = flat_map g l.
Proof. induction 1 as [|x r Hx Hr IH]; cbn; [reflexivity|]. rewrite Hx, IH. reflexivity. Qed.

Lemma flat_map_all_ext {A B} (f g : A -> list B) (l : list A) :
  (forall x, f x = g x) -> flat_map f l = flat_map g l.
Proof. intro H. apply flat_map_Forall_ext. apply Forall_forall. intros x _. apply H. Qed.

(* ------------------------------------------------------------------ events *)
Section Events.
  Variable s : sdocument.
  Notation evs := (map (@fst event ctx)).

  Ltac norm := repeat (progress (cbn [map app fst]; rewrite ?map_app, ?map_flat_map)).

  Lemma ctr_value_events v : forall c, evs (ctr_value s v c) = lin_value v.
  Proof.
    induction v as [n|z|b|str|b| |n|l IH|l IH] using value_ind'; intro c; try reflexivity.
    - cbn [ctr_value lin_value]. norm.
      match goal with |- context [flat_map ?f l] =>
        rewrite (flat_map_Forall_ext f lin_value l)
          by (eapply Forall_impl; [|exact IH]; intros x Hx; apply Hx) end.
      reflexivity.
    - cbn [ctr_value lin_value]. norm.
      match goal with |- context [flat_map ?f l] =>
        rewrite (flat_map_Forall_ext f
                   (fun kv : name * value => Enter (NObjectField kv) :: lin_value (snd kv) ++ [Leave (NObjectField kv)]) l)
          by (eapply Forall_impl; [|exact IH]; intros kv Hkv; cbv zeta; norm; rewrite Hkv; reflexivity) end.
      reflexivity.
  Qed.

  Lemma ctr_arguments_events defs args c : evs (ctr_arguments s defs args c) = flat_map lin_argument args.
  Proof.
    unfold ctr_arguments. rewrite map_flat_map. apply flat_map_all_ext. intro a.
    unfold ctr_argument, lin_argument. cbv zeta. norm. rewrite ctr_value_events. reflexivity.
  Qed.

  Lemma ctr_directives_events dirs c : evs (ctr_directives s dirs c) = flat_map lin_directive dirs.
  Proof.
    unfold ctr_directives. rewrite map_flat_map. apply flat_map_all_ext. intro d.
    unfold ctr_directive, lin_directive. norm. rewrite ctr_arguments_events. reflexivity.
  Qed.

  Lemma ctr_vardefs_events vars c : evs (ctr_vardefs s vars c) = flat_map lin_vardef vars.
  Proof.
    unfold ctr_vardefs. rewrite map_flat_map. apply flat_map_all_ext. intro v.
    unfold ctr_vardef, lin_vardef. cbv zeta. norm.
    destruct (v_default v); [rewrite ctr_value_events|]; reflexivity.
  Qed.

  Lemma ctr_selection_events x : forall c, evs (ctr_selection s x c) = lin_selection x.
  Proof.
    induction x as [p al n args dirs sp sels IH|p n dirs|p tc dirs sp sels IH] using selection_ind'; intro c.
    - cbn [ctr_selection lin_selection]. cbv zeta. norm.
      rewrite ctr_arguments_events, ctr_directives_events.
      match goal with |- context [flat_map ?f sels] =>
        rewrite (flat_map_Forall_ext f lin_selection sels)
          by (eapply Forall_impl; [|exact IH]; intros y Hy; apply Hy) end.
      reflexivity.
    - cbn [ctr_selection lin_selection]. norm. rewrite ctr_directives_events. reflexivity.
    - cbn [ctr_selection lin_selection]. cbv zeta. norm.
      rewrite ctr_directives_events.
      match goal with |- context [flat_map ?f sels] =>
        rewrite (flat_map_Forall_ext f lin_selection sels)
          by (eapply Forall_impl; [|exact IH]; intros y Hy; apply Hy) end.
      reflexivity.
  Qed.

  Lemma ctr_selection_set_events sp sels c : evs (ctr_selection_set s sp sels c) = lin_selection_set sp sels.
  Proof.
    unfold ctr_selection_set, lin_selection_set. cbv zeta. norm.
    match goal with |- context [flat_map ?f sels] =>
      rewrite (flat_map_all_ext f lin_selection sels) by (intro x; apply ctr_selection_events) end.
    reflexivity.
  Qed.

  Lemma ctr_definition_events x c : evs (ctr_definition s x c) = lin_definition x.
  Proof.
    destruct x as [o|f]; unfold ctr_definition, lin_definition; cbv zeta.
    - unfold ctr_operation. norm.
      rewrite ctr_directives_events, ctr_vardefs_events, ctr_selection_set_events. reflexivity.
    - unfold ctr_fragment. norm.
      rewrite ctr_directives_events, ctr_selection_set_events. reflexivity.
  Qed.

  Lemma ctr_document_events d c : evs (ctr_document s d c) = lin_document d.
  Proof.
    unfold ctr_document, lin_document. norm.
    match goal with |- context [flat_map ?f d] =>
      rewrite (flat_map_all_ext f lin_definition d) by (intro x; apply ctr_definition_events) end.
    reflexivity.
  Qed.
End Events.

(* ------------------------------------------------------------------ answers *)
Definition ev_answers (ec : event * ctx) : aev := (fst ec, answers_of (snd ec)).

Section Answers.
  Variable s : sdocument.
  Notation amap := (map ev_answers).

  Lemma answers_push_input_type t c :
    answers_of (push_input_type s t c) = expecting s (answers_of c) t.
  Proof. destruct c; reflexivity. Qed.
  Lemma answers_push_type t c :
    answers_of (push_type s t c) = at_type s (answers_of c) t.
  Proof. destruct c; reflexivity. Qed.
  Lemma answers_push_parent_type c :
    answers_of (push_parent_type c) = in_selection_set (answers_of c).
  Proof. destruct c; reflexivity. Qed.
  Lemma answers_push_field f c :
    answers_of (push_field f c) = in_field (answers_of c) f.
  Proof. destruct c; reflexivity. Qed.

  Lemma list_item_type_spec c : list_item_type c = item_type (a_input_lit (answers_of c)).
  Proof.
    unfold list_item_type, item_type, answers_of, a_input_lit.
    destruct (current_input_type_literal c) as [[n|t|[n|t|t]]|]; reflexivity.
  Qed.
  Lemma object_field_type_spec c k :
    object_field_type s c k = input_field_type s (a_input_lit (answers_of c)) k.
  Proof. reflexivity. Qed.

  Ltac norm := repeat (progress (cbn [map app]; unfold ev_answers; cbn [fst snd]; rewrite ?map_app, ?map_flat_map)).

  Lemma ctr_value_answers v : forall c, amap (ctr_value s v c) = annot_value s v (answers_of c).
  Proof.
    induction v as [n|z|b|str|b| |n|l IH|l IH] using value_ind'; intro c; try reflexivity.
    - cbn [ctr_value annot_value]. norm.
      match goal with |- context [flat_map ?f l] =>
        rewrite (flat_map_Forall_ext f
                   (fun x => annot_value s x (expecting s (answers_of c) (item_type (a_input_lit (answers_of c))))) l)
          by (eapply Forall_impl; [|exact IH]; intros x Hx;
              rewrite Hx, answers_push_input_type, list_item_type_spec; reflexivity) end.
      reflexivity.
    - cbn [ctr_value annot_value]. norm.
      match goal with |- context [flat_map ?f l] =>
        rewrite (flat_map_Forall_ext f
                   (fun kv : name * value =>
                      let e' := expecting s (answers_of c) (input_field_type s (a_input_lit (answers_of c)) (fst kv)) in
                      (Enter (NObjectField kv), e') :: annot_value s (snd kv) e' ++ [(Leave (NObjectField kv), e')]) l)
          by (eapply Forall_impl; [|exact IH]; intros kv Hkv; cbv zeta; norm;
              rewrite Hkv, answers_push_input_type, object_field_type_spec; reflexivity) end.
      reflexivity.
  Qed.

  Lemma ctr_arguments_answers defs args c :
    amap (ctr_arguments s defs args c) = annot_arguments s defs args (answers_of c).
  Proof.
    unfold ctr_arguments, annot_arguments. rewrite map_flat_map. apply flat_map_all_ext. intro a.
    unfold ctr_argument. cbv zeta. norm. rewrite ctr_value_answers, answers_push_input_type. reflexivity.
  Qed.

  Lemma ctr_directives_answers dirs c :
    amap (ctr_directives s dirs c) = annot_directives s dirs (answers_of c).
  Proof.
    unfold ctr_directives, annot_directives. rewrite map_flat_map. apply flat_map_all_ext. intro d.
    unfold ctr_directive. norm. rewrite ctr_arguments_answers. reflexivity.
  Qed.

  Lemma ctr_vardefs_answers vars c :
    amap (ctr_vardefs s vars c) = annot_vardefs s vars (answers_of c).
  Proof.
    unfold ctr_vardefs, annot_vardefs. rewrite map_flat_map. apply flat_map_all_ext. intro v.
    unfold ctr_vardef. cbv zeta. norm. rewrite answers_push_input_type.
    destruct (v_default v); [rewrite ctr_value_answers, answers_push_input_type|]; reflexivity.
  Qed.

  Lemma ctr_selection_answers x : forall c, amap (ctr_selection s x c) = annot_selection s x (answers_of c).
  Proof.
    induction x as [p al n args dirs sp sels IH|p n dirs|p tc dirs sp sels IH] using selection_ind'; intro c.
    - cbn [ctr_selection annot_selection]. cbv zeta. norm.
      rewrite ctr_arguments_answers, ctr_directives_answers.
      rewrite !answers_push_parent_type, !answers_push_field, !answers_push_type.
      change (current_parent_type (push_type s (opt_map fd_type (opt_bind (current_parent_type c) (fun t => field_by_name t n))) c))
        with (current_parent_type c).
      change (current_parent_type c) with (a_parent (answers_of c)).
      match goal with |- context [flat_map ?f sels] =>
        erewrite (flat_map_Forall_ext f _ sels)
          by (eapply Forall_impl; [|exact IH]; intros y Hy;
              rewrite Hy, !answers_push_parent_type, !answers_push_field, !answers_push_type; reflexivity) end.
      reflexivity.
    - cbn [ctr_selection annot_selection]. norm. rewrite ctr_directives_answers. reflexivity.
    - cbn [ctr_selection annot_selection]. cbv zeta. norm.
      rewrite ctr_directives_answers.
      assert (E : answers_of (match tc with Some cond => push_type s (Some (TNamed cond)) c | None => c end)
                  = match tc with Some cond => at_type s (answers_of c) (Some (TNamed cond)) | None => answers_of c end).
      { destruct tc; [apply answers_push_type|reflexivity]. }
      rewrite !answers_push_parent_type, !E.
      match goal with |- context [flat_map ?f sels] =>
        erewrite (flat_map_Forall_ext f _ sels)
          by (eapply Forall_impl; [|exact IH]; intros y Hy;
              rewrite Hy, answers_push_parent_type, E; reflexivity) end.
      reflexivity.
  Qed.

  Lemma ctr_selection_set_answers sp sels c :
    amap (ctr_selection_set s sp sels c) = annot_selection_set s sp sels (answers_of c).
  Proof.
    unfold ctr_selection_set, annot_selection_set. cbv zeta. norm.
    rewrite !answers_push_parent_type.
    match goal with |- context [flat_map ?f sels] =>
      erewrite (flat_map_all_ext f _ sels)
        by (intro x; rewrite ctr_selection_answers, answers_push_parent_type; reflexivity) end.
    reflexivity.
  Qed.
End Answers.

(* ------------------------------------------------------------------ documents *)
From GTS Require Import WfSchema.

Lemma fold_left_cons_rev {A} (l : list A) (acc : list A) :
  fold_left (fun a x => x :: a) l acc = rev l ++ acc.
Proof.
  revert acc. induction l as [|x r IH]; intro acc; cbn; [reflexivity|].
  rewrite IH, <- app_assoc. reflexivity.
Qed.

Lemma fold_left_ext_fn {A B} (f g : A -> B -> A) (l : list B) (a : A) :
  (forall a b, f a b = g a b) -> fold_left f l a = fold_left g l a.
Proof. intro H. revert a. induction l as [|x r IH]; intro a; cbn; [reflexivity|]. rewrite H. apply IH. Qed.

Lemma tr_document_eq s d c : tr_document s d c = (c, ctr_document s d c).
Proof.
  unfold tr_document. rewrite (visit_document_fusion trace_step s d c []).
  replace (fold_left (hh trace_step) (ctr_document s d c) [])
    with (rev (ctr_document s d c) ++ []).
  - rewrite app_nil_r, rev_involutive. reflexivity.
  - symmetry. transitivity (fold_left (fun a x => x :: a) (ctr_document s d c) []).
    + apply fold_left_ext_fn. intros a [e c']. reflexivity.
    + apply fold_left_cons_rev.
Qed.

Lemma trace_eq s d : trace s d = ctr_document s d ctx0.
Proof. unfold trace. rewrite tr_document_eq. reflexivity. Qed.

(* the model's root type look-up agrees with the specification's §3.3 reading as soon as an
   explicit schema definition names its query root *)
Lemma root_type_name_spec s o :
  query_entry_ok s = true ->
  def_type s (DOp o) = opt_map (fun t => TNamed (td_name t)) (root s (o_kind o)).
Proof.
  intro Hq. unfold def_type, root_type_name, root, root_name, query_type, mutation_type,
              subscription_type, schema_definition, query_entry_ok in *.
  destruct (find_schema_def s) as [sd|]; destruct (o_kind o); cbn in *;
    repeat match goal with
           | |- context [sd_query ?x] => destruct (sd_query x); cbn in *; try discriminate
           | |- context [sd_mutation ?x] => destruct (sd_mutation x); cbn in *
           | |- context [sd_subscription ?x] => destruct (sd_subscription x); cbn in *
           | |- context [object_type_by_name ?a ?b] => destruct (object_type_by_name a b); cbn in *
           end; reflexivity.
Qed.

Section AnswersDoc.
  Variable s : sdocument.
  Hypothesis Hq : query_entry_ok s = true.
  Notation amap := (map ev_answers).
  Ltac norm := repeat (progress (cbn [map app]; unfold ev_answers; cbn [fst snd]; rewrite ?map_app, ?map_flat_map)).

  Lemma ctr_definition_answers x c :
    amap (ctr_definition s x c) = annot_definition s x (answers_of c).
  Proof.
    unfold ctr_definition. cbv zeta. destruct x as [o|f].
    - rewrite (root_type_name_spec s o Hq). unfold ctr_operation, annot_definition. cbv zeta. norm.
      rewrite ctr_directives_answers, ctr_vardefs_answers, ctr_selection_set_answers, !answers_push_type.
      reflexivity.
    - unfold ctr_fragment, annot_definition, def_type. cbv zeta. norm.
      rewrite ctr_directives_answers, ctr_selection_set_answers, !answers_push_type. reflexivity.
  Qed.

  Lemma ctr_document_answers d :
    amap (ctr_document s d ctx0) = annot s d.
  Proof.
    unfold ctr_document, annot. norm.
    match goal with |- context [flat_map ?f d] =>
      erewrite (flat_map_all_ext f _ d) by (intro x; apply ctr_definition_answers) end.
    reflexivity.
  Qed.
End AnswersDoc.

(* ------------------------------------------------------------------ nesting *)
Lemma Nested_app a b : Nested a -> Nested b -> Nested (a ++ b).
Proof.
  induction 1 as [|n inner rest Hi IHi Hr IHr]; intro Hb; [exact Hb|].
  cbn. rewrite <- app_assoc. cbn. constructor; [exact Hi|apply IHr, Hb].
Qed.
Lemma Nested_wrap n (inner : list event) : Nested inner -> Nested (Enter n :: inner ++ [Leave n]).
Proof. intro H. constructor; [exact H|constructor]. Qed.
Lemma Nested_flat_map {A} (f : A -> list event) l : Forall (fun x => Nested (f x)) l -> Nested (flat_map f l).
Proof. induction 1; cbn; [constructor|apply Nested_app; assumption]. Qed.
Lemma Nested_flat_map_all {A} (f : A -> list event) l : (forall x, Nested (f x)) -> Nested (flat_map f l).
Proof. intro H. apply Nested_flat_map, Forall_forall. intros x _. apply H. Qed.

Lemma Nested_value v : Nested (lin_value v).
Proof.
  induction v as [n|z|b|str|b| |n|l IH|l IH] using value_ind'; cbn [lin_value];
    try (apply (Nested_wrap _ (@nil event)); constructor).
  - apply Nested_wrap, Nested_flat_map, IH.
  - apply Nested_wrap, Nested_flat_map. eapply Forall_impl; [|exact IH].
    intros kv H. apply Nested_wrap, H.
Qed.
Lemma Nested_argument a : Nested (lin_argument a).
Proof. apply Nested_wrap, Nested_value. Qed.
Lemma Nested_directive d : Nested (lin_directive d).
Proof. apply Nested_wrap, Nested_flat_map_all, Nested_argument. Qed.
Lemma Nested_vardef v : Nested (lin_vardef v).
Proof. apply Nested_wrap. destruct (v_default v); [apply Nested_value|constructor]. Qed.
Lemma Nested_selection x : Nested (lin_selection x).
Proof.
  induction x as [p al n args dirs sp sels IH|p n dirs|p tc dirs sp sels IH] using selection_ind';
    cbn [lin_selection].
  - change (Nested (Enter (NField (SField p al n args dirs sp sels)) ::
              (flat_map lin_argument args ++ flat_map lin_directive dirs ++
               Enter (NSelectionSet sp sels) :: flat_map lin_selection sels ++ [Leave (NSelectionSet sp sels)])
              ++ [Leave (NField (SField p al n args dirs sp sels))])) || idtac.
    replace (flat_map lin_argument args ++ flat_map lin_directive dirs ++
             Enter (NSelectionSet sp sels) :: flat_map lin_selection sels ++
             [Leave (NSelectionSet sp sels); Leave (NField (SField p al n args dirs sp sels))])
      with ((flat_map lin_argument args ++ flat_map lin_directive dirs ++
             Enter (NSelectionSet sp sels) :: flat_map lin_selection sels ++ [Leave (NSelectionSet sp sels)])
            ++ [Leave (NField (SField p al n args dirs sp sels))])
      by (repeat (rewrite <- app_assoc; cbn [app]); reflexivity).
    apply Nested_wrap. apply Nested_app; [apply Nested_flat_map_all, Nested_argument|].
    apply Nested_app; [apply Nested_flat_map_all, Nested_directive|].
    apply Nested_wrap, Nested_flat_map, IH.
  - apply Nested_wrap, Nested_flat_map_all, Nested_directive.
  - replace (flat_map lin_directive dirs ++
             Enter (NSelectionSet sp sels) :: flat_map lin_selection sels ++
             [Leave (NSelectionSet sp sels); Leave (NInline (SInline p tc dirs sp sels))])
      with ((flat_map lin_directive dirs ++
             Enter (NSelectionSet sp sels) :: flat_map lin_selection sels ++ [Leave (NSelectionSet sp sels)])
            ++ [Leave (NInline (SInline p tc dirs sp sels))])
      by (repeat (rewrite <- app_assoc; cbn [app]); reflexivity).
    apply Nested_wrap. apply Nested_app; [apply Nested_flat_map_all, Nested_directive|].
    apply Nested_wrap, Nested_flat_map, IH.
Qed.
Lemma Nested_selection_set sp sels : Nested (lin_selection_set sp sels).
Proof. apply Nested_wrap, Nested_flat_map_all, Nested_selection. Qed.
Lemma Nested_definition x : Nested (lin_definition x).
Proof.
  destruct x as [o|f]; cbn [lin_definition].
  - replace (flat_map lin_directive (op_directives o) ++ flat_map lin_vardef (op_variable_definitions o) ++
             lin_selection_set (o_span o) (o_sels o) ++ [Leave (NOperation o)])
      with ((flat_map lin_directive (op_directives o) ++ flat_map lin_vardef (op_variable_definitions o) ++
             lin_selection_set (o_span o) (o_sels o)) ++ [Leave (NOperation o)])
      by (repeat rewrite <- app_assoc; reflexivity).
    apply Nested_wrap. apply Nested_app; [apply Nested_flat_map_all, Nested_directive|].
    apply Nested_app; [apply Nested_flat_map_all, Nested_vardef|apply Nested_selection_set].
  - replace (flat_map lin_directive (fr_dirs f) ++ lin_selection_set (fr_span f) (fr_sels f) ++ [Leave (NFragmentDef f)])
      with ((flat_map lin_directive (fr_dirs f) ++ lin_selection_set (fr_span f) (fr_sels f)) ++ [Leave (NFragmentDef f)])
      by (repeat rewrite <- app_assoc; reflexivity).
    apply Nested_wrap. apply Nested_app; [apply Nested_flat_map_all, Nested_directive|apply Nested_selection_set].
Qed.
Lemma Nested_document d : Nested (lin_document d).
Proof. apply Nested_wrap, Nested_flat_map_all, Nested_definition. Qed.

(* ------------------------------------------------------------------ schema visitor *)
Lemma svisit_type_lin t : svisit_type t = lin_type t.
Proof. destruct t; unfold svisit_type, lin_type; cbn; repeat rewrite <- app_assoc; reflexivity. Qed.

Lemma svisit_definitions_lin sd :
  no_extensions sd = true -> svisit_definitions sd = Some (flat_map lin_sdefinition sd).
Proof.
  induction sd as [|x r IH]; cbn [svisit_definitions no_extensions forallb flat_map]; intro H; [reflexivity|].
  apply andb_prop in H. destruct H as [Hx Hr]. rewrite (IH Hr).
  destruct x as [d|t|dd|n]; cbn [svisit_definition lin_sdefinition]; try discriminate;
    rewrite ?svisit_type_lin; reflexivity.
Qed.

Lemma visit_schema_document_lin sd :
  no_extensions sd = true -> visit_schema_document sd = Some (lin_schema sd).
Proof.
  intro H. unfold visit_schema_document, lin_schema. rewrite (svisit_definitions_lin sd H). reflexivity.
Qed.

Lemma visit_schema_document_panics sd :
  no_extensions sd = false -> visit_schema_document sd = None.
Proof.
  intro H. unfold visit_schema_document.
  assert (E : svisit_definitions sd = None).
  { induction sd as [|x r IH]; cbn in *; [discriminate|].
    destruct x as [d|t|dd|n]; cbn in *; try reflexivity; rewrite (IH H); reflexivity. }
  rewrite E. reflexivity.
Qed.

(* C05_frag_annot.v — the selection sets of a document with the parent types the schema gives
   them, as a structural function (instead of a filter over the annotation), and the collected
   fields of the document with their parent types.  Used to show that, when every inline type
   condition names a known type, the rule's field collection and the visitor's context agree on
   the parent type of every field. *)
From Coq Require Import Permutation.
From GT Require Import Visitor Validate Merge.
From GTS Require Import SpecLin Annot WfSchema SpecCollect SpecRules SpecMerge SpecValid.
From GTP Require Import VisitorFacts TraceFacts RuleFacts EventFacts C06_graph_proofs C06_proofs C05_proofs
     C05_frag_graph C05_frag_spec.

Definition pickSS (ea : aev) : list (option type_def * list selection) :=
  match fst ea with
  | Enter (NSelectionSet _ sels) => [(a_parent (snd ea), sels)]
  | _ => []
  end.

Definition noss (l : list aev) : Prop :=
  Forall (fun ea : aev => match fst ea with Enter (NSelectionSet _ _) => False | _ => True end) l.

Lemma noss_pick l : noss l -> flat_map pickSS l = [].
Proof.
  induction 1 as [|[e a] r He Hr IH]; [reflexivity|]. cbn [flat_map]. rewrite IH, app_nil_r.
  unfold pickSS. cbn [fst] in *. destruct e as [n|n]; [destruct n|]; try reflexivity. destruct He.
Qed.

Lemma noss_app a b : noss a -> noss b -> noss (a ++ b).
Proof. intros H1 H2. apply Forall_app. split; assumption. Qed.

Lemma noss_flat_map {A} (f : A -> list aev) l : (forall x, In x l -> noss (f x)) -> noss (flat_map f l).
Proof. intro H. apply Forall_flat_map. apply Forall_forall. intros x Hx. apply H, Hx. Qed.

Section Structure.
  Variable s : sdocument.

  Lemma noss_value v : forall e, noss (annot_value s v e).
  Proof.
    induction v as [n|z|b|str|b| |n|l IH|l IH] using value_ind'; intro e; cbn [annot_value];
      try (repeat constructor).
    - apply noss_app; [|repeat constructor]. apply noss_flat_map. intros x Hx. rewrite Forall_forall in IH. apply IH, Hx.
    - apply noss_app; [|repeat constructor]. apply noss_flat_map. intros kv Hkv. cbv zeta.
      constructor; [exact I|]. apply noss_app; [|repeat constructor]. rewrite Forall_forall in IH. apply IH, Hkv.
  Qed.

  Lemma noss_arguments decls args e : noss (annot_arguments s decls args e).
  Proof.
    unfold annot_arguments. apply noss_flat_map. intros a _. cbv zeta. constructor; [exact I|].
    apply noss_app; [apply noss_value|repeat constructor].
  Qed.

  Lemma noss_directives dirs e : noss (annot_directives s dirs e).
  Proof.
    unfold annot_directives. apply noss_flat_map. intros x _. constructor; [exact I|].
    apply noss_app; [apply noss_arguments|repeat constructor].
  Qed.

  Lemma noss_vardefs vars e : noss (annot_vardefs s vars e).
  Proof.
    unfold annot_vardefs. apply noss_flat_map. intros v _. cbv zeta. constructor; [exact I|].
    apply noss_app; [|repeat constructor]. destruct (v_default v); [apply noss_value|constructor].
  Qed.

  (* the parent type inside an inline fragment, as the visitor computes it *)
  Definition aip (tc : option name) (P : option type_def) : option type_def :=
    match tc with Some c => type_by_name s c | None => P end.
  Definition field_sub_parent (P : option type_def) (n : name) : option type_def :=
    lookup_named s (opt_map fd_type (opt_bind P (fun t => field_by_name t n))).

  Fixpoint ss_sel (P : option type_def) (x : selection) : list (option type_def * list selection) :=
    match x with
    | SField _ _ n _ _ _ sub => (field_sub_parent P n, sub) :: flat_map (ss_sel (field_sub_parent P n)) sub
    | SSpread _ _ _ => []
    | SInline _ tc _ _ sub => (aip tc P, sub) :: flat_map (ss_sel (aip tc P)) sub
    end.

  (* every field below, with its parent type *)
  Fixpoint fe_sel (P : option type_def) (x : selection) : list cfield :=
    match x with
    | SField _ _ n _ _ _ sub => mkCF P x :: flat_map (fe_sel (field_sub_parent P n)) sub
    | SSpread _ _ _ => []
    | SInline _ tc _ _ sub => flat_map (fe_sel (aip tc P)) sub
    end.

  Lemma pick_cons ea l : flat_map pickSS (ea :: l) = pickSS ea ++ flat_map pickSS l.
  Proof. reflexivity. Qed.

  Lemma ss_annot_selection x : forall e, a_type e = a_parent e ->
    flat_map pickSS (annot_selection s x e) = ss_sel (a_parent e) x.
  Proof.
    induction x as [p al n args dirs sp sels IH|p n dirs|p tc dirs sp sels IH] using selection_ind'; intros e He.
    - cbn [annot_selection ss_sel]. cbv zeta.
      set (fdef := opt_bind (a_parent e) (fun t => field_by_name t n)).
      set (e3 := in_selection_set (in_field (at_type s e (opt_map fd_type fdef)) fdef)).
      rewrite pick_cons, !flat_map_app, pick_cons, flat_map_app.
      rewrite (noss_pick _ (noss_arguments _ _ _)), (noss_pick _ (noss_directives _ _)).
      cbn [pickSS fst snd app flat_map]. f_equal. rewrite app_nil_r. rewrite flat_map_flat_map'.
      apply flat_map_Forall_ext. eapply Forall_impl; [|exact IH]. intros y Hy. apply (Hy e3). reflexivity.
    - cbn [annot_selection ss_sel]. rewrite pick_cons, flat_map_app, (noss_pick _ (noss_directives _ _)). reflexivity.
    - cbn [annot_selection ss_sel]. cbv zeta.
      set (e1 := match tc with Some cond => at_type s e (Some (TNamed cond)) | None => e end).
      assert (Ht : a_type e1 = aip tc (a_parent e)).
      { unfold e1, aip. destruct tc as [c|]; [reflexivity|exact He]. }
      rewrite pick_cons, flat_map_app, pick_cons, flat_map_app, (noss_pick _ (noss_directives _ _)).
      cbn [pickSS fst snd app flat_map in_selection_set a_parent]. rewrite Ht. f_equal. rewrite app_nil_r.
      rewrite flat_map_flat_map'. apply flat_map_Forall_ext. eapply Forall_impl; [|exact IH]. intros y Hy.
      rewrite (Hy (in_selection_set e1)) by reflexivity. cbn [in_selection_set a_parent]. rewrite Ht. reflexivity.
  Qed.

  Definition def_parent (x : definition) : option type_def :=
    match x with
    | DOp o => lookup_named s (opt_map (fun t => TNamed (td_name t)) (root s (o_kind o)))
    | DFrag f => type_by_name s (fr_tc f)
    end.
  Definition ss_def (x : definition) : list (option type_def * list selection) :=
    (def_parent x, def_sels x) :: flat_map (ss_sel (def_parent x)) (def_sels x).
  Definition fe_def (x : definition) : list cfield := flat_map (fe_sel (def_parent x)) (def_sels x).

  Lemma ss_annot_selection_set sp sels e :
    flat_map pickSS (annot_selection_set s sp sels e) = (a_type e, sels) :: flat_map (ss_sel (a_type e)) sels.
  Proof.
    unfold annot_selection_set. cbv zeta. rewrite pick_cons, flat_map_app.
    cbn [pickSS fst snd app flat_map in_selection_set a_parent]. f_equal. rewrite app_nil_r, flat_map_flat_map'.
    apply flat_map_all_ext. intro y. rewrite ss_annot_selection by reflexivity. reflexivity.
  Qed.

  Lemma ss_annot_definition x e : flat_map pickSS (annot_definition s x e) = ss_def x.
  Proof.
    destruct x as [o|f]; unfold annot_definition, ss_def; cbv zeta.
    - rewrite pick_cons, !flat_map_app, (noss_pick _ (noss_directives _ _)), (noss_pick _ (noss_vardefs _ _)).
      rewrite ss_annot_selection_set. cbn [pickSS fst snd app flat_map at_type a_type def_parent def_sels].
      rewrite app_nil_r. reflexivity.
    - rewrite pick_cons, !flat_map_app, (noss_pick _ (noss_directives _ _)).
      rewrite ss_annot_selection_set. cbn [pickSS fst snd app flat_map at_type a_type def_parent def_sels].
      rewrite app_nil_r. reflexivity.
  Qed.

  Definition EE (d : document) : list (option type_def * list selection) := flat_map ss_def d.
  Definition FE (d : document) : list cfield := flat_map fe_def d.

  Lemma selection_sets_struct d : selection_sets s d = EE d.
  Proof.
    unfold selection_sets, annot. change (fun ea : aev => match fst ea with
                                          | Enter (NSelectionSet _ sels) => [(a_parent (snd ea), sels)]
                                          | _ => [] end) with pickSS.
    rewrite pick_cons, flat_map_app. cbn [pickSS fst app flat_map]. rewrite app_nil_r, flat_map_flat_map'.
    apply flat_map_all_ext. intro x. apply ss_annot_definition.
  Qed.

  (* ---------------------------------------------------------------- closure of the blocks *)
  Lemma ss_sel_closed x : forall Q P sels, In (P, sels) (ss_sel Q x) ->
    forall y, In y sels -> incl (ss_sel P y) (ss_sel Q x) /\ incl (fe_sel P y) (fe_sel Q x).
  Proof.
    induction x as [p al n args dirs sp sub IH|p n dirs|p tc dirs sp sub IH] using selection_ind';
      intros Q P sels Hin y Hy; cbn [ss_sel fe_sel] in *.
    - destruct Hin as [E|Hin].
      + inversion E; subst. split; intros z Hz; right; apply in_flat_map; exists y; split; assumption.
      + apply in_flat_map in Hin. destruct Hin as [w [Hw Hin]]. rewrite Forall_forall in IH.
        destruct (IH w Hw _ _ _ Hin y Hy) as [H1 H2].
        split; intros z Hz; right; apply in_flat_map; exists w; split; [exact Hw|apply H1, Hz|exact Hw|apply H2, Hz].
    - destruct Hin.
    - destruct Hin as [E|Hin].
      + inversion E; subst. split; intros z Hz; [right|]; apply in_flat_map; exists y; split; assumption.
      + apply in_flat_map in Hin. destruct Hin as [w [Hw Hin]]. rewrite Forall_forall in IH.
        destruct (IH w Hw _ _ _ Hin y Hy) as [H1 H2].
        split; intros z Hz; [right|]; apply in_flat_map; exists w; split; [exact Hw|apply H1, Hz|exact Hw|apply H2, Hz].
  Qed.

  Lemma EE_closed d P sels : In (P, sels) (EE d) ->
    forall y, In y sels -> incl (ss_sel P y) (EE d) /\ incl (fe_sel P y) (FE d).
  Proof.
    intros Hin y Hy. unfold EE in Hin. apply in_flat_map in Hin. destruct Hin as [D [HD Hin]].
    unfold ss_def in Hin. destruct Hin as [E|Hin].
    - inversion E; subst. split; intros z Hz.
      + apply in_flat_map. exists D. split; [exact HD|]. right. apply in_flat_map. exists y. split; assumption.
      + apply in_flat_map. exists D. split; [exact HD|]. apply in_flat_map. exists y. split; assumption.
    - apply in_flat_map in Hin. destruct Hin as [w [Hw Hin]].
      destruct (ss_sel_closed w _ _ _ Hin y Hy) as [H1 H2]. split; intros z Hz.
      + apply in_flat_map. exists D. split; [exact HD|]. right. apply in_flat_map. exists w. split; [exact Hw|apply H1, Hz].
      + apply in_flat_map. exists D. split; [exact HD|]. apply in_flat_map. exists w. split; [exact Hw|apply H2, Hz].
  Qed.

  Lemma ss_sel_below x : forall Q P sels, In (P, sels) (ss_sel Q x) -> incl (sels_all sels) (sel_all x).
  Proof.
    induction x as [p al n args dirs sp sub IH|p n dirs|p tc dirs sp sub IH] using selection_ind';
      intros Q P sels Hin; cbn [ss_sel sel_all] in *.
    - destruct Hin as [E|Hin].
      + inversion E; subst. intros z Hz. right. exact Hz.
      + apply in_flat_map in Hin. destruct Hin as [w [Hw Hin]]. rewrite Forall_forall in IH.
        intros z Hz. right. apply in_flat_map. exists w. split; [exact Hw|apply (IH w Hw _ _ _ Hin), Hz].
    - destruct Hin.
    - destruct Hin as [E|Hin].
      + inversion E; subst. intros z Hz. right. exact Hz.
      + apply in_flat_map in Hin. destruct Hin as [w [Hw Hin]]. rewrite Forall_forall in IH.
        intros z Hz. right. apply in_flat_map. exists w. split; [exact Hw|apply (IH w Hw _ _ _ Hin), Hz].
  Qed.

  Lemma EE_indoc d P sels : In (P, sels) (EE d) -> incl (sels_all sels) (doc_selections d).
  Proof.
    intro Hin. unfold EE in Hin. apply in_flat_map in Hin. destruct Hin as [D [HD Hin]].
    intros z Hz. apply in_flat_map. exists D. split; [exact HD|]. destruct Hin as [E|Hin].
    - inversion E; subst. exact Hz.
    - apply in_flat_map in Hin. destruct Hin as [w [Hw Hin]]. apply in_flat_map. exists w.
      split; [exact Hw|apply (ss_sel_below w _ _ _ Hin), Hz].
  Qed.

  Lemma EE_fragment d fr : In fr (fragments_of d) -> In (type_by_name s (fr_tc fr), fr_sels fr) (EE d).
  Proof.
    intro Hf. assert (Hd : In (DFrag fr) d).
    { unfold fragments_of in Hf. apply in_flat_map in Hf. destruct Hf as [x [Hx Hf]].
      destruct x as [o|g]; [destruct Hf|]. destruct Hf as [<-|[]]. exact Hx. }
    apply in_flat_map. exists (DFrag fr). split; [exact Hd|]. left. reflexivity.
  Qed.

  (* ---------------------------------------------------------------- the sub-selection of a collected field *)
  Definition sub_parent (c : cfield) : option type_def :=
    opt_bind (opt_map fd_type (cf_def c)) (fun t => type_by_name s (inner_type t)).

  Lemma fe_sel_sub x : forall Q c, In c (fe_sel Q x) -> In (sub_parent c, sel_sels (cf_field c)) (ss_sel Q x).
  Proof.
    induction x as [p al n args dirs sp sub IH|p n dirs|p tc dirs sp sub IH] using selection_ind';
      intros Q c Hin; cbn [ss_sel fe_sel] in *.
    - destruct Hin as [<-|Hin]; [left; reflexivity|].
      apply in_flat_map in Hin. destruct Hin as [w [Hw Hin]]. rewrite Forall_forall in IH.
      right. apply in_flat_map. exists w. split; [exact Hw|apply (IH w Hw), Hin].
    - destruct Hin.
    - apply in_flat_map in Hin. destruct Hin as [w [Hw Hin]]. rewrite Forall_forall in IH.
      right. apply in_flat_map. exists w. split; [exact Hw|apply (IH w Hw), Hin].
  Qed.

  Lemma FE_sub d c : In c (FE d) -> In (sub_parent c, sel_sels (cf_field c)) (EE d).
  Proof.
    intro Hin. unfold FE in Hin. apply in_flat_map in Hin. destruct Hin as [D [HD Hin]].
    unfold fe_def in Hin. apply in_flat_map in Hin. destruct Hin as [w [Hw Hin]].
    apply in_flat_map. exists D. split; [exact HD|]. right. apply in_flat_map. exists w.
    split; [exact Hw|apply fe_sel_sub, Hin].
  Qed.

  Lemma fe_sel_fields x : forall Q, map cf_field (fe_sel Q x) = filter C05_merge_proofs.is_field (sel_all x).
  Proof.
    induction x as [p al n args dirs sp sub IH|p n dirs|p tc dirs sp sub IH] using selection_ind'; intro Q;
      cbn [fe_sel sel_all filter C05_merge_proofs.is_field map cf_field].
    - f_equal. rewrite map_flat_map, filter_flat_map. apply flat_map_Forall_ext.
      eapply Forall_impl; [|exact IH]. intros y Hy. apply Hy.
    - reflexivity.
    - rewrite map_flat_map, filter_flat_map. apply flat_map_Forall_ext.
      eapply Forall_impl; [|exact IH]. intros y Hy. apply Hy.
  Qed.

  Lemma FE_fields d : map cf_field (FE d) = F0 d.
  Proof.
    unfold FE, F0, doc_selections. rewrite map_flat_map, filter_flat_map. apply flat_map_all_ext. intro D.
    unfold fe_def, sels_all. rewrite map_flat_map, filter_flat_map. apply flat_map_all_ext. intro y. apply fe_sel_fields.
  Qed.

  Lemma map_inj_NoDup {A B} (f : A -> B) l a b : NoDup (map f l) -> In a l -> In b l -> f a = f b -> a = b.
  Proof.
    induction l as [|x r IH]; cbn [map]; intros Hnd Ha Hb E; [destruct Ha|].
    inversion Hnd as [|? ? Hni Hnd']; subst. destruct Ha as [->|Ha], Hb as [->|Hb].
    - reflexivity.
    - exfalso. apply Hni. rewrite E. apply in_map, Hb.
    - exfalso. apply Hni. rewrite <- E. apply in_map, Ha.
    - apply IH; assumption.
  Qed.

  Lemma FE_unique d x y : NoDup (map sel_pos (F0 d)) -> In x (FE d) -> In y (FE d) ->
    sel_pos (cf_field x) = sel_pos (cf_field y) -> x = y.
  Proof.
    intros Hnd Hx Hy E. rewrite <- FE_fields, map_map in Hnd.
    apply (map_inj_NoDup (fun c => sel_pos (cf_field c)) (FE d) x y Hnd Hx Hy E).
  Qed.

  (* ---------------------------------------------------------------- with known inline type conditions *)
  Fixpoint kn (x : selection) : bool :=
    match x with
    | SField _ _ _ _ _ _ sub => forallb kn sub
    | SSpread _ _ _ => true
    | SInline _ tc _ _ sub =>
        match tc with Some c => is_some (type_by_name s c) | None => true end && forallb kn sub
    end.
  Definition tc_ok (x : selection) : bool :=
    match x with SInline _ (Some c) _ _ _ => is_some (type_by_name s c) | _ => true end.

  Lemma kn_all x : kn x = forallb tc_ok (sel_all x).
  Proof.
    induction x as [p al n args dirs sp sub IH|p n dirs|p tc dirs sp sub IH] using selection_ind';
      cbn [kn sel_all forallb tc_ok].
    - induction IH as [|y r Hy Hr IHr]; [reflexivity|]. cbn [forallb flat_map]. rewrite forallb_app, Hy, IHr. reflexivity.
    - reflexivity.
    - assert (E : forallb kn sub = forallb tc_ok (flat_map sel_all sub)).
      { induction IH as [|y r Hy Hr IHr]; [reflexivity|]. cbn [forallb flat_map]. rewrite forallb_app, Hy, IHr. reflexivity. }
      rewrite E. destruct tc; reflexivity.
  Qed.

  Lemma kn_sels l : forallb tc_ok (sels_all l) = true -> forallb kn l = true.
  Proof.
    intro H. apply forallb_forall. intros y Hy. rewrite kn_all. apply forallb_forall. intros z Hz.
    rewrite forallb_forall in H. apply H. apply in_flat_map. exists y. split; assumption.
  Qed.

  Lemma inline_parent_known tc P : match tc with Some c => is_some (type_by_name s c) | None => true end = true ->
    inline_parent s tc P = aip tc P.
  Proof.
    unfold inline_parent, aip. destruct tc as [c|]; cbn [opt_bind]; [|reflexivity].
    destruct (type_by_name s c); [reflexivity|discriminate].
  Qed.

  Lemma cfl_sel_fe x : kn x = true -> forall P, incl (cfl_sel s P x) (fe_sel P x).
  Proof.
    induction x as [p al n args dirs sp sub IH|p n dirs|p tc dirs sp sub IH] using selection_ind';
      intros Hk P; cbn [cfl_sel fe_sel].
    - intros z [<-|[]]. left. reflexivity.
    - intros z [].
    - cbn [kn] in Hk. apply andb_prop in Hk. destruct Hk as [H1 H2]. fold (inline_parent s tc P).
      rewrite (inline_parent_known tc P H1). intros z Hz. apply in_flat_map in Hz. destruct Hz as [y [Hy Hz]].
      apply in_flat_map. exists y. split; [exact Hy|]. rewrite Forall_forall in IH. rewrite forallb_forall in H2.
      apply (IH y Hy (H2 y Hy)), Hz.
  Qed.

  Definition inline_conditions_known (d : document) : bool := forallb tc_ok (doc_selections d).

  Lemma cfl_FE d P sels : inline_conditions_known d = true -> In (P, sels) (EE d) -> incl (cfl s P sels) (FE d).
  Proof.
    intros Hk Hin z Hz. unfold cfl in Hz. apply in_flat_map in Hz. destruct Hz as [y [Hy Hz]].
    destruct (EE_closed d P sels Hin y Hy) as [_ H2]. apply H2. apply cfl_sel_fe; [|exact Hz].
    assert (Hs : forallb kn sels = true).
    { apply kn_sels. apply forallb_forall. intros w Hw. unfold inline_conditions_known in Hk.
      rewrite forallb_forall in Hk. apply Hk. apply (EE_indoc d P sels Hin), Hw. }
    rewrite forallb_forall in Hs. apply Hs, Hy.
  Qed.
End Structure.

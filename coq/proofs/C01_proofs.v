(* C01_proofs.v — spec-valid documents are accepted by the default rule plan: composition of the
   per-rule equivalences (ComposeFacts.v) with variables_in_allowed_position_iff
   (C07_position_proofs.v) and no_fuel_exhaustion (C03_proofs.v).

   CHANGED HYPOTHESIS.  The equivalence for VariablesInAllowedPosition holds only for documents
   whose variable default values are constants ([defaults_const d], C07_position_proofs.v; the
   grammar's DefaultValue : = Value[Const]).  The statements of properties/C01.v without that
   hypothesis are false ([c01_needs_const_defaults] below), so:
     spec_valid_accepted      has the additional hypothesis  defaults_const d = true,
     spec_valid_rule_silent   has the additional hypothesis
                              (r = R_VariablesInAllowedPosition -> defaults_const d = true). *)
From GT Require Import Visitor Validate.
From GTS Require Import Annot WfSchema SpecRules SpecValid.
From GTP Require Import PlanFacts ComposeFacts C03_proofs C07_position_proofs.

Lemma viap_statement_holds : viap_statement.
Proof. exact variables_in_allowed_position_iff. Qed.

Lemma fuel_statement_holds : fuel_statement.
Proof. exact no_fuel_exhaustion. Qed.

Lemma spec_valid_accepted : forall s d,
  wf_schema s = true -> doc_types_proper d = true -> defaults_const d = true ->
  spec_valid s d = true ->
  snd (run_rule R_OverlappingFieldsCanBeMerged s d ctx0) = mkRes [] false ->
  validate s d default_plan = Ok [].
Proof. exact (spec_valid_accepted_sec viap_statement_holds fuel_statement_holds). Qed.

Lemma spec_valid_rule_silent : forall s d r,
  wf_schema s = true -> doc_types_proper d = true -> spec_valid s d = true ->
  r <> R_OverlappingFieldsCanBeMerged ->
  (r = R_VariablesInAllowedPosition -> defaults_const d = true) ->
  run_alone r s d = [].
Proof. exact (spec_valid_rule_silent_sec viap_statement_holds). Qed.

(* ---------------------------------------------------------------- the counterexample *)
(* query Q($a: Int = $b, $b: String) { f(x: $a, y: $b) }  on
   type Query { f(x: Int, y: String): Int }:
   no rule is violated according to the specification (a variable inside a default value is not
   a "variable usage" there, and the grammar does not even allow it); the model's
   VariablesInAllowedPosition treats $b inside the default value as a usage at an Int location
   and reports. *)
Definition c01_cex_schema : sdocument :=
  [SDType (TDObject "Query" []
             [mkFD "f" [mkIV "x" (TNamed "Int") None; mkIV "y" (TNamed "String") None] (TNamed "Int")]);
   SDType (TDScalar "Int"); SDType (TDScalar "String")].
Definition c01_cex_doc : document :=
  [DOp (mkOperation OpQuery (0%N, 0%N) (Some "Q")
          [mkVardef (0%N, 0%N) "a" (TNamed "Int") (Some (VVar "b"));
           mkVardef (0%N, 0%N) "b" (TNamed "String") None]
          [] ((0%N, 0%N), (0%N, 0%N))
          [SField (0%N, 0%N) None "f" [("x", VVar "a"); ("y", VVar "b")] []
                  ((0%N, 0%N), (0%N, 0%N)) []])].

Lemma c01_needs_const_defaults :
  wf_schema c01_cex_schema = true /\ doc_types_proper c01_cex_doc = true /\
  spec_valid c01_cex_schema c01_cex_doc = true /\
  snd (run_rule R_OverlappingFieldsCanBeMerged c01_cex_schema c01_cex_doc ctx0) = mkRes [] false /\
  run_alone R_VariablesInAllowedPosition c01_cex_schema c01_cex_doc <> [] /\
  validate c01_cex_schema c01_cex_doc default_plan <> Ok [] /\
  defaults_const c01_cex_doc = false.
Proof. vm_compute. repeat split; discriminate. Qed.

(* ---------------------------------------------------------------- without the condition on
   default values: everything except VariablesInAllowedPosition *)
Lemma spec_valid_rule_silent_other_rules : forall s d r,
  wf_schema s = true -> doc_types_proper d = true -> spec_valid s d = true ->
  r <> R_OverlappingFieldsCanBeMerged -> r <> R_VariablesInAllowedPosition -> run_alone r s d = [].
Proof. exact spec_valid_rule_silent_noviap. Qed.

Lemma spec_valid_accepted_given_position : forall s d,
  wf_schema s = true -> doc_types_proper d = true -> spec_valid s d = true ->
  snd (run_rule R_OverlappingFieldsCanBeMerged s d ctx0) = mkRes [] false ->
  run_alone R_VariablesInAllowedPosition s d = [] ->
  validate s d default_plan = Ok [].
Proof.
  intros s d Hwf Hp Hv Hm Hvi.
  apply spec_valid_accepted_noviap; try assumption.
  - pose proof (no_fuel_exhaustion R_VariablesInAllowedPosition s d ctx0) as Hf.
    unfold run_alone in Hvi.
    destruct (snd (run_rule R_VariablesInAllowedPosition s d ctx0)) as [es oof].
    cbn [r_errors r_oof] in *. rewrite Hvi, Hf by discriminate. reflexivity.
  - intro r. destruct (known_full r) eqn:Ek.
    + apply no_fuel_exhaustion, known_full_true, Ek.
    + rewrite (known_full_false r Ek), Hm. reflexivity.
Qed.

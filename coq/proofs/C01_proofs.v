(* C01_proofs.v — spec-valid documents are accepted by the default rule plan (composition of the
   per-rule equivalences, see ComposeFacts.v).

   Status of the ingredients:
     no_fuel_exhaustion, wf_no_panic (C03_proofs.v)            — proved, used here;
     variables_in_allowed_position_iff (C07_position_proofs.v)  — pending: the lemmas below are
       stated (a) as implications from [viap_statement] (= the exact statement of that lemma) and
       (b) closed, with R_VariablesInAllowedPosition excluded.
   When C07_position_proofs.v is available, the closed lemmas expected by properties/C01.v are
       From GTP Require Import C07_position_proofs.
       Definition spec_valid_accepted := spec_valid_accepted_from_viap variables_in_allowed_position_iff.
       Definition spec_valid_rule_silent := spec_valid_rule_silent_from_viap variables_in_allowed_position_iff. *)
From GT Require Import Visitor Validate.
From GTS Require Import Annot WfSchema SpecRules SpecValid.
From GTP Require Import PlanFacts ComposeFacts C03_proofs.

(* ---------------------------------------------------------------- (a) from the pending lemma *)
Lemma spec_valid_accepted_from_viap : viap_statement -> forall s d,
  wf_schema s = true -> doc_types_proper d = true -> spec_valid s d = true ->
  snd (run_rule R_OverlappingFieldsCanBeMerged s d ctx0) = mkRes [] false ->
  validate s d default_plan = Ok [].
Proof. intro H. exact (spec_valid_accepted_sec H no_fuel_exhaustion). Qed.

Lemma spec_valid_rule_silent_from_viap : viap_statement -> forall s d r,
  wf_schema s = true -> doc_types_proper d = true -> spec_valid s d = true ->
  r <> R_OverlappingFieldsCanBeMerged -> run_alone r s d = [].
Proof. intro H. exact (spec_valid_rule_silent_sec H). Qed.

(* ---------------------------------------------------------------- (b) closed, without it *)
Lemma spec_valid_accepted_partial : forall s d,
  wf_schema s = true -> doc_types_proper d = true -> spec_valid s d = true ->
  snd (run_rule R_OverlappingFieldsCanBeMerged s d ctx0) = mkRes [] false ->
  run_alone R_VariablesInAllowedPosition s d = [] ->
  validate s d default_plan = Ok [].
Proof.
  intros s d Hwf Hp Hv Hm Hvi.
  apply spec_valid_accepted_noviap; try assumption.
  - pose proof (no_fuel_exhaustion R_VariablesInAllowedPosition s d ctx0) as Hf.
    unfold run_alone in Hvi.
    destruct (snd (run_rule R_VariablesInAllowedPosition s d ctx0)) as [es oof].
    cbn [r_errors r_oof] in *. rewrite Hvi, Hf by discriminate. reflexivity.
  - intro r. destruct (known_full r) eqn:Ek.
    + apply no_fuel_exhaustion, known_full_true, Ek.
    + rewrite (known_full_false r Ek), Hm. reflexivity.
Qed.

Lemma spec_valid_rule_silent_partial : forall s d r,
  wf_schema s = true -> doc_types_proper d = true -> spec_valid s d = true ->
  r <> R_OverlappingFieldsCanBeMerged -> r <> R_VariablesInAllowedPosition -> run_alone r s d = [].
Proof. exact spec_valid_rule_silent_noviap. Qed.

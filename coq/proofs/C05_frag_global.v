(* C05_frag_global.v — OverlappingFieldsCanBeMerged with named fragment spreads: when the checks the
   rule makes on EVERY selection set of the document (those of the fragment definitions included)
   all succeed, FieldsInSetCanMerge holds for the collected set (fragments expanded) of every
   selection set.  Then: completeness of the rule on whole documents, provided no run of the
   search ran out of fuel. *)
From Coq Require Import Permutation.
From GT Require Import Visitor Validate Merge.
From GTS Require Import SpecLin Annot WfSchema SpecCollect SpecRules SpecMerge SpecValid.
From GTP Require Import VisitorFacts TraceFacts RuleFacts EventFacts C06_graph_proofs C06_proofs C05_proofs
     C05_frag_graph C05_frag_spec C05_frag_sound C05_frag_annot C05_frag_rank C05_frag_complete.

(* ================================================================== reflexivity of the pairwise condition *)
Lemma value_eqb_refl : forall v, value_eqb v v = true.
Proof.
  intro v. induction v as [n|z|bt|str|bo| |n|l IH|l IH] using value_ind'; cbn [value_eqb].
  - apply c5_name_eqb_refl.
  - apply Z.eqb_refl.
  - unfold float_bits_eqb. rewrite N.eqb_refl. reflexivity.
  - apply String.eqb_refl.
  - destruct bo; reflexivity.
  - reflexivity.
  - apply c5_name_eqb_refl.
  - induction IH as [|u r Hu Hr IHr]; [reflexivity|]. rewrite Hu, IHr. reflexivity.
  - induction IH as [|[k u] r Hu Hr IHr]; [reflexivity|]. cbn [snd] in Hu. rewrite c5_name_eqb_refl, Hu, IHr. reflexivity.
Qed.

Lemma args_subset_refl a : args_subset a a = true.
Proof.
  unfold args_subset. apply forallb_forall. intros x Hx. apply existsb_exists. exists x. split; [exact Hx|].
  rewrite c5_name_eqb_refl, value_eqb_refl. reflexivity.
Qed.

Lemma shape_conflict_refl s : forall t, shape_conflict s t t = false.
Proof.
  intro t. induction t as [x|a IH|a IH]; cbn [shape_conflict]; try exact IH.
  rewrite c5_name_eqb_refl. apply andb_false_r.
Qed.

Lemma level_ok_refl s m x : level_ok s m x x = true.
Proof.
  unfold level_ok. rewrite c5_name_eqb_refl. unfold same_arguments. rewrite args_subset_refl. cbn [andb].
  rewrite orb_true_r. cbn [andb]. destruct (cf_def x); [|reflexivity]. rewrite shape_conflict_refl. reflexivity.
Qed.

Lemma pairs_within_total {A} (l : list A) x y :
  In x l -> In y l -> x <> y -> In (x, y) (pairs_within l) \/ In (y, x) (pairs_within l).
Proof.
  induction l as [|a r IH]; intros Hx Hy Hne; [destruct Hx|]. rewrite !pw_cons_In.
  destruct Hx as [->|Hx], Hy as [->|Hy].
  - contradiction.
  - left. left. split; [reflexivity|exact Hy].
  - right. left. split; [reflexivity|exact Hx].
  - destruct (IH Hx Hy Hne) as [H|H]; [left|right]; right; exact H.
Qed.

Lemma fcm_from_false s d n m u v : fields_can_merge n s d false u v = true -> fields_can_merge n s d m u v = true.
Proof. intro H. destruct m; [apply (fcm_mutex s d n false), H|exact H]. Qed.

Lemma collected_nil s d P : collected s d P [] = [].
Proof. reflexivity. Qed.

Section Global.
  Variables (s : sdocument) (d : document).
  Hypothesis Hacyc : forall u, ~ cyc d u.
  Hypothesis Hpos : NoDup (map sel_pos (F0 d)).
  Hypothesis Hknown : inline_conditions_known s d = true.
  Hypothesis HL : forall P sels, In (P, sels) (EE s d) -> LocalOK s d P sels.

  Lemma fdirect_defined g u : In u (fdirect s d g) -> exists fr, find_fragment d g = Some fr.
  Proof. unfold fdirect. destruct (find_fragment d g) as [fr|]; [intros _; exists fr; reflexivity|intros []]. Qed.

  Lemma frag_block c fc : find_fragment d c = Some fc -> In (type_by_name s (fr_tc fc), fr_sels fc) (EE s d).
  Proof. intro H. apply EE_fragment. apply (find_fragment_name d c fc H). Qed.

  Lemma fdirect_FE g u : In u (fdirect s d g) -> In u (FE s d).
  Proof.
    intro H. unfold fdirect in H. destruct (find_fragment d g) as [fr|] eqn:E; [|destruct H].
    apply (cfl_FE s d _ _ Hknown (frag_block g fr E)), H.
  Qed.

  Lemma collected_FE P sels u : In (P, sels) (EE s d) -> In u (collected s d P sels) -> In u (FE s d).
  Proof.
    intros HE Hu. apply collected_In in Hu. destruct Hu as [Hu|[g [_ Hu]]].
    - apply (cfl_FE s d P sels Hknown HE), Hu.
    - apply (fdirect_FE g u Hu).
  Qed.

  Lemma lreach_defined c g u : lreach d c g -> In u (fdirect s d g) -> exists fc, find_fragment d c = Some fc.
  Proof.
    intros Hr Hu. inversion Hr as [|? b ? He Hr']; subst.
    - apply (fdirect_defined g u Hu).
    - unfold ledge, fnext in He. destruct (find_fragment d c) as [fc|]; [exists fc; reflexivity|destruct He].
  Qed.

  Lemma frag_collected c fc g u : find_fragment d c = Some fc -> lreach d c g -> In u (fdirect s d g) ->
    In u (collected s d (type_by_name s (fr_tc fc)) (fr_sels fc)).
  Proof.
    intros Hc Hr Hu. apply collected_In. inversion Hr as [|? b ? He Hr']; subst.
    - left. unfold fdirect in Hu. rewrite Hc in Hu. exact Hu.
    - right. exists g. split; [|exact Hu]. exists b. split; [|exact Hr'].
      unfold ledge, fnext in He. rewrite Hc in He. exact He.
  Qed.

  Lemma pos_dec (p q : pos) : {p = q} + {p <> q}.
  Proof.
    destruct (pos_eqb p q) eqn:E; [left; apply pos_eqb_eq, E|right]. intro H. apply pos_eqb_eq in H.
    rewrite H in E. discriminate.
  Qed.

  Definition A_n (n : nat) : Prop :=
    forall pm x y, In x (FE s d) -> In y (FE s d) -> CFok s d pm x y -> fields_can_merge n s d pm x y = true.
  Definition GI_n (n : nat) : Prop :=
    forall P sels, In (P, sels) (EE s d) -> forall x y,
      In x (collected s d P sels) -> In y (collected s d P sels) -> cf_key x = cf_key y ->
      fields_can_merge n s d false x y = true.

  Lemma key_eqb x y : cf_key x = cf_key y <-> name_eqb (cf_key x) (cf_key y) = true.
  Proof. symmetry. apply c5_name_eqb_eq. Qed.

  Lemma A_step n : A_n n -> GI_n n -> A_n (S n).
  Proof.
    intros HA HG pm x y Hx Hy Hok. inversion Hok as [pm' x' y' Hlv Hsub]; subst.
    apply fcm_true_iff. split; [exact Hlv|]. intros u v Hu Hv Hk. apply key_eqb in Hk.
    set (m := pm || parents_exclusive x y) in *.
    change (sub_set s d x) with (collected s d (sub_parent s x) (sel_sels (cf_field x))) in Hu.
    change (sub_set s d y) with (collected s d (sub_parent s y) (sel_sels (cf_field y))) in Hv.
    pose proof (FE_sub s d x Hx) as Bx. pose proof (FE_sub s d y Hy) as By.
    destruct (sel_sels (cf_field x)) as [|x1 rx] eqn:Ex; [rewrite collected_nil in Hu; destruct Hu|].
    destruct (sel_sels (cf_field y)) as [|y1 ry] eqn:Ey; [rewrite collected_nil in Hv; destruct Hv|].
    specialize (Hsub eq_refl eq_refl). destruct Hsub as [S1 [S2 [S3 S4]]].
    pose proof (collected_FE _ _ u Bx Hu) as Uu. pose proof (collected_FE _ _ v By Hv) as Uv.
    apply collected_In in Hu. apply collected_In in Hv.
    destruct Hu as [Hu|[g1 [[a [Ha R1]] Hu]]], Hv as [Hv|[g2 [[b [Hb R2]] Hv]]].
    - apply (HA m u v Uu Uv), (S1 u v Hu Hv Hk).
    - apply (HA m u v Uu Uv), (S2 u g2 v Hu (ex_intro _ b (conj Hb R2)) Hv Hk).
    - rewrite fcm_sym. apply (HA m v u Uv Uu), (S3 v g1 u Hv (ex_intro _ a (conj Ha R1)) Hu (eq_sym Hk)).
    - destruct (S4 a b Ha Hb g1 g2 u v R1 R2 Hu Hv Hk) as [[c [C1 [C2 [C3 C4]]]]|[[H|H]|[H|H]]].
      + destruct (lreach_defined c g1 u C3 Hu) as [fc Hc]. apply fcm_from_false.
        apply (HG _ _ (frag_block c fc Hc) u v); [apply (frag_collected c fc g1 u Hc C3 Hu)|
                                                  apply (frag_collected c fc g2 v Hc C4 Hv)|exact Hk].
      + apply (HA m u v Uu Uv H).
      + apply fcm_from_false. apply (HA false u v Uu Uv H).
      + rewrite fcm_sym. apply (HA m v u Uv Uu H).
      + rewrite fcm_sym. apply fcm_from_false. apply (HA false v u Uv Uu H).
  Qed.

  Lemma G_step n : A_n (S n) -> GI_n n -> GI_n (S n).
  Proof.
    intros HA HG.
    assert (GIk : forall k P sels, frk d sels <= k -> In (P, sels) (EE s d) -> forall x y,
               In x (collected s d P sels) -> In y (collected s d P sels) -> cf_key x = cf_key y ->
               fields_can_merge (S n) s d false x y = true).
    { induction k as [k IHk] using lt_wf_ind. intros P sels Hk HE x y Hx Hy Hkey.
      pose proof (collected_FE P sels x HE Hx) as Ux. pose proof (collected_FE P sels y HE Hy) as Uy.
      destruct (pos_dec (sel_pos (cf_field x)) (sel_pos (cf_field y))) as [Ep|Np].
      - (* the same field *)
        pose proof (FE_unique s d x y Hpos Ux Uy Ep) as E. subst y.
        apply fcm_true_iff. split; [apply level_ok_refl|]. intros u v Hu Hv Hk'. apply key_eqb in Hk'.
        apply fcm_from_false.
        change (sub_set s d x) with (collected s d (sub_parent s x) (sel_sels (cf_field x))) in Hu, Hv.
        apply (HG _ _ (FE_sub s d x Ux) u v Hu Hv Hk').
      - assert (Hne : x <> y) by (intro E; subst y; apply Np; reflexivity).
        destruct (HL P sels HE) as [LA [LB LC]].
        apply collected_In in Hx. apply collected_In in Hy.
        destruct Hx as [Hx|[g1 [[a [Ha R1]] Hx]]], Hy as [Hy|[g2 [[b [Hb R2]] Hy]]].
        + destruct (pairs_within_total _ x y Hx Hy Hne) as [H|H].
          * apply (HA false x y Ux Uy), (LA x y H Hkey).
          * rewrite fcm_sym. apply (HA false y x Uy Ux), (LA y x H (eq_sym Hkey)).
        + apply (HA false x y Ux Uy), (LB x g2 y Hx (ex_intro _ b (conj Hb R2)) Hy Hkey).
        + rewrite fcm_sym. apply (HA false y x Uy Ux), (LB y g1 x Hy (ex_intro _ a (conj Ha R1)) Hx (eq_sym Hkey)).
        + destruct (LC a b Ha Hb g1 g2 x y R1 R2 Hx Hy Hkey) as [[c [C1 [C2 [C3 C4]]]]|[[H|H]|[H|H]]].
          * destruct (lreach_defined c g1 x C3 Hx) as [fc Hc].
            destruct (find_fragment_name d c fc Hc) as [Hfc Hname].
            assert (Hlt : frk d (fr_sels fc) < k).
            { pose proof (frk_frag d Hacyc fc Hfc) as H1. rewrite Hname in H1.
              pose proof (rk_lreach d a c C1) as H2. pose proof (frk_In d sels a (lsp_spreads _ _ Ha)) as H3. lia. }
            apply (IHk (frk d (fr_sels fc)) Hlt _ _ (le_n _) (frag_block c fc Hc) x y);
              [apply (frag_collected c fc g1 x Hc C3 Hx)|apply (frag_collected c fc g2 y Hc C4 Hy)|exact Hkey].
          * apply (HA false x y Ux Uy H).
          * apply (HA false x y Ux Uy H).
          * rewrite fcm_sym. apply (HA false y x Uy Ux H).
          * rewrite fcm_sym. apply (HA false y x Uy Ux H). }
    intros P sels HE. apply (GIk (frk d sels) P sels (le_n _) HE).
  Qed.

  Lemma global_ok : forall n, A_n n /\ GI_n n.
  Proof.
    induction n as [|n [HA HG]].
    - split; [intros pm x y _ _ _; reflexivity|intros P sels _ x y _ _ _; reflexivity].
    - pose proof (A_step n HA HG) as HA'. split; [exact HA'|apply (G_step n HA' HG)].
  Qed.

  Lemma all_sets_merge P sels : In (P, sels) (EE s d) ->
    fields_in_set_can_merge s d (collected s d P sels) = true.
  Proof.
    intro HE. unfold fields_in_set_can_merge. apply forallb_forall. intros [x y] Hxy. cbn [fst snd].
    unfold same_key_pairs in Hxy. apply filter_In in Hxy. destruct Hxy as [Hxy Hk]. cbn [fst snd] in Hk.
    apply pairs_within_In in Hxy. destruct Hxy as [Hx Hy].
    apply (proj2 (global_ok (merge_fuel_spec d)) P sels HE x y Hx Hy). apply c5_name_eqb_eq, Hk.
  Qed.
End Global.

(* C14_inline_proofs.v — C14 (f): replacing spreads  ...F  (without directives) of a fragment F by the
   typed inline fragment  ... on T { selections of F }  (T = F's type condition), for any number of the
   spreads of F, anywhere in the document ([inline_doc F d d']); the definition of F stays.
   [inline_side F d]: F is a definition of d, the only one with its name, without directives of its own,
   not on a cycle of spreads.  Then
     - every rule except NoUnusedFragments and field merging is invariant               violated_inline
     - field merging is invariant when moreover T and the type conditions of the inline fragments of d
       are types of the schema ([inline_merge_side])                                      violated_inline_merge
     - NoUnusedFragments: only F itself can become unused                 violated_inline_no_unused_fragments
     - accept / reject is invariant when F is still used after the rewrite               spec_valid_inline
   The hypotheses are needed: inline_unused_cex, inline_fragment_directives_cex,
   inline_undeclared_type_cex (the last one with a schema that is not well-formed).
   Method: the selections / annotation events of d and d' cover each other (an event of a copy of F's
   selections has a twin in the definition of F, in an environment that agrees on what the rules read);
   what is collected over the fragments reachable in the spread graph is the same on both sides
   (AbsGraph, AbsDfs); for field merging the pairwise condition is compared at equal fuel, the fuel of the
   specification is immaterial on documents without cycles (C05_frag_spec), and duplicates in the collected
   sets are harmless because a field merges with itself when all selection sets of the document merge. *)
From GT Require Import Visitor Validate Merge.
From Coq Require Import Permutation.
From GTS Require Import Annot WfSchema SpecCollect SpecRules SpecValues SpecMerge SpecValid.
From GTP Require Import VisitorFacts TraceFacts C14_proofs C14_more_proofs C14_wrap_proofs.
From GTP Require C06_graph_proofs C05_merge_proofs C05_frag_spec C05_frag_annot C05_frag_global.

(* ------------------------------------------------------------------ the rewrite *)
Section Rel.
  Variable F : fragment_def.

  Inductive isel : selection -> selection -> Prop :=
  | IField p al n args dirs sp sels sels' : Forall2 isel sels sels' ->
      isel (SField p al n args dirs sp sels) (SField p al n args dirs sp sels')
  | ISpread p n dirs : isel (SSpread p n dirs) (SSpread p n dirs)
  | IInline p tc dirs sp sels sels' : Forall2 isel sels sels' ->
      isel (SInline p tc dirs sp sels) (SInline p tc dirs sp sels')
  | IExpand p p' : isel (SSpread p (fr_name F) []) (SInline p' (Some (fr_tc F)) [] (fr_span F) (fr_sels F)).
  Definition isels : list selection -> list selection -> Prop := Forall2 isel.
  Inductive iop : operation -> operation -> Prop :=
  | IOp k p n vars dirs sp sels sels' : isels sels sels' ->
      iop (mkOperation k p n vars dirs sp sels) (mkOperation k p n vars dirs sp sels').
  Inductive ifrag : fragment_def -> fragment_def -> Prop :=
  | IFrag p n tc dirs sp sels sels' : isels sels sels' ->
      ifrag (mkFragment p n tc dirs sp sels) (mkFragment p n tc dirs sp sels').
  Inductive idef : definition -> definition -> Prop :=
  | IDOp o o' : iop o o' -> idef (DOp o) (DOp o')
  | IDFrag f f' : ifrag f f' -> idef (DFrag f) (DFrag f').
  Definition inline_doc : document -> document -> Prop := Forall2 idef.

  Definition expands (u v : selection) : Prop :=
    exists p p', u = SSpread p (fr_name F) [] /\ v = SInline p' (Some (fr_tc F)) [] (fr_span F) (fr_sels F).

  Lemma isel_refl x : isel x x.
  Proof.
    induction x as [p al n args dirs sp sels IH|p n dirs|p tc dirs sp sels IH] using selection_ind';
      constructor; induction IH; constructor; assumption.
  Qed.
  Lemma isels_refl l : isels l l.
  Proof. induction l; constructor; [apply isel_refl|assumption]. Qed.

  (* related selections: an expansion, or the same node with related sub-selections *)
  Definition same_head (u v : selection) : Prop :=
    match u, v with
    | SField p al n args dirs sp _, SField p' al' n' args' dirs' sp' _ =>
        p = p' /\ al = al' /\ n = n' /\ args = args' /\ dirs = dirs' /\ sp = sp'
    | SSpread p n dirs, SSpread p' n' dirs' => p = p' /\ n = n' /\ dirs = dirs'
    | SInline p tc dirs sp _, SInline p' tc' dirs' sp' _ => p = p' /\ tc = tc' /\ dirs = dirs' /\ sp = sp'
    | _, _ => False
    end.
  Lemma isel_cases u v : isel u v -> expands u v \/ (same_head u v /\ isels (sel_sels u) (sel_sels v)).
  Proof.
    intros [p al n args dirs sp sels sels' H|p n dirs|p tc dirs sp sels sels' H|p p'].
    - right. cbn. repeat split. exact H.
    - right. cbn. repeat split. constructor.
    - right. cbn. repeat split. exact H.
    - left. exists p, p'. split; reflexivity.
  Qed.
  Lemma same_head_fields u v : same_head u v ->
    node_pos u = node_pos v /\ sel_name u = sel_name v /\ sel_args u = sel_args v /\ sel_dirs u = sel_dirs v /\
    field_response_key u = field_response_key v /\ is_field_sel u = is_field_sel v.
  Proof.
    destruct u, v; cbn; try contradiction.
    - intros (-> & -> & -> & -> & -> & ->). repeat split.
    - intros (-> & -> & ->). repeat split.
    - intros (-> & -> & -> & ->). repeat split.
  Qed.

  (* the __typename fields at the root of a selection set: a spread contributes none, and neither does
     the typed inline fragment that replaces it *)
  Lemma length_flat_map_F2 {A B C D} (R : A -> B -> Prop) (g : A -> list C) (g' : B -> list D) l l' :
    Forall2 R l l' -> Forall (fun x => forall y, R x y -> List.length (g x) = List.length (g' y)) l ->
    List.length (flat_map g l) = List.length (flat_map g' l').
  Proof.
    induction 1 as [|x y l l' Hxy _ IH]; intro HF; [reflexivity|]. inversion HF as [|? ? Hx Hl]; subst.
    cbn [flat_map]. rewrite !app_length, (Hx y Hxy), (IH Hl). reflexivity.
  Qed.
  Lemma root_typename_fields_of_inl x : forall y, isel x y ->
    List.length (root_typename_fields_of x) = List.length (root_typename_fields_of y).
  Proof.
    induction x as [p al n args dirs sp sels IH|p n dirs|p tc dirs sp sels IH] using selection_ind';
      intros y Hxy; inversion Hxy as [? ? ? ? ? ? ? sels' Hs|?|? ? ? ? ? sels' Hs|]; subst;
      cbn [root_typename_fields_of]; try reflexivity.
    - destruct (name_eqb n "__typename"); reflexivity.
    - destruct tc as [tc|]; [reflexivity|]. apply (length_flat_map_F2 isel); assumption.
  Qed.
  Lemma root_typename_fields_inl l l' : isels l l' ->
    match root_typename_fields l with [] => false | _ :: _ => true end =
    match root_typename_fields l' with [] => false | _ :: _ => true end.
  Proof.
    intro H. assert (E : List.length (root_typename_fields l) = List.length (root_typename_fields l')).
    { unfold root_typename_fields. apply (length_flat_map_F2 isel); [exact H|].
      apply Forall_forall. intros x _. apply root_typename_fields_of_inl. }
    destruct (root_typename_fields l), (root_typename_fields l'); try reflexivity; discriminate.
  Qed.

  Lemma iop_fields o o' : iop o o' ->
    o_kind o = o_kind o' /\ o_pos o = o_pos o' /\ o_name o = o_name o' /\ o_vars o = o_vars o' /\
    o_dirs o = o_dirs o' /\ o_span o = o_span o' /\ isels (o_sels o) (o_sels o').
  Proof. intros []. cbn. repeat split. assumption. Qed.
  Lemma ifrag_fields f f' : ifrag f f' ->
    fr_pos f = fr_pos f' /\ fr_name f = fr_name f' /\ fr_tc f = fr_tc f' /\ fr_dirs f = fr_dirs f' /\
    fr_span f = fr_span f' /\ isels (fr_sels f) (fr_sels f').
  Proof. intros []. cbn. repeat split. assumption. Qed.
  Lemma iop_vardefs o o' : iop o o' -> op_variable_definitions o = op_variable_definitions o'.
  Proof. intros []. reflexivity. Qed.
  Lemma iop_directives o o' : iop o o' -> op_directives o = op_directives o'.
  Proof. intros []. reflexivity. Qed.
  Lemma iop_node_name o o' : iop o o' -> op_node_name o = op_node_name o'.
  Proof. intros []. reflexivity. Qed.
  Lemma idoc_frags d d' : inline_doc d d' -> Forall2 ifrag (fragments_of d) (fragments_of d').
  Proof.
    induction 1 as [|x y d d' Hxy _ IH]; cbn [fragments_of flat_map]; [constructor|].
    destruct Hxy as [o o' H|f f' H]; cbn [app]; [exact IH|constructor; assumption].
  Qed.
  Lemma idoc_ops d d' : inline_doc d d' -> Forall2 iop (operations_of d) (operations_of d').
  Proof.
    induction 1 as [|x y d d' Hxy _ IH]; cbn [operations_of flat_map]; [constructor|].
    destruct Hxy as [o o' H|f f' H]; cbn [app]; [constructor; assumption|exact IH].
  Qed.
  Lemma idef_sels x y : idef x y -> isels (def_sels x) (def_sels y).
  Proof. intros [o o' H|f f' H]; cbn [def_sels]; [apply (iop_fields _ _ H)|apply (ifrag_fields _ _ H)]. Qed.

  (* ---------------------------------------------------------------- every selection below: mutual covering *)
  Lemma in_sels_all l u : In u (sels_all l) <-> exists x, In x l /\ In u (sel_all x).
  Proof. unfold sels_all. apply in_flat_map. Qed.
  Lemma sel_all_sub x : sel_all x = x :: sels_all (sel_sels x).
  Proof. destruct x; reflexivity. Qed.
  Lemma F2_in_l {A B} (R : A -> B -> Prop) l l' x : Forall2 R l l' -> In x l -> exists y, In y l' /\ R x y.
  Proof.
    induction 1 as [|a b l l' Hab _ IH]; intros []; [subst; exists b; split; [left; reflexivity|exact Hab]|].
    destruct (IH H) as (y & Hy & Hr). exists y. split; [right; exact Hy|exact Hr].
  Qed.
  Lemma F2_in_r {A B} (R : A -> B -> Prop) l l' y : Forall2 R l l' -> In y l' -> exists x, In x l /\ R x y.
  Proof.
    induction 1 as [|a b l l' Hab _ IH]; intros []; [subst; exists a; split; [left; reflexivity|exact Hab]|].
    destruct (IH H) as (x & Hx & Hr). exists x. split; [right; exact Hx|exact Hr].
  Qed.

  Lemma cov_fwd_sel x : forall y, isel x y -> forall u, In u (sel_all x) ->
    exists v, In v (sel_all y) /\ isel u v.
  Proof.
    induction x as [p al n args dirs sp sels IH|p n dirs|p tc dirs sp sels IH] using selection_ind';
      intros y Hxy u Hu; rewrite sel_all_sub in Hu; destruct Hu as [<-|Hu];
      try (exists y; split; [rewrite sel_all_sub; left; reflexivity|exact Hxy]).
    - inversion Hxy as [? ? ? ? ? ? ? sels' Hs| | |]; subst. cbn [sel_sels] in Hu.
      apply in_sels_all in Hu. destruct Hu as (c & Hc & Hu). destruct (F2_in_l _ _ _ c Hs Hc) as (c' & Hc' & Hcc).
      rewrite Forall_forall in IH. destruct (IH c Hc c' Hcc u Hu) as (v & Hv & Huv).
      exists v. split; [|exact Huv]. rewrite sel_all_sub. right. apply in_sels_all. exists c'. split; assumption.
    - destruct Hu.
    - inversion Hxy as [| |? ? ? ? ? sels' Hs|]; subst. cbn [sel_sels] in Hu.
      apply in_sels_all in Hu. destruct Hu as (c & Hc & Hu). destruct (F2_in_l _ _ _ c Hs Hc) as (c' & Hc' & Hcc).
      rewrite Forall_forall in IH. destruct (IH c Hc c' Hcc u Hu) as (v & Hv & Huv).
      exists v. split; [|exact Huv]. rewrite sel_all_sub. right. apply in_sels_all. exists c'. split; assumption.
  Qed.
  Lemma cov_fwd l l' : isels l l' -> forall u, In u (sels_all l) -> exists v, In v (sels_all l') /\ isel u v.
  Proof.
    intros H u Hu. apply in_sels_all in Hu. destruct Hu as (x & Hx & Hu).
    destruct (F2_in_l _ _ _ x H Hx) as (y & Hy & Hxy). destruct (cov_fwd_sel x y Hxy u Hu) as (v & Hv & Huv).
    exists v. split; [apply in_sels_all; exists y; split; assumption|exact Huv].
  Qed.

  (* backwards: a selection of the rewritten list comes from the list or lies in a copy of F's selections *)
  Lemma cov_bwd_sel x : forall y, isel x y -> forall v, In v (sel_all y) ->
    (exists u, In u (sel_all x) /\ isel u v) \/ (In v (sels_all (fr_sels F)) /\ In (fr_name F) (spreads_in [x])).
  Proof.
    induction x as [p al n args dirs sp sels IH|p n dirs|p tc dirs sp sels IH] using selection_ind';
      intros y Hxy v Hv.
    - inversion Hxy as [? ? ? ? ? ? ? sels' Hs| | |]; subst. rewrite sel_all_sub in Hv. destruct Hv as [<-|Hv].
      + left. exists (SField p al n args dirs sp sels). split; [left; reflexivity|exact Hxy].
      + cbn [sel_sels] in Hv. apply in_sels_all in Hv. destruct Hv as (c' & Hc' & Hv).
        destruct (F2_in_r _ _ _ c' Hs Hc') as (c & Hc & Hcc). rewrite Forall_forall in IH.
        destruct (IH c Hc c' Hcc v Hv) as [(u & Hu & Huv)|[H1 H2]].
        * left. exists u. split; [|exact Huv]. rewrite sel_all_sub. right. apply in_sels_all. exists c. split; assumption.
        * right. split; [exact H1|]. unfold spreads_in, sels_all in *. cbn [flat_map] in *. rewrite app_nil_r in *.
          apply in_flat_map in H2. destruct H2 as (w & Hw & H2). apply in_flat_map. exists w. split; [|exact H2].
          right. apply in_flat_map. exists c. split; assumption.
    - inversion Hxy as [|? ? ?| |? p']; subst.
      + left. exists (SSpread p n dirs). split; [left; reflexivity|]. rewrite sel_all_sub in Hv.
        destruct Hv as [<-|[]]. exact Hxy.
      + rewrite sel_all_sub in Hv. destruct Hv as [<-|Hv].
        * left. exists (SSpread p (fr_name F) []). split; [left; reflexivity|exact Hxy].
        * right. split; [exact Hv|]. left. reflexivity.
    - inversion Hxy as [| |? ? ? ? ? sels' Hs|]; subst. rewrite sel_all_sub in Hv. destruct Hv as [<-|Hv].
      + left. exists (SInline p tc dirs sp sels). split; [left; reflexivity|exact Hxy].
      + cbn [sel_sels] in Hv. apply in_sels_all in Hv. destruct Hv as (c' & Hc' & Hv).
        destruct (F2_in_r _ _ _ c' Hs Hc') as (c & Hc & Hcc). rewrite Forall_forall in IH.
        destruct (IH c Hc c' Hcc v Hv) as [(u & Hu & Huv)|[H1 H2]].
        * left. exists u. split; [|exact Huv]. rewrite sel_all_sub. right. apply in_sels_all. exists c. split; assumption.
        * right. split; [exact H1|]. unfold spreads_in, sels_all in *. cbn [flat_map] in *. rewrite app_nil_r in *.
          apply in_flat_map in H2. destruct H2 as (w & Hw & H2). apply in_flat_map. exists w. split; [|exact H2].
          right. apply in_flat_map. exists c. split; assumption.
  Qed.
  Lemma spreads_in_one l x : In x l -> forall n, In n (spreads_in [x]) -> In n (spreads_in l).
  Proof.
    intros Hx n Hn. unfold spreads_in, sels_all in *. cbn [flat_map] in Hn. rewrite app_nil_r in Hn.
    apply in_flat_map in Hn. destruct Hn as (w & Hw & Hn). apply in_flat_map. exists w. split; [|exact Hn].
    apply in_flat_map. exists x. split; assumption.
  Qed.
  Lemma cov_bwd l l' : isels l l' -> forall v, In v (sels_all l') ->
    (exists u, In u (sels_all l) /\ isel u v) \/ (In v (sels_all (fr_sels F)) /\ In (fr_name F) (spreads_in l)).
  Proof.
    intros H v Hv. apply in_sels_all in Hv. destruct Hv as (y & Hy & Hv).
    destruct (F2_in_r _ _ _ y H Hy) as (x & Hx & Hxy).
    destruct (cov_bwd_sel x y Hxy v Hv) as [(u & Hu & Huv)|[H1 H2]].
    - left. exists u. split; [apply in_sels_all; exists x; split; assumption|exact Huv].
    - right. split; [exact H1|apply (spreads_in_one l x Hx), H2].
  Qed.
  (* where a spread of F was expanded, the selections of F are there *)
  Lemma expands_copy l' v u : In v (sels_all l') -> expands u v -> incl (sels_all (fr_sels F)) (sels_all l').
  Proof.
    intros Hv (p & p' & -> & ->) w Hw. apply in_sels_all in Hv. destruct Hv as (y & Hy & Hv).
    apply in_sels_all. exists y. split; [exact Hy|].
    assert (G : forall a b, In b (sel_all a) -> incl (sel_all b) (sel_all a)).
    { intro a. induction a as [q al n args dirs sp sels IH|q n dirs|q tc dirs sp sels IH] using selection_ind';
        intros b Hb; rewrite (sel_all_sub _) in Hb; destruct Hb as [<-|Hb]; try apply incl_refl; try destruct Hb;
        cbn [sel_sels] in Hb; apply in_sels_all in Hb; destruct Hb as (c & Hc & Hb); rewrite Forall_forall in IH;
        intros z Hz; rewrite sel_all_sub; right; apply in_sels_all; exists c; (split; [exact Hc|apply (IH c Hc b Hb), Hz]). }
    apply (G y _ Hv). rewrite sel_all_sub. right. exact Hw.
  Qed.
End Rel.

(* ------------------------------------------------------------------ what is read off the selections *)
Section Pay.
  Variable F : fragment_def.
  Context {X : Type}.
  Variable g : selection -> list X.
  Hypothesis Gsame : forall u v, same_head u v -> g u = g v.
  Hypothesis Gcopy : forall u v, expands F u v -> g v = [].
  Notation pay l := (flat_map g (sels_all l)).

  Lemma pay_fwd l l' x : isels F l l' -> In x (pay l) ->
    In x (pay l') \/ exists u v, expands F u v /\ In x (g u).
  Proof.
    intros H Hx. apply in_flat_map in Hx. destruct Hx as (u & Hu & Hx).
    destruct (cov_fwd F l l' H u Hu) as (v & Hv & Huv). destruct (isel_cases F u v Huv) as [He|[Hs _]].
    - right. exists u, v. split; assumption.
    - left. apply in_flat_map. exists v. split; [exact Hv|]. rewrite <- (Gsame u v Hs). exact Hx.
  Qed.
  Lemma pay_bwd l l' x : isels F l l' -> In x (pay l') ->
    In x (pay l) \/ (In (fr_name F) (spreads_in l) /\ In x (pay (fr_sels F))).
  Proof.
    intros H Hx. apply in_flat_map in Hx. destruct Hx as (v & Hv & Hx).
    destruct (cov_bwd F l l' H v Hv) as [(u & Hu & Huv)|[H1 H2]].
    - destruct (isel_cases F u v Huv) as [He|[Hs _]]; [rewrite (Gcopy u v He) in Hx; destruct Hx|].
      left. apply in_flat_map. exists u. split; [exact Hu|]. rewrite (Gsame u v Hs). exact Hx.
    - right. split; [exact H2|]. apply in_flat_map. exists v. split; assumption.
  Qed.
End Pay.

(* a spread of F in l: still a spread of F in l', or the selections of F are in l' *)
Lemma spread_or_copy F l l' : isels F l l' -> In (fr_name F) (spreads_in l) ->
  In (fr_name F) (spreads_in l') \/ incl (sels_all (fr_sels F)) (sels_all l').
Proof.
  intros H Hin. unfold spreads_in in Hin. apply in_flat_map in Hin. destruct Hin as (u & Hu & Hin).
  destruct u as [|p n dirs|]; try contradiction. destruct Hin as [Hn|[]]. subst n.
  destruct (cov_fwd F l l' H _ Hu) as (v & Hv & Huv). inversion Huv as [|? ? ?| |? p']; subst.
  - left. unfold spreads_in. apply in_flat_map. exists (SSpread p (fr_name F) dirs). split; [exact Hv|left; reflexivity].
  - right. eapply expands_copy; [exact Hv|]. exists p, p'. split; reflexivity.
Qed.

Lemma path_last d a l x : C06_graph_proofs.path d a l x ->
  (l = [] /\ a = x) \/ exists l0 m, l = l0 ++ [m] /\ C06_graph_proofs.path d a l0 m /\ C06_graph_proofs.edge d m x.
Proof.
  induction 1 as [a|a b l x Hab Hp IH]; [left; split; reflexivity|]. right.
  destruct IH as [[-> ->]|(l0 & m & -> & Hp0 & He)].
  - exists [], a. split; [reflexivity|]. split; [constructor|exact Hab].
  - exists (a :: l0), m. split; [reflexivity|]. split; [econstructor; eassumption|exact He].
Qed.

Lemma in_fragment_spreads d n b :
  In b (fragment_spreads d n) <-> exists f, In f (fragments_of d) /\ fr_name f = n /\ In b (spreads_in (fr_sels f)).
Proof.
  unfold fragment_spreads. rewrite in_flat_map. split.
  - intros (f & Hf & Hb). destruct (name_eqb (fr_name f) n) eqn:E; [|destruct Hb]. apply name_eqb_eq in E.
    exists f. repeat split; assumption.
  - intros (f & Hf & <- & Hb). exists f. split; [exact Hf|]. rewrite name_eqb_refl. exact Hb.
Qed.
Lemma in_fragment_vars d n x :
  In x (fragment_vars d n) <-> exists f, In f (fragments_of d) /\ fr_name f = n /\ In x (dirs_vars (fr_dirs f) ++ sels_vars (fr_sels f)).
Proof.
  unfold fragment_vars. rewrite in_flat_map. split.
  - intros (f & Hf & Hb). destruct (name_eqb (fr_name f) n) eqn:E; [|destruct Hb]. apply name_eqb_eq in E.
    exists f. repeat split; assumption.
  - intros (f & Hf & <- & Hb). exists f. split; [exact Hf|]. rewrite name_eqb_refl. exact Hb.
Qed.

(* ------------------------------------------------------------------ two graphs on names: E' is E with
   edges a -> Fn replaced (some of them) by the edges a -> b for all successors b of Fn *)
Inductive rch (R : name -> name -> Prop) : name -> name -> Prop :=
| rch_refl a : rch R a a
| rch_step a b c : R a b -> rch R b c -> rch R a c.
Lemma rch_snoc R a b c : rch R a b -> R b c -> rch R a c.
Proof. induction 1 as [a|a b0 b He _ IH]; intro H; [eapply rch_step; [exact H|apply rch_refl]|eapply rch_step; [exact He|apply IH, H]]. Qed.
Lemma rch_last R a x : rch R a x -> a = x \/ exists m, rch R a m /\ R m x.
Proof.
  induction 1 as [a|a b c He _ IH]; [left; reflexivity|right]. destruct IH as [->|(m & Hm & Hx)].
  - exists a. split; [apply rch_refl|exact He].
  - exists m. split; [eapply rch_step; eassumption|exact Hx].
Qed.
Definition afrom (R : name -> name -> Prop) (L : list name) (x : name) : Prop := exists a, In a L /\ rch R a x.

Section AbsGraph.
  Variables (E E' : name -> name -> Prop) (Fn : name).
  Hypothesis E_fwd : forall a b, E a b -> b <> Fn -> E' a b.
  Hypothesis E_bwd : forall a b, E' a b -> E a b \/ (E a Fn /\ E Fn b).
  Hypothesis E_copy : forall a, E a Fn -> E' a Fn \/ (forall b, E Fn b -> E' a b).
  Hypothesis E_noself : ~ E Fn Fn.

  Lemma rch_bwd a x : rch E' a x -> rch E a x.
  Proof.
    induction 1 as [a|a b c He _ IH]; [apply rch_refl|]. destruct (E_bwd a b He) as [H|[H1 H2]].
    - eapply rch_step; eassumption.
    - eapply rch_step; [exact H1|]. eapply rch_step; eassumption.
  Qed.
  Lemma rch_fwd_gen a x : rch E a x -> x <> Fn -> rch E' a x /\ (a = Fn -> forall a0, E a0 Fn -> rch E' a0 x).
  Proof.
    intros Hr Hx. induction Hr as [a|a b c Hab _ IH].
    - split; [apply rch_refl|]. intro Ea. contradiction.
    - destruct (IH Hx) as [IH1 IH2].
      assert (R1 : rch E' a c).
      { destruct (string_dec b Fn) as [Eb|Nb].
        - apply (IH2 Eb a). rewrite <- Eb. exact Hab.
        - eapply rch_step; [apply E_fwd; [exact Hab|exact Nb]|exact IH1]. }
      split; [exact R1|]. intros Ea a0 Ha0. subst a. destruct (E_copy a0 Ha0) as [H|H].
      + eapply rch_step; [exact H|exact R1].
      + eapply rch_step; [apply H, Hab|exact IH1].
  Qed.
  Lemma rch_fwd a x : rch E a x -> x <> Fn -> rch E' a x.
  Proof. intros H Hx. exact (proj1 (rch_fwd_gen a x H Hx)). Qed.

  Section Tot.
    Context {X : Type}.
    Variables (P0 P0' : list X) (L L' : list name) (pay pay' : name -> list X).
    Hypothesis L_fwd : forall b, In b L -> b <> Fn -> In b L'.
    Hypothesis L_bwd : forall b, In b L' -> In b L \/ (In Fn L /\ E Fn b).
    Hypothesis L_copy : In Fn L -> In Fn L' \/ ((forall b, E Fn b -> In b L') /\ (forall x, In x (pay Fn) -> In x P0')).
    Hypothesis P0_fwd : forall x, In x P0 -> In x P0'.
    Hypothesis P0_bwd : forall x, In x P0' -> In x P0 \/ (In Fn L /\ In x (pay Fn)).
    Hypothesis pay_fwd' : forall n x, In x (pay n) -> In x (pay' n).
    Hypothesis pay_bwd' : forall n x, In x (pay' n) -> In x (pay n) \/ (E n Fn /\ In x (pay Fn)).
    Hypothesis pay_copy' : forall n, E n Fn ->
      E' n Fn \/ ((forall b, E Fn b -> E' n b) /\ (forall x, In x (pay Fn) -> In x (pay' n))).

    Lemma afrom_bwd x : afrom E' L' x -> afrom E L x.
    Proof.
      intros (a & Ha & Hr). apply rch_bwd in Hr. destruct (L_bwd a Ha) as [H|[H1 H2]].
      - exists a. split; assumption.
      - exists Fn. split; [exact H1|]. eapply rch_step; eassumption.
    Qed.
    Lemma afrom_fwd x : afrom E L x -> x <> Fn -> afrom E' L' x.
    Proof.
      intros (a & Ha & Hr) Hx. destruct (string_dec a Fn) as [Ea|Na].
      - subst a. inversion Hr as [|? c ? Hc Hp]; subst; [contradiction Hx; reflexivity|].
        destruct (L_copy Ha) as [H|[H _]].
        + exists Fn. split; [exact H|apply rch_fwd; assumption].
        + exists c. split; [apply H, Hc|apply rch_fwd; assumption].
      - exists a. split; [apply L_fwd; assumption|apply rch_fwd; assumption].
    Qed.
    Lemma afrom_F : afrom E L Fn -> In Fn L \/ exists m, m <> Fn /\ afrom E L m /\ E m Fn.
    Proof.
      intros (a & Ha & Hr). destruct (rch_last E a Fn Hr) as [->|(m & Hm & He)]; [left; exact Ha|right].
      exists m. split; [intro Em; subst m; exact (E_noself He)|]. split; [exists a; split; assumption|exact He].
    Qed.

    Lemma atotal_iff x :
      (In x P0 \/ exists n, afrom E L n /\ In x (pay n)) <-> (In x P0' \/ exists n, afrom E' L' n /\ In x (pay' n)).
    Proof.
      split.
      - intros [H|(n & Hn & Hx)]; [left; apply P0_fwd, H|].
        destruct (string_dec n Fn) as [En|Nn].
        + subst n. destruct (afrom_F Hn) as [HL|(m & Hm & Hfm & He)].
          * destruct (L_copy HL) as [H1|[_ H1]].
            -- right. exists Fn. split; [exists Fn; split; [exact H1|apply rch_refl]|apply pay_fwd', Hx].
            -- left. apply H1, Hx.
          * pose proof (afrom_fwd m Hfm Hm) as Hfm'. destruct (pay_copy' m He) as [H1|[_ H1]].
            -- right. exists Fn. split; [|apply pay_fwd', Hx]. destruct Hfm' as (a & Ha & Hr). exists a.
               split; [exact Ha|eapply rch_snoc; eassumption].
            -- right. exists m. split; [exact Hfm'|apply H1, Hx].
        + right. exists n. split; [apply (afrom_fwd n Hn Nn)|apply pay_fwd', Hx].
      - intros [H|(n & Hn & Hx)].
        + destruct (P0_bwd x H) as [H1|[H1 H2]]; [left; exact H1|]. right. exists Fn. split; [|exact H2].
          exists Fn. split; [exact H1|apply rch_refl].
        + pose proof (afrom_bwd n Hn) as Hn0. destruct (pay_bwd' n x Hx) as [H1|[H1 H2]].
          * right. exists n. split; assumption.
          * right. exists Fn. split; [|exact H2]. destruct Hn0 as (a & Ha & Hr). exists a.
            split; [exact Ha|eapply rch_snoc; eassumption].
    Qed.
  End Tot.
End AbsGraph.

(* ------------------------------------------------------------------ depth-first collections (C14_more_proofs.dfs)
   over two bodies, the second with some spreads of Fn replaced by the body of Fn; phi: what is read
   off a collected item *)
Section AbsDfs.
  Context {X K : Type}.
  Variable phi : X -> K.
  Variables body body' : name -> option (list (atom X)).
  Variable Fn : name.
  Let NB := nbody body Fn.

  Inductive ratoms : list (atom X) -> list (atom X) -> Prop :=
  | ra_nil : ratoms [] []
  | ra_field x y l l' : phi x = phi y -> ratoms l l' -> ratoms (AField x :: l) (AField y :: l')
  | ra_spread n l l' : ratoms l l' -> ratoms (ASpread n :: l) (ASpread n :: l')
  | ra_expand l l' : ratoms l l' -> ratoms (ASpread Fn :: l) (NB ++ l').
  Lemma ratoms_app a a' b b' : ratoms a a' -> ratoms b b' -> ratoms (a ++ b) (a' ++ b').
  Proof.
    induction 1; intro Hb; cbn [app]; [exact Hb|constructor; auto|constructor; auto|].
    rewrite <- app_assoc. apply ra_expand. auto.
  Qed.
  Lemma ratoms_flat_map {A} (R : A -> A -> Prop) (g g' : A -> list (atom X)) l l' :
    Forall2 R l l' -> (forall x y, In x l -> R x y -> ratoms (g x) (g' y)) -> ratoms (flat_map g l) (flat_map g' l').
  Proof.
    intros H Hg. induction H as [|x y l l' Hxy _ IH]; cbn [flat_map]; [constructor|].
    apply ratoms_app; [apply Hg; [left; reflexivity|exact Hxy]|]. apply IH. intros a b Ha. apply Hg. right. exact Ha.
  Qed.

  Lemma succs_app (a b : list (atom X)) : succs (a ++ b) = succs a ++ succs b.
  Proof. unfold succs. apply flat_map_app. Qed.
  Lemma afields_app (a b : list (atom X)) : afields (a ++ b) = afields a ++ afields b.
  Proof. unfold afields. apply flat_map_app. Qed.

  Lemma ra_succs_fwd A A' b : ratoms A A' -> In b (succs A) -> b <> Fn -> In b (succs A').
  Proof.
    intros H. induction H as [|x y l l' _ _ IH|n l l' _ IH|l l' _ IH]; intros Hb Hne.
    - exact Hb.
    - apply IH; assumption.
    - destruct Hb as [<-|Hb]; [left; reflexivity|right; apply IH; assumption].
    - destruct Hb as [<-|Hb]; [contradiction Hne; reflexivity|]. rewrite succs_app. apply in_app_iff. right. apply IH; assumption.
  Qed.
  Lemma ra_succs_bwd A A' b : ratoms A A' -> In b (succs A') -> In b (succs A) \/ (In Fn (succs A) /\ In b (succs NB)).
  Proof.
    intros H. induction H as [|x y l l' _ _ IH|n l l' _ IH|l l' _ IH]; intro Hb.
    - destruct Hb.
    - apply IH, Hb.
    - destruct Hb as [<-|Hb]; [left; left; reflexivity|]. destruct (IH Hb) as [H1|[H1 H2]]; [left; right; exact H1|].
      right. split; [right; exact H1|exact H2].
    - rewrite succs_app in Hb. apply in_app_iff in Hb. destruct Hb as [Hb|Hb].
      + right. split; [left; reflexivity|exact Hb].
      + destruct (IH Hb) as [H1|[H1 H2]]; [left; right; exact H1|]. right. split; [right; exact H1|exact H2].
  Qed.
  Lemma ra_copy A A' : ratoms A A' -> In Fn (succs A) -> In Fn (succs A') \/ incl NB A'.
  Proof.
    intros H. induction H as [|x y l l' _ _ IH|n l l' _ IH|l l' _ IH]; intro Hb.
    - destruct Hb.
    - destruct (IH Hb) as [H1|H1]; [left; exact H1|right; intros a Ha; right; apply H1, Ha].
    - destruct Hb as [<-|Hb]; [left; left; reflexivity|].
      destruct (IH Hb) as [H1|H1]; [left; right; exact H1|right; intros a Ha; right; apply H1, Ha].
    - right. intros a Ha. apply in_app_iff. left. exact Ha.
  Qed.
  Lemma ra_fields_fwd A A' k : ratoms A A' -> In k (map phi (afields A)) -> In k (map phi (afields A')).
  Proof.
    intros H. induction H as [|x y l l' Hxy _ IH|n l l' _ IH|l l' _ IH]; intro Hk.
    - exact Hk.
    - destruct Hk as [<-|Hk]; [left; symmetry; exact Hxy|right; apply IH, Hk].
    - apply IH, Hk.
    - rewrite afields_app, map_app. apply in_app_iff. right. apply IH, Hk.
  Qed.
  Lemma ra_fields_bwd A A' k : ratoms A A' -> In k (map phi (afields A')) ->
    In k (map phi (afields A)) \/ (In Fn (succs A) /\ In k (map phi (afields NB))).
  Proof.
    intros H. induction H as [|x y l l' Hxy _ IH|n l l' _ IH|l l' _ IH]; intro Hk.
    - destruct Hk.
    - destruct Hk as [<-|Hk]; [left; left; exact Hxy|]. destruct (IH Hk) as [H1|H1]; [left; right; exact H1|right; exact H1].
    - destruct (IH Hk) as [H1|[H1 H2]]; [left; exact H1|right; split; [right; exact H1|exact H2]].
    - rewrite afields_app, map_app in Hk. apply in_app_iff in Hk. destruct Hk as [Hk|Hk].
      + right. split; [left; reflexivity|exact Hk].
      + destruct (IH Hk) as [H1|[H1 H2]]; [left; exact H1|right; split; [right; exact H1|exact H2]].
  Qed.
  Lemma incl_succs (a b : list (atom X)) : incl a b -> incl (succs a) (succs b).
  Proof. intros H n Hn. unfold succs in *. apply in_flat_map in Hn. destruct Hn as (x & Hx & Hn). apply in_flat_map. exists x. split; [apply H, Hx|exact Hn]. Qed.
  Lemma incl_fields (a b : list (atom X)) : incl a b -> incl (map phi (afields a)) (map phi (afields b)).
  Proof.
    intros H k Hk. apply in_map_iff in Hk. destruct Hk as (x & <- & Hx). apply in_map. unfold afields in *.
    apply in_flat_map in Hx. destruct Hx as (w & Hw & Hx). apply in_flat_map. exists w. split; [apply H, Hw|exact Hx].
  Qed.

  Hypothesis Hbody : forall n, ratoms (nbody body n) (nbody body' n).
  Hypothesis HbodyF : nbody body' Fn = NB.
  Hypothesis Hself : ~ In Fn (succs NB).
  Variables U U' : list name.
  Hypothesis HU : forall n b, body n = Some b -> In n U.
  Hypothesis HU' : forall n b, body' n = Some b -> In n U'.

  Definition Eb (bd : name -> option (list (atom X))) (a b : name) : Prop := In b (nsucc bd a).

  Lemma reach_afrom bd L m : reach bd [] L m <-> afrom (Eb bd) L m.
  Proof.
    split.
    - induction 1 as [L n Hn _|L n m Hn _ _ IH].
      + exists n. split; [exact Hn|apply rch_refl].
      + destruct IH as (a & Ha & Hr). exists n. split; [exact Hn|]. eapply rch_step; [exact Ha|exact Hr].
    - intros (a & Ha & Hr). revert L Ha. induction Hr as [a|a b c Hab _ IH]; intros L Ha.
      + apply reach_here; [exact Ha|reflexivity].
      + eapply reach_step; [exact Ha|reflexivity|]. apply IH. exact Hab.
  Qed.

  Theorem dfs_keys fuel fuel' A A' :
    unvisited U [] < fuel -> unvisited U' [] < fuel' -> ratoms A A' ->
    forall k, In k (map phi (fst (dfs body fuel A []))) <-> In k (map phi (fst (dfs body' fuel' A' []))).
  Proof.
    intros Hf Hf' HA k.
    destruct (dfs_spec body U HU fuel A [] Hf) as (news & _ & _ & _ & Hreach & Hitems).
    destruct (dfs_spec body' U' HU' fuel' A' [] Hf') as (news' & _ & _ & _ & Hreach' & Hitems').
    assert (Hk : forall (bd : name -> option (list (atom X))) res B nw,
               Permutation res (afields B ++ flat_map (fun n => afields (nbody bd n)) nw) ->
               (forall m, In m nw <-> reach bd [] (succs B) m) ->
               (In k (map phi res) <->
                (In k (map phi (afields B)) \/ exists n, afrom (Eb bd) (succs B) n /\ In k (map phi (afields (nbody bd n)))))).
    { intros bd res B nw Hp Hr. rewrite (in_map_iff phi res). split.
      - intros (x & <- & Hx). eapply Permutation_in in Hx; [|exact Hp]. apply in_app_iff in Hx. destruct Hx as [Hx|Hx].
        + left. apply in_map, Hx.
        + right. apply in_flat_map in Hx. destruct Hx as (n & Hn & Hx). exists n.
          split; [apply reach_afrom, Hr, Hn|apply in_map, Hx].
      - intros [Hx|(n & Hn & Hx)]; apply in_map_iff in Hx; destruct Hx as (x & <- & Hx); exists x; (split; [reflexivity|]);
          (eapply Permutation_in; [apply Permutation_sym, Hp|]); apply in_app_iff.
        + left. exact Hx.
        + right. apply in_flat_map. exists n. split; [apply Hr, reach_afrom, Hn|exact Hx]. }
    rewrite (Hk body _ A news Hitems Hreach), (Hk body' _ A' news' Hitems' Hreach').
    apply (atotal_iff (Eb body) (Eb body') Fn).
    - intros a b Hab Hne. unfold Eb, nsucc in *. apply (ra_succs_fwd _ _ b (Hbody a) Hab Hne).
    - intros a b Hab. unfold Eb, nsucc in *. apply (ra_succs_bwd _ _ b (Hbody a) Hab).
    - intros a Ha. unfold Eb, nsucc in *. destruct (ra_copy _ _ (Hbody a) Ha) as [H|H]; [left; exact H|right].
      intros b Hb. apply (incl_succs _ _ H), Hb.
    - exact Hself.
    - intros b Hb Hne. apply (ra_succs_fwd _ _ b HA Hb Hne).
    - intros b Hb. apply (ra_succs_bwd _ _ b HA Hb).
    - intro Hb. destruct (ra_copy _ _ HA Hb) as [H|H]; [left; exact H|right]. split.
      + intros b Hb'. apply (incl_succs _ _ H), Hb'.
      + intros x Hx. apply (incl_fields _ _ H), Hx.
    - intros x Hx. apply (ra_fields_fwd _ _ x HA Hx).
    - intros x Hx. apply (ra_fields_bwd _ _ x HA Hx).
    - intros n x Hx. apply (ra_fields_fwd _ _ x (Hbody n) Hx).
    - intros n x Hx. apply (ra_fields_bwd _ _ x (Hbody n) Hx).
    - intros n Hn. unfold Eb, nsucc in *. destruct (ra_copy _ _ (Hbody n) Hn) as [H|H]; [left; exact H|right]. split.
      + intros b Hb. apply (incl_succs _ _ H), Hb.
      + intros x Hx. apply (incl_fields _ _ H), Hx.
  Qed.
End AbsDfs.

(* ------------------------------------------------------------------ the same with a relation between what is
   collected on the two sides *)
Section AbsGraphR.
  Variables (E E' : name -> name -> Prop) (Fn : name).
  Hypothesis E_fwd : forall a b, E a b -> b <> Fn -> E' a b.
  Hypothesis E_bwd : forall a b, E' a b -> E a b \/ (E a Fn /\ E Fn b).
  Hypothesis E_copy : forall a, E a Fn -> E' a Fn \/ (forall b, E Fn b -> E' a b).
  Hypothesis E_noself : ~ E Fn Fn.
  Context {X Y : Type}.
  Variable RX : X -> Y -> Prop.
  Variables (P0 : list X) (P0' : list Y) (L L' : list name) (pay : name -> list X) (pay' : name -> list Y).
  Hypothesis L_fwd : forall b, In b L -> b <> Fn -> In b L'.
  Hypothesis L_bwd : forall b, In b L' -> In b L \/ (In Fn L /\ E Fn b).
  Hypothesis L_copy : In Fn L -> In Fn L' \/ ((forall b, E Fn b -> In b L') /\ (forall x, In x (pay Fn) -> exists y, In y P0' /\ RX x y)).
  Hypothesis P0_fwd : forall x, In x P0 -> exists y, In y P0' /\ RX x y.
  Hypothesis P0_bwd : forall y, In y P0' -> (exists x, In x P0 /\ RX x y) \/ (In Fn L /\ exists x, In x (pay Fn) /\ RX x y).
  Hypothesis pay_fwd' : forall n x, In x (pay n) -> exists y, In y (pay' n) /\ RX x y.
  Hypothesis pay_bwd' : forall n y, In y (pay' n) -> (exists x, In x (pay n) /\ RX x y) \/ (E n Fn /\ exists x, In x (pay Fn) /\ RX x y).
  Hypothesis pay_copy' : forall n, E n Fn ->
    E' n Fn \/ ((forall b, E Fn b -> E' n b) /\ (forall x, In x (pay Fn) -> exists y, In y (pay' n) /\ RX x y)).

  Lemma afrom_fwdR x : afrom E L x -> x <> Fn -> afrom E' L' x.
  Proof.
    intros (a & Ha & Hr) Hx. destruct (string_dec a Fn) as [Ea|Na].
    - subst a. inversion Hr as [|? c ? Hc Hp]; subst; [contradiction Hx; reflexivity|].
      destruct (L_copy Ha) as [H|[H _]].
      + exists Fn. split; [exact H|apply (rch_fwd E E' Fn E_fwd E_copy); assumption].
      + exists c. split; [apply H, Hc|apply (rch_fwd E E' Fn E_fwd E_copy); assumption].
    - exists a. split; [apply L_fwd; assumption|apply (rch_fwd E E' Fn E_fwd E_copy); assumption].
  Qed.

  Lemma atotal_fwd x : (In x P0 \/ exists n, afrom E L n /\ In x (pay n)) ->
    exists y, RX x y /\ (In y P0' \/ exists n, afrom E' L' n /\ In y (pay' n)).
  Proof.
    intros [H|(n & Hn & Hx)].
    - destruct (P0_fwd x H) as (y & Hy & Hr). exists y. split; [exact Hr|left; exact Hy].
    - destruct (string_dec n Fn) as [En|Nn].
      + subst n. destruct (afrom_F E Fn E_noself L Hn) as [HL|(m & Hm & Hfm & He)].
        * destruct (L_copy HL) as [H1|[_ H1]].
          -- destruct (pay_fwd' Fn x Hx) as (y & Hy & Hr). exists y. split; [exact Hr|right]. exists Fn.
             split; [exists Fn; split; [exact H1|apply rch_refl]|exact Hy].
          -- destruct (H1 x Hx) as (y & Hy & Hr). exists y. split; [exact Hr|left; exact Hy].
        * pose proof (afrom_fwdR m Hfm Hm) as Hfm'.
          destruct (pay_copy' m He) as [H1|[_ H1]].
          -- destruct (pay_fwd' Fn x Hx) as (y & Hy & Hr). exists y. split; [exact Hr|right]. exists Fn. split; [|exact Hy].
             destruct Hfm' as (a & Ha & Hra). exists a. split; [exact Ha|eapply rch_snoc; eassumption].
          -- destruct (H1 x Hx) as (y & Hy & Hr). exists y. split; [exact Hr|right]. exists m. split; assumption.
      + destruct (pay_fwd' n x Hx) as (y & Hy & Hr). exists y. split; [exact Hr|right]. exists n. split; [|exact Hy].
        apply (afrom_fwdR n Hn Nn).
  Qed.
  Lemma atotal_bwd y : (In y P0' \/ exists n, afrom E' L' n /\ In y (pay' n)) ->
    exists x, RX x y /\ (In x P0 \/ exists n, afrom E L n /\ In x (pay n)).
  Proof.
    intros [H|(n & Hn & Hy)].
    - destruct (P0_bwd y H) as [(x & Hx & Hr)|[H1 (x & Hx & Hr)]]; exists x; (split; [exact Hr|]); [left; exact Hx|right].
      exists Fn. split; [exists Fn; split; [exact H1|apply rch_refl]|exact Hx].
    - pose proof (afrom_bwd E E' Fn E_bwd L L' L_bwd n Hn) as Hn0.
      destruct (pay_bwd' n y Hy) as [(x & Hx & Hr)|[H1 (x & Hx & Hr)]]; exists x; (split; [exact Hr|right]).
      + exists n. split; assumption.
      + exists Fn. split; [|exact Hx]. destruct Hn0 as (a & Ha & Hra). exists a. split; [exact Ha|eapply rch_snoc; eassumption].
  Qed.
End AbsGraphR.

Section AbsDfsR.
  Context {X : Type}.
  Variable RX : X -> X -> Prop.
  Variables body body' : name -> option (list (atom X)).
  Variable Fn : name.
  Let NB := nbody body Fn.

  Inductive ratomsR : list (atom X) -> list (atom X) -> Prop :=
  | rr_nil : ratomsR [] []
  | rr_field x y l l' : RX x y -> ratomsR l l' -> ratomsR (AField x :: l) (AField y :: l')
  | rr_spread n l l' : ratomsR l l' -> ratomsR (ASpread n :: l) (ASpread n :: l')
  | rr_expand l l' : ratomsR l l' -> ratomsR (ASpread Fn :: l) (NB ++ l').
  Lemma ratomsR_app a a' b b' : ratomsR a a' -> ratomsR b b' -> ratomsR (a ++ b) (a' ++ b').
  Proof.
    induction 1; intro Hb; cbn [app]; [exact Hb|constructor; auto|constructor; auto|].
    rewrite <- app_assoc. apply rr_expand. auto.
  Qed.
  Lemma ratomsR_flat_map {A} (R : A -> A -> Prop) (g g' : A -> list (atom X)) l l' :
    Forall2 R l l' -> (forall x y, In x l -> R x y -> ratomsR (g x) (g' y)) -> ratomsR (flat_map g l) (flat_map g' l').
  Proof.
    intros H Hg. induction H as [|x y l l' Hxy _ IH]; cbn [flat_map]; [constructor|].
    apply ratomsR_app; [apply Hg; [left; reflexivity|exact Hxy]|]. apply IH. intros a b Ha. apply Hg. right. exact Ha.
  Qed.

  Hypothesis RX_refl : forall x, In x (afields NB) -> RX x x.

  Lemma rr_succs_fwd A A' b : ratomsR A A' -> In b (succs A) -> b <> Fn -> In b (succs A').
  Proof.
    intros H. induction H as [|x y l l' _ _ IH|n l l' _ IH|l l' _ IH]; intros Hb Hne.
    - exact Hb.
    - apply IH; assumption.
    - destruct Hb as [<-|Hb]; [left; reflexivity|right; apply IH; assumption].
    - destruct Hb as [<-|Hb]; [contradiction Hne; reflexivity|]. rewrite succs_app. apply in_app_iff. right. apply IH; assumption.
  Qed.
  Lemma rr_succs_bwd A A' b : ratomsR A A' -> In b (succs A') -> In b (succs A) \/ (In Fn (succs A) /\ In b (succs NB)).
  Proof.
    intros H. induction H as [|x y l l' _ _ IH|n l l' _ IH|l l' _ IH]; intro Hb.
    - destruct Hb.
    - apply IH, Hb.
    - destruct Hb as [<-|Hb]; [left; left; reflexivity|]. destruct (IH Hb) as [H1|[H1 H2]]; [left; right; exact H1|].
      right. split; [right; exact H1|exact H2].
    - rewrite succs_app in Hb. apply in_app_iff in Hb. destruct Hb as [Hb|Hb].
      + right. split; [left; reflexivity|exact Hb].
      + destruct (IH Hb) as [H1|[H1 H2]]; [left; right; exact H1|]. right. split; [right; exact H1|exact H2].
  Qed.
  Lemma rr_copy A A' : ratomsR A A' -> In Fn (succs A) -> In Fn (succs A') \/ incl NB A'.
  Proof.
    intros H. induction H as [|x y l l' _ _ IH|n l l' _ IH|l l' _ IH]; intro Hb.
    - destruct Hb.
    - destruct (IH Hb) as [H1|H1]; [left; exact H1|right; intros a Ha; right; apply H1, Ha].
    - destruct Hb as [<-|Hb]; [left; left; reflexivity|].
      destruct (IH Hb) as [H1|H1]; [left; right; exact H1|right; intros a Ha; right; apply H1, Ha].
    - right. intros a Ha. apply in_app_iff. left. exact Ha.
  Qed.
  Lemma rr_fields_fwd A A' x : ratomsR A A' -> In x (afields A) -> exists y, In y (afields A') /\ RX x y.
  Proof.
    intros H. induction H as [|x0 y0 l l' Hxy _ IH|n l l' _ IH|l l' _ IH]; intro Hk.
    - destruct Hk.
    - destruct Hk as [<-|Hk]; [exists y0; split; [left; reflexivity|exact Hxy]|].
      destruct (IH Hk) as (y & Hy & Hr). exists y. split; [right; exact Hy|exact Hr].
    - apply IH, Hk.
    - destruct (IH Hk) as (y & Hy & Hr). exists y. split; [|exact Hr]. rewrite afields_app. apply in_app_iff. right. exact Hy.
  Qed.
  Lemma rr_fields_bwd A A' y : ratomsR A A' -> In y (afields A') ->
    (exists x, In x (afields A) /\ RX x y) \/ (In Fn (succs A) /\ exists x, In x (afields NB) /\ RX x y).
  Proof.
    intros H. induction H as [|x0 y0 l l' Hxy _ IH|n l l' _ IH|l l' _ IH]; intro Hk.
    - destruct Hk.
    - destruct Hk as [<-|Hk]; [left; exists x0; split; [left; reflexivity|exact Hxy]|].
      destruct (IH Hk) as [(x & Hx & Hr)|H1]; [left; exists x; split; [right; exact Hx|exact Hr]|right; exact H1].
    - destruct (IH Hk) as [H1|[H1 H2]]; [left; exact H1|right; split; [right; exact H1|exact H2]].
    - rewrite afields_app in Hk. apply in_app_iff in Hk. destruct Hk as [Hk|Hk].
      + right. split; [left; reflexivity|]. exists y. split; [exact Hk|apply RX_refl, Hk].
      + destruct (IH Hk) as [H1|[H1 H2]]; [left; exact H1|right; split; [right; exact H1|exact H2]].
  Qed.
  Lemma incl_afields (a b : list (atom X)) : incl a b -> incl (afields a) (afields b).
  Proof.
    intros H x Hx. unfold afields in *. apply in_flat_map in Hx. destruct Hx as (w & Hw & Hx).
    apply in_flat_map. exists w. split; [apply H, Hw|exact Hx].
  Qed.

  Hypothesis Hbody : forall n, ratomsR (nbody body n) (nbody body' n).
  Hypothesis Hself : ~ In Fn (succs NB).
  Variables U U' : list name.
  Hypothesis HU : forall n b, body n = Some b -> In n U.
  Hypothesis HU' : forall n b, body' n = Some b -> In n U'.

  Theorem dfs_cover fuel fuel' A A' :
    unvisited U [] < fuel -> unvisited U' [] < fuel' -> ratomsR A A' ->
    (forall x, In x (fst (dfs body fuel A [])) -> exists y, In y (fst (dfs body' fuel' A' [])) /\ RX x y) /\
    (forall y, In y (fst (dfs body' fuel' A' [])) -> exists x, In x (fst (dfs body fuel A [])) /\ RX x y).
  Proof.
    intros Hf Hf' HA.
    destruct (dfs_spec body U HU fuel A [] Hf) as (news & _ & _ & _ & Hreach & Hitems).
    destruct (dfs_spec body' U' HU' fuel' A' [] Hf') as (news' & _ & _ & _ & Hreach' & Hitems').
    assert (Hk : forall (bd : name -> option (list (atom X))) res B nw,
               Permutation res (afields B ++ flat_map (fun n => afields (nbody bd n)) nw) ->
               (forall m, In m nw <-> reach bd [] (succs B) m) ->
               forall z, In z res <-> (In z (afields B) \/ exists n, afrom (Eb bd) (succs B) n /\ In z (afields (nbody bd n)))).
    { intros bd res B nw Hp Hr z. split.
      - intro Hz. eapply Permutation_in in Hz; [|exact Hp]. apply in_app_iff in Hz. destruct Hz as [Hz|Hz]; [left; exact Hz|right].
        apply in_flat_map in Hz. destruct Hz as (n & Hn & Hz). exists n. split; [apply reach_afrom, Hr, Hn|exact Hz].
      - intro Hz. eapply Permutation_in; [apply Permutation_sym, Hp|]. apply in_app_iff. destruct Hz as [Hz|(n & Hn & Hz)]; [left; exact Hz|right].
        apply in_flat_map. exists n. split; [apply Hr, reach_afrom, Hn|exact Hz]. }
    assert (E1 : forall a b, Eb body a b -> b <> Fn -> Eb body' a b).
    { intros a b Hab Hne. unfold Eb, nsucc in *. apply (rr_succs_fwd _ _ b (Hbody a) Hab Hne). }
    assert (E2 : forall a b, Eb body' a b -> Eb body a b \/ (Eb body a Fn /\ Eb body Fn b)).
    { intros a b Hab. unfold Eb, nsucc in *. apply (rr_succs_bwd _ _ b (Hbody a) Hab). }
    assert (E3 : forall a, Eb body a Fn -> Eb body' a Fn \/ (forall b, Eb body Fn b -> Eb body' a b)).
    { intros a Ha. unfold Eb, nsucc in *. destruct (rr_copy _ _ (Hbody a) Ha) as [H|H]; [left; exact H|right].
      intros b Hb. apply (incl_succs _ _ H), Hb. }
    assert (L3 : In Fn (succs A) -> In Fn (succs A') \/
                 ((forall b, Eb body Fn b -> In b (succs A')) /\
                  (forall x, In x (afields (nbody body Fn)) -> exists y, In y (afields A') /\ RX x y))).
    { intro Hb. destruct (rr_copy _ _ HA Hb) as [H|H]; [left; exact H|right]. split.
      - intros b Hb'. apply (incl_succs _ _ H), Hb'.
      - intros x Hx. exists x. split; [apply (incl_afields _ _ H), Hx|apply RX_refl, Hx]. }
    assert (P3 : forall n, Eb body n Fn -> Eb body' n Fn \/
                 ((forall b, Eb body Fn b -> Eb body' n b) /\
                  (forall x, In x (afields (nbody body Fn)) -> exists y, In y (afields (nbody body' n)) /\ RX x y))).
    { intros n Hn. unfold Eb, nsucc in *. destruct (rr_copy _ _ (Hbody n) Hn) as [H|H]; [left; exact H|right]. split.
      - intros b Hb. apply (incl_succs _ _ H), Hb.
      - intros x Hx. exists x. split; [apply (incl_afields _ _ H), Hx|apply RX_refl, Hx]. }
    assert (L1 : forall b, In b (succs A) -> b <> Fn -> In b (succs A')) by (intro b; apply rr_succs_fwd, HA).
    assert (L2 : forall b, In b (succs A') -> In b (succs A) \/ (In Fn (succs A) /\ Eb body Fn b))
      by (intro b; apply rr_succs_bwd, HA).
    assert (F1 : forall x, In x (afields A) -> exists y, In y (afields A') /\ RX x y) by (intro x; apply rr_fields_fwd, HA).
    assert (F2 : forall y, In y (afields A') -> (exists x, In x (afields A) /\ RX x y) \/
                                               (In Fn (succs A) /\ exists x, In x (afields (nbody body Fn)) /\ RX x y))
      by (intro y; apply rr_fields_bwd, HA).
    assert (PF : forall n x, In x (afields (nbody body n)) -> exists y, In y (afields (nbody body' n)) /\ RX x y)
      by (intros n x; apply rr_fields_fwd, Hbody).
    assert (PB : forall n y, In y (afields (nbody body' n)) -> (exists x, In x (afields (nbody body n)) /\ RX x y) \/
                             (Eb body n Fn /\ exists x, In x (afields (nbody body Fn)) /\ RX x y))
      by (intros n y; apply rr_fields_bwd, Hbody).
    split.
    - intros x Hx. apply (Hk body _ A news Hitems Hreach) in Hx.
      assert (G : exists y, RX x y /\ (In y (afields A') \/ exists n, afrom (Eb body') (succs A') n /\ In y (afields (nbody body' n)))).
      { eapply (atotal_fwd (Eb body) (Eb body') Fn) with (pay := fun n => afields (nbody body n)) (L := succs A) (P0 := afields A);
          first [exact E1|exact E2|exact E3|exact Hself|exact L1|exact L2|exact L3|exact F1|exact F2|exact PF|exact PB|exact P3|exact Hx]. }
      destruct G as (y & Hr & Hy). exists y. split; [apply (Hk body' _ A' news' Hitems' Hreach'), Hy|exact Hr].
    - intros y Hy. apply (Hk body' _ A' news' Hitems' Hreach') in Hy.
      assert (G : exists x, RX x y /\ (In x (afields A) \/ exists n, afrom (Eb body) (succs A) n /\ In x (afields (nbody body n)))).
      { eapply (atotal_bwd (Eb body) (Eb body') Fn) with (pay' := fun n => afields (nbody body' n)) (L' := succs A') (P0' := afields A');
          first [exact E1|exact E2|exact E3|exact Hself|exact L1|exact L2|exact L3|exact F1|exact F2|exact PF|exact PB|exact P3|exact Hy]. }
      destruct G as (x & Hr & Hx). exists x. split; [apply (Hk body _ A news Hitems Hreach), Hx|exact Hr].
  Qed.
End AbsDfsR.

(* ------------------------------------------------------------------ the document *)
Section Doc.
  Variable F : fragment_def.
  Variables (d d' : document).
  Hypothesis Hd : inline_doc F d d'.
  Hypothesis HF : In F (fragments_of d).
  Hypothesis Hone : forall f, In f (fragments_of d) -> fr_name f = fr_name F -> f = F.
  Hypothesis Hself : ~ C06_graph_proofs.cyc d (fr_name F).
  Notation Fn := (fr_name F).
  Notation edge := C06_graph_proofs.edge.
  Notation reach := C06_graph_proofs.reach.
  Notation path := C06_graph_proofs.path.

  Lemma frag_names_inl : frag_names d = frag_names d'.
  Proof.
    unfold frag_names. apply (Forall2_map_eq (ifrag F)); [apply idoc_frags, Hd|].
    intros f f' H. apply (ifrag_fields _ _ _ H).
  Qed.
  Lemma frags_length_inl : List.length (fragments_of d) = List.length (fragments_of d').
  Proof. eapply F2_length, idoc_frags, Hd. Qed.
  Lemma find_fragment_inl n : orel (ifrag F) (find_fragment d n) (find_fragment d' n).
  Proof.
    unfold find_fragment. pose proof (Forall2_rev' _ _ _ (idoc_frags F _ _ Hd)) as H.
    induction H as [|f f' l l' Hf _ IH]; cbn [find_first]; [constructor|].
    destruct (ifrag_fields _ _ _ Hf) as (_ & Hn & _). rewrite <- Hn.
    destruct (name_eqb (fr_name f) n); [constructor; exact Hf|exact IH].
  Qed.
  Lemma find_fragment_F : find_fragment d Fn = Some F.
  Proof.
    unfold find_fragment. destruct (find_first (fun f => name_eqb (fr_name f) Fn) (rev (fragments_of d))) as [f|] eqn:E.
    - apply find_first_some_in in E. destruct E as [Hin Hn]. apply name_eqb_eq in Hn. apply in_rev in Hin.
      rewrite (Hone f Hin Hn). reflexivity.
    - rewrite find_first_none_iff in E. specialize (E F (proj1 (in_rev _ _) HF)). rewrite name_eqb_refl in E. discriminate.
  Qed.

  Lemma edge_F b : edge d Fn b <-> In b (spreads_in (fr_sels F)).
  Proof.
    unfold C06_graph_proofs.edge. rewrite in_fragment_spreads. split.
    - intros (f & Hf & Hn & Hb). rewrite (Hone f Hf Hn) in Hb. exact Hb.
    - intro Hb. exists F. repeat split; assumption.
  Qed.
  Lemma no_self_edge : ~ edge d Fn Fn.
  Proof. intro H. apply Hself. exists Fn. split; [exact H|apply C06_graph_proofs.reach_refl]. Qed.
  Lemma no_self_spread : ~ In Fn (spreads_in (fr_sels F)).
  Proof. intro H. apply no_self_edge, edge_F, H. Qed.

  (* the definition of F is unchanged *)
  Lemma spreads_child x c n : In c (sel_sels x) -> In n (spreads_in [c]) -> In n (spreads_in [x]).
  Proof.
    intros Hc Hn. unfold spreads_in, sels_all in *. cbn [flat_map] in *. rewrite app_nil_r in *.
    apply in_flat_map in Hn. destruct Hn as (w & Hw & Hn). apply in_flat_map. exists w. split; [|exact Hn].
    rewrite sel_all_sub. right. apply in_sels_all. exists c. split; assumption.
  Qed.
  Lemma F2_eq_in {A} (R : A -> A -> Prop) l l' :
    Forall2 R l l' -> (forall x y, In x l -> R x y -> y = x) -> l' = l.
  Proof.
    induction 1 as [|x y l l' Hxy _ IH]; intro H; [reflexivity|]. f_equal.
    - apply H; [left; reflexivity|exact Hxy].
    - apply IH. intros a b Ha. apply H. right. exact Ha.
  Qed.
  Lemma isel_noF x : forall y, isel F x y -> ~ In Fn (spreads_in [x]) -> y = x.
  Proof.
    induction x as [p al n args dirs sp sels IH|p n dirs|p tc dirs sp sels IH] using selection_ind';
      intros y Hxy Hno; inversion Hxy as [? ? ? ? ? ? ? sels' Hs|? ? ?|? ? ? ? ? sels' Hs|? p']; subst; try reflexivity.
    - f_equal. apply (F2_eq_in _ _ _ Hs). intros c c' Hc Hcc. rewrite Forall_forall in IH. apply (IH c Hc c' Hcc).
      intro H. apply Hno. eapply spreads_child; [|exact H]. exact Hc.
    - exfalso. apply Hno. left. reflexivity.
    - f_equal. apply (F2_eq_in _ _ _ Hs). intros c c' Hc Hcc. rewrite Forall_forall in IH. apply (IH c Hc c' Hcc).
      intro H. apply Hno. eapply spreads_child; [|exact H]. exact Hc.
  Qed.
  Lemma isels_noF l l' : isels F l l' -> ~ In Fn (spreads_in l) -> l' = l.
  Proof.
    intros H Hno. apply (F2_eq_in _ _ _ H). intros x y Hx Hxy. apply (isel_noF x y Hxy).
    intro Hn. apply Hno. apply (spreads_in_one l x Hx), Hn.
  Qed.
  Lemma ifrag_F f' : ifrag F F f' -> f' = F.
  Proof.
    intro Hff. destruct (ifrag_fields _ _ _ Hff) as (Hp & Hn & Htc & Hdi & Hsp & Hs).
    apply isels_noF in Hs; [|exact no_self_spread].
    destruct f' as [p n tc dirs sp sels]. cbn in *. subst. destruct F. reflexivity.
  Qed.
  Lemma F_in_d' : In F (fragments_of d').
  Proof.
    destruct (F2_in_l _ _ _ F (idoc_frags F _ _ Hd) HF) as (f' & Hf' & Hff).
    rewrite (ifrag_F f' Hff) in Hf'. exact Hf'.
  Qed.
  Lemma Hone' : forall f, In f (fragments_of d') -> fr_name f = Fn -> f = F.
  Proof.
    intros f' Hf' Hn. destruct (F2_in_r _ _ _ f' (idoc_frags F _ _ Hd) Hf') as (f & Hf & Hff).
    destruct (ifrag_fields _ _ _ Hff) as (_ & Hname & _). rewrite <- Hname in Hn. pose proof (Hone f Hf Hn) as E. subst f.
    apply ifrag_F, Hff.
  Qed.
  (* ---------------------------------------------------------------- the spread graph *)
  Definition g_spread (x : selection) : list name := match x with SSpread _ n _ => [n] | _ => [] end.
  Lemma g_spread_same u v : same_head u v -> g_spread u = g_spread v.
  Proof. destruct u, v; cbn; try contradiction; try reflexivity. intros (_ & -> & _). reflexivity. Qed.
  Lemma g_spread_copy u v : expands F u v -> g_spread v = [].
  Proof. intros (p & p' & -> & ->). reflexivity. Qed.

  (* for related selection lists *)
  Lemma spreads_fwd l l' b : isels F l l' -> In b (spreads_in l) -> b <> Fn -> In b (spreads_in l').
  Proof.
    intros H Hb Hne. destruct (pay_fwd F g_spread g_spread_same l l' b H Hb) as [H1|(u & v & (p & p' & -> & ->) & Hx)].
    - exact H1.
    - destruct Hx as [<-|[]]. contradiction Hne; reflexivity.
  Qed.
  Lemma spreads_bwd l l' b : isels F l l' -> In b (spreads_in l') ->
    In b (spreads_in l) \/ (In Fn (spreads_in l) /\ edge d Fn b).
  Proof.
    intros H Hb. destruct (pay_bwd F g_spread g_spread_same g_spread_copy l l' b H Hb) as [H1|[H1 H2]].
    - left. exact H1.
    - right. split; [exact H1|apply edge_F, H2].
  Qed.
  Lemma spreads_copy l l' : isels F l l' -> In Fn (spreads_in l) ->
    In Fn (spreads_in l') \/ (incl (sels_all (fr_sels F)) (sels_all l') /\ forall b, edge d Fn b -> In b (spreads_in l')).
  Proof.
    intros H Hin. destruct (spread_or_copy F l l' H Hin) as [H1|H1]; [left; exact H1|right].
    split; [exact H1|]. intros b Hb. apply edge_F in Hb. unfold spreads_in in *. apply in_flat_map in Hb.
    destruct Hb as (w & Hw & Hb). apply in_flat_map. exists w. split; [apply H1, Hw|exact Hb].
  Qed.

  Lemma edge_fwd a b : edge d a b -> b <> Fn -> edge d' a b.
  Proof.
    unfold C06_graph_proofs.edge. rewrite !in_fragment_spreads. intros (f & Hf & Hn & Hb) Hne.
    destruct (F2_in_l _ _ _ f (idoc_frags F _ _ Hd) Hf) as (f' & Hf' & Hff).
    destruct (ifrag_fields _ _ _ Hff) as (_ & Hname & _ & _ & _ & Hs).
    exists f'. split; [exact Hf'|]. split; [rewrite <- Hname; exact Hn|]. apply (spreads_fwd _ _ b Hs Hb Hne).
  Qed.
  Lemma edge_bwd a b : edge d' a b -> edge d a b \/ (edge d a Fn /\ edge d Fn b).
  Proof.
    unfold C06_graph_proofs.edge at 1 2 3. rewrite !in_fragment_spreads. intros (f' & Hf' & Hn & Hb).
    destruct (F2_in_r _ _ _ f' (idoc_frags F _ _ Hd) Hf') as (f & Hf & Hff).
    destruct (ifrag_fields _ _ _ Hff) as (_ & Hname & _ & _ & _ & Hs).
    destruct (spreads_bwd _ _ b Hs Hb) as [H1|[H1 H2]].
    - left. exists f. split; [exact Hf|]. split; [rewrite Hname; exact Hn|exact H1].
    - right. split; [|exact H2]. exists f. split; [exact Hf|]. split; [rewrite Hname; exact Hn|exact H1].
  Qed.
  Lemma edge_F' b : edge d' Fn b <-> edge d Fn b.
  Proof.
    rewrite edge_F. unfold C06_graph_proofs.edge. rewrite in_fragment_spreads. split.
    - intros (f & Hf & Hn & Hb). rewrite (Hone' f Hf Hn) in Hb. exact Hb.
    - intro Hb. exists F. split; [apply F_in_d'|]. split; [reflexivity|exact Hb].
  Qed.
  Lemma edge_copy a : edge d a Fn -> edge d' a Fn \/ (forall b, edge d Fn b -> edge d' a b).
  Proof.
    unfold C06_graph_proofs.edge at 1. rewrite in_fragment_spreads. intros (f & Hf & Hn & Hb).
    destruct (F2_in_l _ _ _ f (idoc_frags F _ _ Hd) Hf) as (f' & Hf' & Hff).
    destruct (ifrag_fields _ _ _ Hff) as (_ & Hname & _ & _ & _ & Hs).
    destruct (spreads_copy _ _ Hs Hb) as [H1|[_ H1]].
    - left. apply in_fragment_spreads. exists f'. split; [exact Hf'|]. split; [rewrite <- Hname; exact Hn|exact H1].
    - right. intros b Hb'. apply in_fragment_spreads. exists f'. split; [exact Hf'|]. split; [rewrite <- Hname; exact Hn|apply H1, Hb'].
  Qed.

  Lemma reach_bwd a x : reach d' a x -> reach d a x.
  Proof.
    intros [l Hl]. induction Hl as [a|a b l x Hab _ IH]; [apply C06_graph_proofs.reach_refl|].
    destruct (edge_bwd a b Hab) as [H|[H1 H2]].
    - eapply C06_graph_proofs.reach_step; [exact H|exact IH].
    - eapply C06_graph_proofs.reach_step; [exact H1|]. eapply C06_graph_proofs.reach_step; [exact H2|exact IH].
  Qed.
  Lemma path_fwd a l x : path d a l x -> x <> Fn ->
    reach d' a x /\ (a = Fn -> forall a0, edge d a0 Fn -> reach d' a0 x).
  Proof.
    intros Hp Hx. induction Hp as [a|a b l x Hab _ IH].
    - split; [apply C06_graph_proofs.reach_refl|]. intro E. contradiction.
    - destruct (IH Hx) as [IH1 IH2].
      assert (R1 : reach d' a x).
      { destruct (string_dec b Fn) as [Eb|Nb].
        - apply (IH2 Eb a). rewrite <- Eb. exact Hab.
        - eapply C06_graph_proofs.reach_step; [apply edge_fwd; [exact Hab|exact Nb]|exact IH1]. }
      split; [exact R1|]. intros Ea a0 Ha0. subst a.
      destruct (edge_copy a0 Ha0) as [H|H].
      + eapply C06_graph_proofs.reach_step; [exact H|exact R1].
      + eapply C06_graph_proofs.reach_step; [apply H, Hab|exact IH1].
  Qed.
  Lemma reach_fwd a x : reach d a x -> x <> Fn -> reach d' a x.
  Proof. intros [l Hl] Hx. exact (proj1 (path_fwd a l x Hl Hx)). Qed.

  (* ---- NoFragmentsCycle ---- *)
  Lemma cyc_inl u : C06_graph_proofs.cyc d u <-> C06_graph_proofs.cyc d' u.
  Proof.
    split.
    - intros (w & He & Hr). assert (Hu : u <> Fn) by (intro E; subst u; apply Hself; exists w; split; assumption).
      pose proof (reach_fwd w u Hr Hu) as Hr'. destruct (string_dec w Fn) as [Ew|Nw].
      + subst w. destruct Hr as [l Hl]. inversion Hl as [|? c ? ? Hc Hp]; subst; [contradiction Hu; reflexivity|].
        destruct (edge_copy u He) as [H|H].
        * exists Fn. split; [exact H|exact Hr'].
        * exists c. split; [apply H, Hc|]. apply reach_fwd; [exists l0; exact Hp|exact Hu].
      + exists w. split; [apply edge_fwd; assumption|exact Hr'].
    - intros (w & He & Hr). apply reach_bwd in Hr. destruct (edge_bwd u w He) as [H|[H1 H2]].
      + exists w. split; assumption.
      + exists Fn. split; [exact H1|]. eapply C06_graph_proofs.reach_step; [exact H2|exact Hr].
  Qed.
  Lemma i_no_fragment_cycles : v_no_fragment_cycles d = v_no_fragment_cycles d'.
  Proof.
    apply bool_iff_eq. rewrite !C06_graph_proofs.cycles_spec. split; intros (u & Hu); exists u; apply cyc_inl, Hu.
  Qed.

  (* ---- reachability from a list of names: the roots L of d and L' of d' ---- *)
  Section Roots.
    Variables L L' : list name.
    Hypothesis L_fwd : forall b, In b L -> b <> Fn -> In b L'.
    Hypothesis L_bwd : forall b, In b L' -> In b L \/ (In Fn L /\ edge d Fn b).
    Hypothesis L_copy : In Fn L -> In Fn L' \/ (forall b, edge d Fn b -> In b L').

    Definition from (dd : document) (R : list name) (x : name) : Prop := exists a, In a R /\ reach dd a x.

    Lemma from_bwd x : from d' L' x -> from d L x.
    Proof.
      intros (a & Ha & Hr). apply reach_bwd in Hr. destruct (L_bwd a Ha) as [H|[H1 H2]].
      - exists a. split; assumption.
      - exists Fn. split; [exact H1|]. eapply C06_graph_proofs.reach_step; eassumption.
    Qed.
    Lemma from_fwd x : from d L x -> x <> Fn -> from d' L' x.
    Proof.
      intros (a & Ha & Hr) Hx. destruct (string_dec a Fn) as [Ea|Na].
      - subst a. destruct Hr as [l Hl]. inversion Hl as [|? c ? ? Hc Hp]; subst; [contradiction Hx; reflexivity|].
        destruct (L_copy Ha) as [H|H].
        + exists Fn. split; [exact H|]. apply reach_fwd; [exists (Fn :: l0); exact Hl|exact Hx].
        + exists c. split; [apply H, Hc|]. apply reach_fwd; [exists l0; exact Hp|exact Hx].
      - exists a. split; [apply L_fwd; assumption|apply reach_fwd; assumption].
    Qed.
    (* how F is reached *)
    Lemma from_F : from d L Fn -> In Fn L \/ exists m, m <> Fn /\ from d L m /\ edge d m Fn.
    Proof.
      intros (a & Ha & [l Hl]). destruct (path_last d a l Fn Hl) as [[-> ->]|(l0 & m & -> & Hp & He)].
      - left. exact Ha.
      - right. exists m. split; [intro E; subst m; exact (no_self_edge He)|]. split; [|exact He].
        exists a. split; [exact Ha|exists l0; exact Hp].
    Qed.

    Lemma closure_from dd R x : In x (spread_closure (S (List.length (fragments_of dd))) dd (dedup_names R)) <-> from dd R x.
    Proof.
      rewrite C06_graph_proofs.closure_reach. split; intros (a & Ha & Hr); exists a; (split; [|exact Hr]).
      - apply dedup_eqset, Ha.
      - apply dedup_eqset, Ha.
    Qed.
  End Roots.
  (* ---- what is collected over the fragments reachable from the roots ---- *)
  Section Total.
    Context {X : Type}.
    Variables (P0 P0' : list X) (L L' : list name) (pay pay' : name -> list X).
    Hypothesis L_fwd : forall b, In b L -> b <> Fn -> In b L'.
    Hypothesis L_bwd : forall b, In b L' -> In b L \/ (In Fn L /\ edge d Fn b).
    Hypothesis L_copy : In Fn L -> In Fn L' \/ ((forall b, edge d Fn b -> In b L') /\ (forall x, In x (pay Fn) -> In x P0')).
    Hypothesis P0_fwd : forall x, In x P0 -> In x P0'.
    Hypothesis P0_bwd : forall x, In x P0' -> In x P0 \/ (In Fn L /\ In x (pay Fn)).
    Hypothesis pay_fwd' : forall n x, In x (pay n) -> In x (pay' n).
    Hypothesis pay_bwd' : forall n x, In x (pay' n) -> In x (pay n) \/ (edge d n Fn /\ In x (pay Fn)).
    Hypothesis pay_copy' : forall n, edge d n Fn ->
      edge d' n Fn \/ ((forall b, edge d Fn b -> edge d' n b) /\ (forall x, In x (pay Fn) -> In x (pay' n))).

    Lemma L_copy0 : In Fn L -> In Fn L' \/ (forall b, edge d Fn b -> In b L').
    Proof. intro H. destruct (L_copy H) as [H1|[H1 _]]; [left|right]; exact H1. Qed.

    Lemma total_iff x :
      (In x P0 \/ exists n, from d L n /\ In x (pay n)) <-> (In x P0' \/ exists n, from d' L' n /\ In x (pay' n)).
    Proof.
      split.
      - intros [H|(n & Hn & Hx)]; [left; apply P0_fwd, H|].
        destruct (string_dec n Fn) as [En|Nn].
        + subst n. destruct (from_F L Hn) as [HL|(m & Hm & Hfm & He)].
          * destruct (L_copy HL) as [H1|[_ H1]].
            -- right. exists Fn. split; [exists Fn; split; [exact H1|apply C06_graph_proofs.reach_refl]|apply pay_fwd', Hx].
            -- left. apply H1, Hx.
          * pose proof (from_fwd L L' L_fwd L_copy0 m Hfm Hm) as Hfm'. destruct (pay_copy' m He) as [H1|[_ H1]].
            -- right. exists Fn. split; [|apply pay_fwd', Hx]. destruct Hfm' as (a & Ha & Hr). exists a.
               split; [exact Ha|eapply C06_graph_proofs.reach_snoc; eassumption].
            -- right. exists m. split; [exact Hfm'|apply H1, Hx].
        + right. exists n. split; [apply (from_fwd L L' L_fwd L_copy0 n Hn Nn)|apply pay_fwd', Hx].
      - intros [H|(n & Hn & Hx)].
        + destruct (P0_bwd x H) as [H1|[H1 H2]]; [left; exact H1|]. right. exists Fn. split; [|exact H2].
          exists Fn. split; [exact H1|apply C06_graph_proofs.reach_refl].
        + pose proof (from_bwd L L' L_bwd n Hn) as Hn0. destruct (pay_bwd' n x Hx) as [H1|[H1 H2]].
          * right. exists n. split; assumption.
          * right. exists Fn. split; [|exact H2]. destruct Hn0 as (a & Ha & Hr). exists a.
            split; [exact Ha|eapply C06_graph_proofs.reach_snoc; eassumption].
    Qed.
  End Total.

  (* ---------------------------------------------------------------- rules on names and structure *)
  Lemma i_unique_operation_names : v_unique_operation_names d = v_unique_operation_names d'.
  Proof.
    unfold v_unique_operation_names, named_operation_names. do 2 f_equal.
    apply (Forall2_flat_map_eq (iop F)); [apply idoc_ops, Hd|]. intros o o' H. rewrite (iop_node_name _ _ _ H). reflexivity.
  Qed.
  Lemma i_lone_anonymous : v_lone_anonymous d = v_lone_anonymous d'.
  Proof.
    unfold v_lone_anonymous. rewrite (F2_length _ _ _ (idoc_ops F _ _ Hd)). f_equal.
    apply (F2_existsb (iop F)). eapply Forall2_impl_in; [|apply idoc_ops, Hd]. intros o o' _ H.
    rewrite (iop_node_name _ _ _ H). reflexivity.
  Qed.
  Lemma i_unique_fragment_names : v_unique_fragment_names d = v_unique_fragment_names d'.
  Proof. unfold v_unique_fragment_names. rewrite frag_names_inl. reflexivity. Qed.

  Lemma doc_selections_in x u : In x d -> In u (sels_all (def_sels x)) -> In u (doc_selections d).
  Proof. intros Hx Hu. unfold doc_selections. apply in_flat_map. exists x. split; assumption. Qed.
  Lemma F_body_in_doc u : In u (sels_all (fr_sels F)) -> In u (doc_selections d).
  Proof.
    intro Hu. apply (doc_selections_in (DFrag F)); [|exact Hu].
    unfold fragments_of in HF. apply in_flat_map in HF. destruct HF as ([o|f] & Hx & Hin); [destruct Hin|].
    destruct Hin as [<-|[]]. exact Hx.
  Qed.
  (* the selections of the two documents cover each other *)
  Lemma dcov_fwd u : In u (doc_selections d) -> exists v, In v (doc_selections d') /\ isel F u v.
  Proof.
    unfold doc_selections. intro Hu. apply in_flat_map in Hu. destruct Hu as (x & Hx & Hu).
    destruct (F2_in_l _ _ _ x Hd Hx) as (y & Hy & Hxy). destruct (cov_fwd F _ _ (idef_sels F x y Hxy) u Hu) as (v & Hv & Huv).
    exists v. split; [apply in_flat_map; exists y; split; assumption|exact Huv].
  Qed.
  Lemma dcov_bwd v : In v (doc_selections d') -> exists u, In u (doc_selections d) /\ isel F u v.
  Proof.
    unfold doc_selections at 1. intro Hv. apply in_flat_map in Hv. destruct Hv as (y & Hy & Hv).
    destruct (F2_in_r _ _ _ y Hd Hy) as (x & Hx & Hxy).
    destruct (cov_bwd F _ _ (idef_sels F x y Hxy) v Hv) as [(u & Hu & Huv)|[H1 _]].
    - exists u. split; [apply (doc_selections_in x); assumption|exact Huv].
    - exists v. split; [apply F_body_in_doc, H1|apply isel_refl].
  Qed.

  Lemma doc_spreads_in dd n : In n (spreads_in (flat_map def_sels dd)) <-> exists p dirs, In (SSpread p n dirs) (doc_selections dd).
  Proof.
    unfold spreads_in, doc_selections, sels_all. rewrite (C06_graph_proofs.flat_map_flat_map sel_all def_sels dd). split.
    - intro H. apply in_flat_map in H. destruct H as (u & Hu & H). destruct u as [|p m dirs|]; try contradiction.
      destruct H as [<-|[]]. exists p, dirs. exact Hu.
    - intros (p & dirs & H). apply in_flat_map. exists (SSpread p n dirs). split; [exact H|left; reflexivity].
  Qed.
  Lemma i_known_fragment_names : v_known_fragment_names d = v_known_fragment_names d'.
  Proof.
    unfold v_known_fragment_names. rewrite <- frag_names_inl. apply bool_iff_eq. rewrite !existsb_exists. split.
    - intros (n & Hn & Hbad). exists n. split; [|exact Hbad]. apply doc_spreads_in in Hn. destruct Hn as (p & dirs & Hu).
      destruct (dcov_fwd _ Hu) as (v & Hv & Huv). inversion Huv as [|? ? ?| |? p']; subst.
      + apply doc_spreads_in. exists p, dirs. exact Hv.
      + exfalso. apply negb_true_iff, mem_false_notin in Hbad. apply Hbad. unfold frag_names. apply in_map, HF.
    - intros (n & Hn & Hbad). exists n. split; [|exact Hbad]. apply doc_spreads_in in Hn. destruct Hn as (p & dirs & Hv).
      destruct (dcov_bwd _ Hv) as (u & Hu & Huv). inversion Huv; subst. apply doc_spreads_in. exists p, dirs. exact Hu.
  Qed.

  Lemma type_conditions_eqset : eqset (type_conditions d) (type_conditions d').
  Proof.
    assert (Etc : map fr_tc (fragments_of d) = map fr_tc (fragments_of d')).
    { apply (Forall2_map_eq (ifrag F)); [apply idoc_frags, Hd|]. intros f f' H. apply (ifrag_fields _ _ _ H). }
    intro n. unfold type_conditions. rewrite !in_app_iff, <- Etc, !in_flat_map. split.
    - intros [H|(u & Hu & H)]; [left; exact H|]. destruct (dcov_fwd u Hu) as (v & Hv & Huv).
      destruct u as [| |p [tc|] dirs sp sels]; try contradiction. destruct H as [<-|[]].
      inversion Huv; subst. right. exists (SInline p (Some tc) dirs sp sels'). split; [exact Hv|left; reflexivity].
    - intros [H|(v & Hv & H)]; [left; exact H|]. destruct (dcov_bwd v Hv) as (u & Hu & Huv).
      destruct v as [| |p [tc|] dirs sp sels]; try contradiction. destruct H as [<-|[]].
      inversion Huv; subst.
      + right. exists (SInline p (Some tc) dirs sp sels0). split; [exact Hu|left; reflexivity].
      + left. apply in_map, HF.
  Qed.
  Lemma variable_types_inl : variable_types d = variable_types d'.
  Proof.
    unfold variable_types. apply (Forall2_flat_map_eq (iop F)); [apply idoc_ops, Hd|]. intros o o' H.
    rewrite (iop_vardefs _ _ _ H). reflexivity.
  Qed.
  Lemma i_known_type_names s : v_known_type_names s d = v_known_type_names s d'.
  Proof.
    unfold v_known_type_names. rewrite <- variable_types_inl. apply existsb_eqset; [|reflexivity].
    apply eqset_app; [apply type_conditions_eqset|apply eqset_refl].
  Qed.
  Lemma i_fragments_on_composite s : v_fragments_on_composite s d = v_fragments_on_composite s d'.
  Proof. unfold v_fragments_on_composite. apply existsb_eqset; [apply type_conditions_eqset|reflexivity]. Qed.
  Lemma i_variables_are_input_types s : v_variables_are_input_types s d = v_variables_are_input_types s d'.
  Proof. unfold v_variables_are_input_types. rewrite variable_types_inl. reflexivity. Qed.
  Lemma i_unique_variable_names : v_unique_variable_names d = v_unique_variable_names d'.
  Proof.
    unfold v_unique_variable_names. apply (F2_existsb (iop F)). eapply Forall2_impl_in; [|apply idoc_ops, Hd].
    intros o o' _ H. unfold op_var_names. rewrite (iop_vardefs _ _ _ H). reflexivity.
  Qed.

  (* ---- NoUnusedFragments ---- *)
  Lemma iop_sels o o' : iop F o o' -> isels F (o_sels o) (o_sels o').
  Proof. intro H. apply (iop_fields _ _ _ H). Qed.
  Definition op_roots (dd : document) : list name := flat_map (fun o => spreads_in (o_sels o)) (operations_of dd).
  Lemma op_roots_fwd b : In b (op_roots d) -> b <> Fn -> In b (op_roots d').
  Proof.
    unfold op_roots. rewrite !in_flat_map. intros (o & Ho & Hb) Hne.
    destruct (F2_in_l _ _ _ o (idoc_ops F _ _ Hd) Ho) as (o' & Ho' & Hoo).
    exists o'. split; [exact Ho'|]. apply (spreads_fwd _ _ b (iop_sels _ _ Hoo) Hb Hne).
  Qed.
  Lemma op_roots_bwd b : In b (op_roots d') -> In b (op_roots d) \/ (In Fn (op_roots d) /\ edge d Fn b).
  Proof.
    unfold op_roots. rewrite !in_flat_map. intros (o' & Ho' & Hb).
    destruct (F2_in_r _ _ _ o' (idoc_ops F _ _ Hd) Ho') as (o & Ho & Hoo).
    destruct (spreads_bwd _ _ b (iop_sels _ _ Hoo) Hb) as [H|[H1 H2]].
    - left. exists o. split; assumption.
    - right. split; [exists o; split; assumption|exact H2].
  Qed.
  Lemma op_roots_copy : In Fn (op_roots d) -> In Fn (op_roots d') \/ (forall b, edge d Fn b -> In b (op_roots d')).
  Proof.
    unfold op_roots. rewrite !in_flat_map. intros (o & Ho & Hb).
    destruct (F2_in_l _ _ _ o (idoc_ops F _ _ Hd) Ho) as (o' & Ho' & Hoo).
    destruct (spreads_copy _ _ (iop_sels _ _ Hoo) Hb) as [H|[_ H]].
    - left. exists o'. split; assumption.
    - right. intros b Hb'. apply in_flat_map. exists o'. split; [exact Ho'|apply H, Hb'].
  Qed.
  Lemma reachable_from : forall dd n, In n (reachable_from_operations dd) <-> from dd (op_roots dd) n.
  Proof. intros dd n. unfold reachable_from_operations. apply closure_from. Qed.

  (* an unused fragment of d stays unused; with F still used, nothing else changes *)
  Lemma i_no_unused_fragments_mono : v_no_unused_fragments d = true -> v_no_unused_fragments d' = true.
  Proof.
    unfold v_no_unused_fragments. rewrite <- frag_names_inl, !existsb_exists. intros (n & Hn & Hbad).
    exists n. split; [exact Hn|]. apply negb_true_iff, mem_false_notin. apply negb_true_iff, mem_false_notin in Hbad.
    intro H. apply Hbad. apply reachable_from. apply reachable_from in H. apply (from_bwd _ _ op_roots_bwd n H).
  Qed.
  Lemma i_no_unused_fragments : In Fn (reachable_from_operations d') ->
    v_no_unused_fragments d = v_no_unused_fragments d'.
  Proof.
    intro HFu. unfold v_no_unused_fragments. rewrite <- frag_names_inl. apply existsb_eqset; [apply eqset_refl|].
    intros n _. f_equal. apply bool_iff_eq. rewrite !mem_In, !reachable_from. split.
    - intro H. destruct (string_dec n Fn) as [E|N]; [subst n; apply reachable_from, HFu|].
      apply (from_fwd _ _ op_roots_fwd op_roots_copy n H N).
    - apply (from_bwd _ _ op_roots_bwd).
  Qed.
  (* ---------------------------------------------------------------- variables *)
  Hypothesis Hdirs : fr_dirs F = [].

  Definition g_vars (x : selection) : list name :=
    flat_map (fun a : argument => var_leaves (snd a)) (sel_args x) ++ dirs_vars (sel_dirs x).
  Lemma g_vars_same u v : same_head u v -> g_vars u = g_vars v.
  Proof. intro H. unfold g_vars. destruct (same_head_fields u v H) as (_ & _ & -> & -> & _). reflexivity. Qed.
  Lemma g_vars_copy u v : expands F u v -> g_vars v = [].
  Proof. intros (p & p' & -> & ->). reflexivity. Qed.
  Lemma sels_vars_pay l : sels_vars l = flat_map g_vars (sels_all l).
  Proof. reflexivity. Qed.

  Lemma sels_vars_fwd l l' x : isels F l l' -> In x (sels_vars l) -> In x (sels_vars l').
  Proof.
    intros H Hx. rewrite sels_vars_pay in *.
    destruct (pay_fwd F g_vars g_vars_same l l' x H Hx) as [H1|(u & v & (p & p' & -> & ->) & Hu)]; [exact H1|destruct Hu].
  Qed.
  Lemma sels_vars_bwd l l' x : isels F l l' -> In x (sels_vars l') ->
    In x (sels_vars l) \/ (In Fn (spreads_in l) /\ In x (sels_vars (fr_sels F))).
  Proof. intros H Hx. rewrite sels_vars_pay in *. apply (pay_bwd F g_vars g_vars_same g_vars_copy l l' x H Hx). Qed.
  Lemma sels_vars_copy l' x : incl (sels_all (fr_sels F)) (sels_all l') -> In x (sels_vars (fr_sels F)) -> In x (sels_vars l').
  Proof.
    intros Hi Hx. rewrite sels_vars_pay in *. apply in_flat_map in Hx. destruct Hx as (w & Hw & Hx).
    apply in_flat_map. exists w. split; [apply Hi, Hw|exact Hx].
  Qed.
  Lemma fragment_vars_F x : In x (fragment_vars d Fn) <-> In x (sels_vars (fr_sels F)).
  Proof.
    rewrite in_fragment_vars. split.
    - intros (f & Hf & Hn & Hx). rewrite (Hone f Hf Hn), Hdirs in Hx. exact Hx.
    - intro Hx. exists F. split; [exact HF|]. split; [reflexivity|]. rewrite Hdirs. exact Hx.
  Qed.

  Lemma fragment_vars_fwd n x : In x (fragment_vars d n) -> In x (fragment_vars d' n).
  Proof.
    rewrite !in_fragment_vars. intros (f & Hf & Hn & Hx).
    destruct (F2_in_l _ _ _ f (idoc_frags F _ _ Hd) Hf) as (f' & Hf' & Hff).
    destruct (ifrag_fields _ _ _ Hff) as (_ & Hname & _ & Hdi & _ & Hs).
    exists f'. split; [exact Hf'|]. split; [rewrite <- Hname; exact Hn|]. rewrite <- Hdi.
    apply in_app_iff in Hx. apply in_app_iff. destruct Hx as [Hx|Hx]; [left; exact Hx|right; apply (sels_vars_fwd _ _ x Hs Hx)].
  Qed.
  Lemma fragment_vars_bwd n x : In x (fragment_vars d' n) ->
    In x (fragment_vars d n) \/ (edge d n Fn /\ In x (fragment_vars d Fn)).
  Proof.
    rewrite fragment_vars_F. unfold C06_graph_proofs.edge. rewrite in_fragment_spreads, !in_fragment_vars.
    intros (f' & Hf' & Hn & Hx).
    destruct (F2_in_r _ _ _ f' (idoc_frags F _ _ Hd) Hf') as (f & Hf & Hff).
    destruct (ifrag_fields _ _ _ Hff) as (_ & Hname & _ & Hdi & _ & Hs). rewrite <- Hdi in Hx.
    apply in_app_iff in Hx. destruct Hx as [Hx|Hx].
    - left. exists f. split; [exact Hf|]. split; [rewrite Hname; exact Hn|apply in_app_iff; left; exact Hx].
    - destruct (sels_vars_bwd _ _ x Hs Hx) as [H1|[H1 H2]].
      + left. exists f. split; [exact Hf|]. split; [rewrite Hname; exact Hn|apply in_app_iff; right; exact H1].
      + right. split; [|exact H2]. exists f. split; [exact Hf|]. split; [rewrite Hname; exact Hn|exact H1].
  Qed.
  Lemma fragment_vars_copy n : edge d n Fn ->
    edge d' n Fn \/ ((forall b, edge d Fn b -> edge d' n b) /\ (forall x, In x (fragment_vars d Fn) -> In x (fragment_vars d' n))).
  Proof.
    unfold C06_graph_proofs.edge at 1. rewrite in_fragment_spreads. intros (f & Hf & Hn & Hb).
    destruct (F2_in_l _ _ _ f (idoc_frags F _ _ Hd) Hf) as (f' & Hf' & Hff).
    destruct (ifrag_fields _ _ _ Hff) as (_ & Hname & _ & _ & _ & Hs).
    destruct (spreads_copy _ _ Hs Hb) as [H1|[H0 H1]].
    - left. apply in_fragment_spreads. exists f'. split; [exact Hf'|]. split; [rewrite <- Hname; exact Hn|exact H1].
    - right. split.
      + intros b Hb'. apply in_fragment_spreads. exists f'. split; [exact Hf'|]. split; [rewrite <- Hname; exact Hn|apply H1, Hb'].
      + intros x Hx. apply fragment_vars_F in Hx. apply in_fragment_vars. exists f'. split; [exact Hf'|].
        split; [rewrite <- Hname; exact Hn|]. apply in_app_iff. right. apply (sels_vars_copy _ x H0 Hx).
  Qed.

  Lemma vars_used_inl o o' : iop F o o' -> eqset (vars_used_in_op d o) (vars_used_in_op d' o').
  Proof.
    intros Ho x. pose proof (iop_sels _ _ Ho) as Hs. unfold vars_used_in_op, op_reachable_fragments.
    rewrite <- (iop_directives _ _ _ Ho).
    rewrite !(app_assoc (dirs_vars (op_directives o))).
    set (P0 := dirs_vars (op_directives o) ++ sels_vars (o_sels o)).
    set (P0' := dirs_vars (op_directives o) ++ sels_vars (o_sels o')).
    rewrite !in_app_iff, !in_flat_map.
    assert (E : forall dd l y, (exists n, In n (spread_closure (S (List.length (fragments_of dd))) dd (dedup_names l)) /\ In y (fragment_vars dd n)) <->
                               (exists n, from dd l n /\ In y (fragment_vars dd n))).
    { intros dd l y. split; intros (n & Hn & Hy); exists n; (split; [apply closure_from, Hn|exact Hy]). }
    rewrite !E.
    apply (total_iff P0 P0' (spreads_in (o_sels o)) (spreads_in (o_sels o')) (fragment_vars d) (fragment_vars d')); unfold P0, P0'.
    - intros b Hb Hne. apply (spreads_fwd _ _ b Hs Hb Hne).
    - intros b Hb. apply (spreads_bwd _ _ b Hs Hb).
    - intro Hb. destruct (spreads_copy _ _ Hs Hb) as [H1|[H0 H1]]; [left; exact H1|right]. split; [exact H1|].
      intros y Hy. apply fragment_vars_F in Hy. apply in_app_iff. right. apply (sels_vars_copy _ y H0 Hy).
    - intros y Hy. apply in_app_iff in Hy. apply in_app_iff. destruct Hy as [Hy|Hy]; [left; exact Hy|right; apply (sels_vars_fwd _ _ y Hs Hy)].
    - intros y Hy. apply in_app_iff in Hy. rewrite in_app_iff. destruct Hy as [Hy|Hy]; [left; left; exact Hy|].
      destruct (sels_vars_bwd _ _ y Hs Hy) as [H1|[H1 H2]]; [left; right; exact H1|right].
      split; [exact H1|apply fragment_vars_F, H2].
    - apply fragment_vars_fwd.
    - apply fragment_vars_bwd.
    - apply fragment_vars_copy.
  Qed.

  Lemma i_no_undefined_variables : v_no_undefined_variables d = v_no_undefined_variables d'.
  Proof.
    unfold v_no_undefined_variables. apply (F2_existsb (iop F)). eapply Forall2_impl_in; [|apply idoc_ops, Hd].
    intros o o' _ H. unfold op_var_names. rewrite <- (iop_vardefs _ _ _ H).
    apply existsb_eqset; [apply vars_used_inl, H|reflexivity].
  Qed.
  Lemma i_no_unused_variables : v_no_unused_variables d = v_no_unused_variables d'.
  Proof.
    unfold v_no_unused_variables. apply (F2_existsb (iop F)). eapply Forall2_impl_in; [|apply idoc_ops, Hd].
    intros o o' _ H. unfold op_var_names. rewrite <- (iop_vardefs _ _ _ H).
    apply existsb_eqset; [apply eqset_refl|]. intros x _. rewrite (mem_name_eqset x _ _ (vars_used_inl o o' H)). reflexivity.
  Qed.
  (* ---------------------------------------------------------------- directives *)
  Definition sel_loc (x : selection) : dir_loc :=
    match x with SField _ _ _ _ _ _ _ => LField | SSpread _ _ _ => LFragmentSpread | SInline _ _ _ _ _ => LInlineFragment end.
  Definition site_of (x : selection) : dir_loc * list directive := (sel_loc x, sel_dirs x).
  Lemma sel_directive_sites_map x : sel_directive_sites x = map site_of (sel_all x).
  Proof.
    induction x as [p al n args dirs sp sels IH|p n dirs|p tc dirs sp sels IH] using selection_ind';
      cbn [sel_directive_sites sel_all map]; try reflexivity; f_equal;
      (rewrite map_flat_map; apply flat_map_Forall_ext, IH).
  Qed.
  Definition def_site (x : definition) : dir_loc * list directive :=
    match x with DOp o => (op_location (o_kind o), op_directives o) | DFrag f => (LFragmentDefinition, fr_dirs f) end.
  Lemma in_directive_sites dd site : In site (directive_sites dd) <->
    (exists x, In x dd /\ site = def_site x) \/ (exists u, In u (doc_selections dd) /\ site = site_of u).
  Proof.
    unfold directive_sites, doc_selections. rewrite in_flat_map. split.
    - intros (x & Hx & H).
      assert (H' : site = def_site x \/ In site (flat_map sel_directive_sites (def_sels x))).
      { destruct x as [o|f]; destruct H as [<-|H]; [left; reflexivity|right; exact H|left; reflexivity|right; exact H]. }
      destruct H' as [->|H']; [left; exists x; split; [exact Hx|reflexivity]|right].
      apply in_flat_map in H'. destruct H' as (c & Hc & H'). rewrite sel_directive_sites_map in H'.
      apply in_map_iff in H'. destruct H' as (u & <- & Hu). exists u. split; [|reflexivity].
      apply in_flat_map. exists x. split; [exact Hx|]. apply in_sels_all. exists c. split; assumption.
    - intros [(x & Hx & ->)|(u & Hu & ->)].
      + exists x. split; [exact Hx|]. destruct x; left; reflexivity.
      + apply in_flat_map in Hu. destruct Hu as (x & Hx & Hu). exists x. split; [exact Hx|].
        apply in_sels_all in Hu. destruct Hu as (c & Hc & Hu).
        assert (H' : In (site_of u) (flat_map sel_directive_sites (def_sels x))).
        { apply in_flat_map. exists c. split; [exact Hc|]. rewrite sel_directive_sites_map. apply in_map, Hu. }
        destruct x; right; exact H'.
  Qed.
  Lemma idef_site x y : idef F x y -> def_site x = def_site y.
  Proof.
    intros [o o' H|f f' H]; cbn [def_site].
    - destruct (iop_fields _ _ _ H) as (-> & _). rewrite (iop_directives _ _ _ H). reflexivity.
    - destruct (ifrag_fields _ _ _ H) as (_ & _ & _ & -> & _). reflexivity.
  Qed.
  Lemma site_rule (q : dir_loc * list directive -> bool) :
    (forall loc, q (loc, []) = false) -> existsb q (directive_sites d) = existsb q (directive_sites d').
  Proof.
    intro Hq. apply bool_iff_eq. rewrite !existsb_exists. split.
    - intros (site & Hin & Hbad). apply in_directive_sites in Hin. destruct Hin as [(x & Hx & ->)|(u & Hu & ->)].
      + destruct (F2_in_l _ _ _ x Hd Hx) as (y & Hy & Hxy). exists (def_site y). split; [|rewrite <- (idef_site x y Hxy); exact Hbad].
        apply in_directive_sites. left. exists y. split; [exact Hy|reflexivity].
      + destruct (dcov_fwd u Hu) as (v & Hv & Huv). destruct (isel_cases F u v Huv) as [(p & p' & -> & ->)|[Hs _]].
        * unfold site_of in Hbad. cbn in Hbad. rewrite Hq in Hbad. discriminate.
        * exists (site_of v). split; [apply in_directive_sites; right; exists v; split; [exact Hv|reflexivity]|].
          destruct u, v; cbn in Hs; try contradiction; unfold site_of in *; cbn in *.
          -- destruct Hs as (_ & _ & _ & _ & <- & _). exact Hbad.
          -- destruct Hs as (_ & _ & <-). exact Hbad.
          -- destruct Hs as (_ & _ & <- & _). exact Hbad.
    - intros (site & Hin & Hbad). apply in_directive_sites in Hin. destruct Hin as [(y & Hy & ->)|(v & Hv & ->)].
      + destruct (F2_in_r _ _ _ y Hd Hy) as (x & Hx & Hxy). exists (def_site x). split; [|rewrite (idef_site x y Hxy); exact Hbad].
        apply in_directive_sites. left. exists x. split; [exact Hx|reflexivity].
      + destruct (dcov_bwd v Hv) as (u & Hu & Huv). destruct (isel_cases F u v Huv) as [(p & p' & -> & ->)|[Hs _]].
        * unfold site_of in Hbad. cbn in Hbad. rewrite Hq in Hbad. discriminate.
        * exists (site_of u). split; [apply in_directive_sites; right; exists u; split; [exact Hu|reflexivity]|].
          destruct u, v; cbn in Hs; try contradiction; unfold site_of in *; cbn in *.
          -- destruct Hs as (_ & _ & _ & _ & -> & _). exact Hbad.
          -- destruct Hs as (_ & _ & ->). exact Hbad.
          -- destruct Hs as (_ & _ & -> & _). exact Hbad.
  Qed.
  Lemma i_known_directives s : v_known_directives s d = v_known_directives s d'.
  Proof. unfold v_known_directives. apply site_rule. reflexivity. Qed.
  Lemma i_unique_directives_per_location s : v_unique_directives_per_location s d = v_unique_directives_per_location s d'.
  Proof. unfold v_unique_directives_per_location. apply site_rule. reflexivity. Qed.
  (* ---------------------------------------------------------------- the annotation *)
  Variable s : sdocument.
  Notation T := (fr_tc F).

  (* environments that agree on what the selections read / on what the values read *)
  Definition sel_eqv (e e' : env) : Prop :=
    a_type e = a_type e' /\ a_type_lit e = a_type_lit e' /\ a_parent e = a_parent e'.
  Definition val_eqv (e e' : env) : Prop :=
    sel_eqv e e' /\ a_input e = a_input e' /\ a_input_lit e = a_input_lit e'.
  Definition value_level (ev : event) : bool :=
    match ev with
    | Enter n | Leave n =>
        match n with
        | NVarDef _ | NArgument _ | NNull | NScalar _ | NEnum _ | NVariable _ | NList _ | NObject _ | NObjectField _ => true
        | _ => false
        end
    end.
  (* the same event in an equivalent environment *)
  Definition twin (x y : aev) : Prop :=
    fst x = fst y /\ sel_eqv (snd x) (snd y) /\ (value_level (fst x) = true -> val_eqv (snd x) (snd y)).

  Lemma twin_val ev e e' : val_eqv e e' -> twin (ev, e) (ev, e').
  Proof. intro H. split; [reflexivity|]. split; [apply H|intros _; exact H]. Qed.
  Lemma twin_sel ev e e' : sel_eqv e e' -> value_level ev = false -> twin (ev, e) (ev, e').
  Proof. intros H Hv. split; [reflexivity|]. split; [exact H|]. cbn [fst]. rewrite Hv. discriminate. Qed.

  Lemma expecting_eqv e e' t : sel_eqv e e' -> val_eqv (expecting s e t) (expecting s e' t).
  Proof. intros (H1 & H2 & H3). unfold val_eqv, sel_eqv, expecting. cbn. repeat split; assumption. Qed.
  Lemma twin_value v : forall e e', val_eqv e e' -> Forall2 twin (annot_value s v e) (annot_value s v e').
  Proof.
    induction v as [n|z|b|str|b| |n|l IH|l IH] using value_ind'; intros e e' He; cbn [annot_value];
      try (constructor; [apply twin_val, He|constructor; [apply twin_val, He|constructor]]).
    - pose proof He as (Hs & Hi & Hl). constructor; [apply twin_val, He|].
      apply Forall2_app; [|constructor; [apply twin_val, He|constructor]].
      rewrite Hl. induction IH as [|x r Hx _ IHr]; cbn [flat_map]; [constructor|].
      apply Forall2_app; [apply Hx, expecting_eqv, Hs|exact IHr].
    - pose proof He as (Hs & Hi & Hl). constructor; [apply twin_val, He|].
      apply Forall2_app; [|constructor; [apply twin_val, He|constructor]].
      rewrite Hl. induction IH as [|kv r Hkv _ IHr]; cbn [flat_map]; [constructor|]. cbv zeta.
      pose proof (expecting_eqv e e' (input_field_type s (a_input_lit e') (fst kv)) Hs) as Hx.
      cbn [app]. constructor; [apply twin_val, Hx|].
      apply Forall2_app; [apply Forall2_app; [apply Hkv, Hx|constructor; [apply twin_val, Hx|constructor]]|exact IHr].
  Qed.
  Lemma twin_arguments decls args e e' : sel_eqv e e' ->
    Forall2 twin (annot_arguments s decls args e) (annot_arguments s decls args e').
  Proof.
    intro He. unfold annot_arguments. induction args as [|a r IH]; cbn [flat_map]; [constructor|]. cbv zeta.
    pose proof (expecting_eqv e e' (declared_arg_type decls (fst a)) He) as Hx.
    cbn [app]. constructor; [apply twin_val, Hx|].
    apply Forall2_app; [apply Forall2_app; [apply twin_value, Hx|constructor; [apply twin_val, Hx|constructor]]|exact IH].
  Qed.
  Lemma twin_directives dirs e e' : sel_eqv e e' ->
    Forall2 twin (annot_directives s dirs e) (annot_directives s dirs e').
  Proof.
    intro He. unfold annot_directives. induction dirs as [|x r IH]; cbn [flat_map]; [constructor|].
    cbn [app]. constructor; [apply twin_sel; [exact He|reflexivity]|].
    apply Forall2_app; [apply Forall2_app; [apply twin_arguments, He|constructor; [apply twin_sel; [exact He|reflexivity]|constructor]]|exact IH].
  Qed.
  Lemma at_type_eqv e e' t : a_parent e = a_parent e' -> sel_eqv (at_type s e t) (at_type s e' t).
  Proof. intro H. unfold sel_eqv, at_type. cbn. repeat split. exact H. Qed.
  Lemma in_field_eqv e e' f : sel_eqv e e' -> sel_eqv (in_field e f) (in_field e' f).
  Proof. intro H. exact H. Qed.
  Lemma in_selection_set_eqv e e' : sel_eqv e e' -> sel_eqv (in_selection_set e) (in_selection_set e').
  Proof. intros (H1 & H2 & H3). unfold sel_eqv, in_selection_set. cbn. repeat split; assumption. Qed.

  Lemma twin_items_F e e' l :
    Forall (fun x => forall e e', sel_eqv e e' -> Forall2 twin (annot_selection s x e) (annot_selection s x e')) l ->
    sel_eqv e e' ->
    Forall2 twin (flat_map (fun x => annot_selection s x e) l) (flat_map (fun x => annot_selection s x e') l).
  Proof. intros Hall He. induction Hall as [|x r Hx _ IH]; cbn [flat_map]; [constructor|]. apply Forall2_app; [apply Hx, He|exact IH]. Qed.
  Lemma twin_selection x : forall e e', sel_eqv e e' -> Forall2 twin (annot_selection s x e) (annot_selection s x e').
  Proof.
    induction x as [p al n args dirs sp sels IH|p n dirs|p tc dirs sp sels IH] using selection_ind';
      intros e e' He; cbn [annot_selection]; cbv zeta.
    - assert (Hp : a_parent e = a_parent e') by apply He. rewrite <- Hp.
      set (fdef := opt_bind (a_parent e) (fun t => field_by_name t n)).
      pose proof (at_type_eqv e e' (opt_map fd_type fdef) Hp) as H1.
      pose proof (in_field_eqv _ _ fdef H1) as H2. pose proof (in_selection_set_eqv _ _ H2) as H3.
      constructor; [apply twin_sel; [exact H1|reflexivity]|].
      apply Forall2_app; [apply twin_arguments, H2|]. apply Forall2_app; [apply twin_directives, H2|].
      constructor; [apply twin_sel; [exact H3|reflexivity]|].
      apply Forall2_app; [apply twin_items_F; assumption|].
      constructor; [apply twin_sel; [exact H3|reflexivity]|]. constructor; [apply twin_sel; [exact H1|reflexivity]|constructor].
    - constructor; [apply twin_sel; [exact He|reflexivity]|].
      apply Forall2_app; [apply twin_directives, He|]. constructor; [apply twin_sel; [exact He|reflexivity]|constructor].
    - assert (H1 : sel_eqv (match tc with Some cond => at_type s e (Some (TNamed cond)) | None => e end)
                           (match tc with Some cond => at_type s e' (Some (TNamed cond)) | None => e' end)).
      { destruct tc; [apply at_type_eqv, He|exact He]. }
      pose proof (in_selection_set_eqv _ _ H1) as H3.
      constructor; [apply twin_sel; [exact H1|reflexivity]|].
      apply Forall2_app; [apply twin_directives, H1|].
      constructor; [apply twin_sel; [exact H3|reflexivity]|].
      apply Forall2_app; [apply twin_items_F; assumption|].
      constructor; [apply twin_sel; [exact H3|reflexivity]|]. constructor; [apply twin_sel; [exact H1|reflexivity]|constructor].
  Qed.
  Lemma twin_items e e' l : sel_eqv e e' ->
    Forall2 twin (flat_map (fun x => annot_selection s x e) l) (flat_map (fun x => annot_selection s x e') l).
  Proof. intro He. apply twin_items_F; [|exact He]. apply Forall_forall. intros x _. apply twin_selection. Qed.

  (* the events of the selection set of F's definition, and of a copy of it at an environment e *)
  Definition def_env : env := in_selection_set (at_type s env0 (Some (TNamed T))).
  Definition copy_env (e : env) : env := in_selection_set (at_type s e (Some (TNamed T))).
  Definition body_events (e3 : env) : list aev :=
    (Enter (NSelectionSet (fr_span F) (fr_sels F)), e3) :: flat_map (fun x => annot_selection s x e3) (fr_sels F) ++
    [(Leave (NSelectionSet (fr_span F) (fr_sels F)), e3)].
  Lemma copy_env_eqv e : sel_eqv def_env (copy_env e).
  Proof. unfold sel_eqv, def_env, copy_env, in_selection_set, at_type. cbn. repeat split. Qed.
  Lemma twin_body e : Forall2 twin (body_events def_env) (body_events (copy_env e)).
  Proof.
    unfold body_events. pose proof (copy_env_eqv e) as He.
    constructor; [apply twin_sel; [exact He|reflexivity]|].
    apply Forall2_app; [apply twin_items, He|]. constructor; [apply twin_sel; [exact He|reflexivity]|constructor].
  Qed.
  Lemma body_in_def ea : In ea (body_events def_env) -> In ea (annot_definition s (DFrag F) env0).
  Proof.
    intro H. cbn [annot_definition]. cbv zeta. right. apply in_app_iff. right. apply in_app_iff. left. exact H.
  Qed.
  Lemma def_in_annot x ea : In x d -> In ea (annot_definition s x env0) -> In ea (annot s d).
  Proof.
    intros Hx H. unfold annot. right. apply in_app_iff. left. apply in_flat_map. exists x. split; assumption.
  Qed.
  Lemma F_in_doc : In (DFrag F) d.
  Proof.
    unfold fragments_of in HF. apply in_flat_map in HF. destruct HF as ([o|f] & Hx & Hin); [destruct Hin|].
    destruct Hin as [<-|[]]. exact Hx.
  Qed.
  (* an event of a copy has a twin in the definition of F *)
  Definition has_twin (b : aev) : Prop := exists a, In a (body_events def_env) /\ twin a b.
  Lemma copy_has_twin e b : In b (body_events (copy_env e)) -> has_twin b.
  Proof. intro H. destruct (F2_in_r _ _ _ b (twin_body e) H) as (a & Ha & Hab). exists a. split; assumption. Qed.
  (* ---- related events ---- *)
  Inductive inode : node -> node -> Prop :=
  | INDocument x x' : inline_doc F x x' -> inode (NDocument x) (NDocument x')
  | INOperation o o' : iop F o o' -> inode (NOperation o) (NOperation o')
  | INFragmentDef f f' : ifrag F f f' -> inode (NFragmentDef f) (NFragmentDef f')
  | INSelectionSet sp l l' : isels F l l' -> inode (NSelectionSet sp l) (NSelectionSet sp l')
  | INField x x' : isel F x x' -> is_field_sel x = true -> inode (NField x) (NField x')
  | INSpread x : inode (NSpread x) (NSpread x)
  | INInline x x' : isel F x x' -> inode (NInline x) (NInline x')
  | INSame n : same_node n = true -> inode n n.
  Inductive ievent : event -> event -> Prop :=
  | IEnter n n' : inode n n' -> ievent (Enter n) (Enter n')
  | ILeave n n' : inode n n' -> ievent (Leave n) (Leave n').
  (* related: the same kind of node in the same environment, or a spread of F and its expansion *)
  Definition iaev (x y : aev) : Prop :=
    (ievent (fst x) (fst y) /\ snd x = snd y) \/
    (exists u v, expands F u v /\
       ((fst x = Enter (NSpread u) /\ fst y = Enter (NInline v)) \/ (fst x = Leave (NSpread u) /\ fst y = Leave (NInline v))) /\
       snd y = at_type s (snd x) (Some (TNamed T))).
  Lemma iaev_mk n n' e : inode n n' -> iaev (Enter n, e) (Enter n', e) /\ iaev (Leave n, e) (Leave n', e).
  Proof. intro H. split; left; (split; [constructor; exact H|reflexivity]). Qed.

  (* the events A of d and B of d' cover each other; C: a spread of F occurs in the part of d at hand *)
  Definition cov (C : Prop) (A B : list aev) : Prop :=
    (forall a, In a A -> exists b, In b B /\ iaev a b) /\
    (forall b, In b B -> (exists a, In a A /\ iaev a b) \/ (has_twin b /\ C)).
  Lemma cov_nil C : cov C [] [].
  Proof. split; intros x []. Qed.
  Lemma cov_app C A A' B B' : cov C A B -> cov C A' B' -> cov C (A ++ A') (B ++ B').
  Proof.
    intros [H1 H2] [H3 H4]. split.
    - intros a Ha. apply in_app_iff in Ha. destruct Ha as [Ha|Ha].
      + destruct (H1 a Ha) as (b & Hb & Hab). exists b. split; [apply in_app_iff; left; exact Hb|exact Hab].
      + destruct (H3 a Ha) as (b & Hb & Hab). exists b. split; [apply in_app_iff; right; exact Hb|exact Hab].
    - intros b Hb. apply in_app_iff in Hb. destruct Hb as [Hb|Hb].
      + destruct (H2 b Hb) as [(a & Ha & Hab)|H]; [left; exists a; split; [apply in_app_iff; left; exact Ha|exact Hab]|right; exact H].
      + destruct (H4 b Hb) as [(a & Ha & Hab)|H]; [left; exists a; split; [apply in_app_iff; right; exact Ha|exact Hab]|right; exact H].
  Qed.
  Lemma cov_one C a b : iaev a b -> cov C [a] [b].
  Proof.
    intro H. split.
    - intros x [<-|[]]. exists b. split; [left; reflexivity|exact H].
    - intros y [<-|[]]. left. exists a. split; [left; reflexivity|exact H].
  Qed.
  Lemma cov_cons C a b A B : iaev a b -> cov C A B -> cov C (a :: A) (b :: B).
  Proof. intros H1 H2. apply (cov_app C [a] A [b] B); [apply cov_one, H1|exact H2]. Qed.
  Lemma cov_weaken (C C' : Prop) A B : (C -> C') -> cov C A B -> cov C' A B.
  Proof.
    intros Hc [H1 H2]. split; [exact H1|]. intros b Hb. destruct (H2 b Hb) as [H|[H3 H4]]; [left; exact H|right; split; [exact H3|apply Hc, H4]].
  Qed.
  Lemma cov_same C l : Forall same_aev l -> cov C l l.
  Proof.
    induction 1 as [|x l Hx _ IH]; [apply cov_nil|]. apply cov_cons; [|exact IH].
    destruct x as [[n|n] e]; left; (split; [|reflexivity]); constructor; apply INSame, Hx.
  Qed.
  Lemma cov_F2 {X Y} (C : Prop) (R : X -> Y -> Prop) (g : X -> list aev) (g' : Y -> list aev) l l' :
    Forall2 (fun x y => cov C (g x) (g' y)) l l' -> cov C (flat_map g l) (flat_map g' l').
  Proof. induction 1; cbn [flat_map]; [apply cov_nil|apply cov_app; assumption]. Qed.

  Lemma cov_children (C : Prop) (e : env) sels sels' :
    Forall (fun x => forall y e, isel F x y -> cov (In Fn (spreads_in [x])) (annot_selection s x e) (annot_selection s y e)) sels ->
    isels F sels sels' -> (forall c n, In c sels -> In n (spreads_in [c]) -> n = Fn -> C) ->
    cov C (flat_map (fun x => annot_selection s x e) sels) (flat_map (fun x => annot_selection s x e) sels').
  Proof.
    intros IH Hs Hc. apply (cov_F2 C (isel F)). rewrite Forall_forall in IH.
    eapply Forall2_impl_in; [|exact Hs]. intros c c' Hin Hcc. cbv beta.
    eapply cov_weaken; [|apply (IH c Hin c' e Hcc)]. intro H. apply (Hc c Fn Hin H eq_refl).
  Qed.

  Lemma isel_field_inv p al n args dirs sp sels y : isel F (SField p al n args dirs sp sels) y ->
    exists sels', y = SField p al n args dirs sp sels' /\ isels F sels sels'.
  Proof. intro H. inversion H; subst. eexists. split; [reflexivity|assumption]. Qed.
  Lemma isel_inline_inv p tc dirs sp sels y : isel F (SInline p tc dirs sp sels) y ->
    exists sels', y = SInline p tc dirs sp sels' /\ isels F sels sels'.
  Proof. intro H. inversion H; subst. eexists. split; [reflexivity|assumption]. Qed.
  Lemma isel_spread_inv p n dirs y : isel F (SSpread p n dirs) y ->
    y = SSpread p n dirs \/ (n = Fn /\ dirs = [] /\ exists p', y = SInline p' (Some T) [] (fr_span F) (fr_sels F)).
  Proof. intro H. inversion H; subst; [left; reflexivity|right]. repeat split. eexists. reflexivity. Qed.

  Lemma cov_selection x : forall y e, isel F x y ->
    cov (In Fn (spreads_in [x])) (annot_selection s x e) (annot_selection s y e).
  Proof.
    induction x as [p al n args dirs sp sels IH|p n dirs|p tc dirs sp sels IH] using selection_ind'; intros y e Hxy.
    - destruct (isel_field_inv _ _ _ _ _ _ _ _ Hxy) as (sels' & -> & Hs). cbn [annot_selection]; cbv zeta.
      set (fdef := opt_bind (a_parent e) (fun t => field_by_name t n)).
      set (e1 := at_type s e (opt_map fd_type fdef)).
      destruct (iaev_mk _ _ e1 (INField _ _ Hxy eq_refl)) as [H1 H2].
      destruct (iaev_mk _ _ (in_selection_set (in_field e1 fdef)) (INSelectionSet sp _ _ Hs)) as [H3 H4].
      apply cov_cons; [exact H1|]. apply cov_app; [apply cov_same, plain_same, annot_arguments_plain|].
      apply cov_app; [apply cov_same, annot_directives_same|]. apply cov_cons; [exact H3|].
      apply cov_app; [|apply cov_cons; [exact H4|apply cov_one, H2]].
      apply (cov_children _ _ sels sels' IH Hs). intros c m Hc Hm ->.
      apply (spreads_child (SField p al n args dirs sp sels) c Fn Hc Hm).
    - destruct (isel_spread_inv _ _ _ _ Hxy) as [->|(-> & -> & p' & ->)]; cbn [annot_selection]; cbv zeta.
      + destruct (iaev_mk _ _ e (INSpread (SSpread p n dirs))) as [H1 H2].
        apply cov_cons; [exact H1|]. apply cov_app; [apply cov_same, annot_directives_same|apply cov_one, H2].
      + (* the expansion *)
        cbn [annot_directives flat_map app]. fold (copy_env e).
        set (u := SSpread p Fn []). set (v := SInline p' (Some T) [] (fr_span F) (fr_sels F)).
        assert (Hex : expands F u v) by (exists p, p'; split; reflexivity).
        split.
        * intros a [<-|[<-|[]]].
          -- exists (Enter (NInline v), at_type s e (Some (TNamed T))). split; [left; reflexivity|].
             right. exists u, v. split; [exact Hex|]. split; [left; split; reflexivity|reflexivity].
          -- exists (Leave (NInline v), at_type s e (Some (TNamed T))).
             split; [right; right; apply in_app_iff; right; right; left; reflexivity|].
             right. exists u, v. split; [exact Hex|]. split; [right; split; reflexivity|reflexivity].
        * intros b Hb.
          assert (Hb' : b = (Enter (NInline v), at_type s e (Some (TNamed T))) \/
                        b = (Leave (NInline v), at_type s e (Some (TNamed T))) \/ In b (body_events (copy_env e))).
          { destruct Hb as [<-|Hb]; [left; reflexivity|]. unfold body_events.
            destruct Hb as [<-|Hb]; [right; right; left; reflexivity|]. apply in_app_iff in Hb.
            destruct Hb as [Hb|[<-|[<-|[]]]].
            - right. right. right. apply in_app_iff. left. exact Hb.
            - right. right. right. apply in_app_iff. right. left. reflexivity.
            - right. left. reflexivity. }
          destruct Hb' as [->|[->|Hb']].
          -- left. exists (Enter (NSpread u), e). split; [left; reflexivity|].
             right. exists u, v. split; [exact Hex|]. split; [left; split; reflexivity|reflexivity].
          -- left. exists (Leave (NSpread u), e). split; [right; left; reflexivity|].
             right. exists u, v. split; [exact Hex|]. split; [right; split; reflexivity|reflexivity].
          -- right. split; [apply (copy_has_twin e b Hb')|left; reflexivity].
    - destruct (isel_inline_inv _ _ _ _ _ _ Hxy) as (sels' & -> & Hs). cbn [annot_selection]; cbv zeta.
      set (e1 := match tc with Some cond => at_type s e (Some (TNamed cond)) | None => e end).
      destruct (iaev_mk _ _ e1 (INInline _ _ Hxy)) as [H1 H2].
      destruct (iaev_mk _ _ (in_selection_set e1) (INSelectionSet sp _ _ Hs)) as [H3 H4].
      apply cov_cons; [exact H1|]. apply cov_app; [apply cov_same, annot_directives_same|]. apply cov_cons; [exact H3|].
      apply cov_app; [|apply cov_cons; [exact H4|apply cov_one, H2]].
      apply (cov_children _ _ sels sels' IH Hs). intros c m Hc Hm ->.
      apply (spreads_child (SInline p tc dirs sp sels) c Fn Hc Hm).
  Qed.

  Lemma cov_items (C : Prop) (e : env) l l' : isels F l l' -> (In Fn (spreads_in l) -> C) ->
    cov C (flat_map (fun x => annot_selection s x e) l) (flat_map (fun x => annot_selection s x e) l').
  Proof.
    intros Hs Hc. apply (cov_children C e l l'); [|exact Hs|].
    - apply Forall_forall. intros x _. apply cov_selection.
    - intros c n Hin Hn ->. apply Hc. apply (spreads_in_one l c Hin), Hn.
  Qed.
  Lemma cov_selection_set sp l l' e : isels F l l' ->
    cov (In Fn (spreads_in l)) (annot_selection_set s sp l e) (annot_selection_set s sp l' e).
  Proof.
    intro Hs. unfold annot_selection_set. cbv zeta.
    destruct (iaev_mk _ _ (in_selection_set e) (INSelectionSet sp _ _ Hs)) as [H3 H4].
    apply cov_cons; [exact H3|]. apply cov_app; [|apply cov_one, H4]. apply cov_items; [exact Hs|exact (fun H => H)].
  Qed.
  Lemma cov_definition x y e : idef F x y ->
    cov (In Fn (spreads_in (def_sels x))) (annot_definition s x e) (annot_definition s y e).
  Proof.
    intros [o o' H|f f' H]; cbn [annot_definition def_sels]; cbv zeta.
    - destruct (iop_fields _ _ _ H) as (Hk & _ & _ & _ & _ & Hsp & Hs).
      rewrite <- Hk, <- Hsp, <- (iop_vardefs _ _ _ H), <- (iop_directives _ _ _ H).
      set (e1 := at_type s e (opt_map (fun t => TNamed (td_name t)) (root s (o_kind o)))).
      destruct (iaev_mk _ _ e1 (INOperation _ _ H)) as [H1 H2].
      apply cov_cons; [exact H1|]. apply cov_app; [apply cov_same, annot_directives_same|].
      apply cov_app; [apply cov_same, annot_vardefs_same|].
      apply cov_app; [apply cov_selection_set, Hs|apply cov_one, H2].
    - destruct (ifrag_fields _ _ _ H) as (_ & _ & Htc & Hdi & Hsp & Hs). rewrite <- Htc, <- Hsp, <- Hdi.
      set (e1 := at_type s e (Some (TNamed (fr_tc f)))).
      destruct (iaev_mk _ _ e1 (INFragmentDef _ _ H)) as [H1 H2].
      apply cov_cons; [exact H1|]. apply cov_app; [apply cov_same, annot_directives_same|].
      apply cov_app; [apply cov_selection_set, Hs|apply cov_one, H2].
  Qed.
  Lemma cov_document : cov True (annot s d) (annot s d').
  Proof.
    unfold annot. destruct (iaev_mk _ _ env0 (INDocument _ _ Hd)) as [H1 H2].
    apply cov_cons; [exact H1|]. apply cov_app; [|apply cov_one, H2].
    apply (cov_F2 True (idef F)). eapply Forall2_impl_in; [|exact Hd]. intros x y _ Hxy.
    eapply cov_weaken; [|apply cov_definition, Hxy]. intros _. exact I.
  Qed.

  (* a rule that is one predicate over the annotation *)
  Lemma annot_rule (p p' : aev -> bool) :
    (forall a b, iaev a b -> p a = p' b) -> (forall a b, twin a b -> p a = p' b) ->
    existsb p (annot s d) = existsb p' (annot s d').
  Proof.
    intros Hi Ht. destruct cov_document as [H1 H2]. apply bool_iff_eq. rewrite !existsb_exists. split.
    - intros (a & Ha & Hp). destruct (H1 a Ha) as (b & Hb & Hab). exists b. split; [exact Hb|rewrite <- (Hi a b Hab); exact Hp].
    - intros (b & Hb & Hp). destruct (H2 b Hb) as [(a & Ha & Hab)|[(a & Ha & Hab) _]].
      + exists a. split; [exact Ha|rewrite (Hi a b Hab); exact Hp].
      + exists a. split; [|rewrite (Ht a b Hab); exact Hp].
        apply (def_in_annot (DFrag F)); [apply F_in_doc|apply body_in_def, Ha].
  Qed.
  (* ---------------------------------------------------------------- the rules that read the annotation *)
  Lemma existsb_flat_map {A B} (q : B -> bool) (g : A -> list B) l :
    existsb q (flat_map g l) = existsb (fun x => existsb q (g x)) l.
  Proof. induction l as [|x l IH]; [reflexivity|]. cbn [flat_map existsb]. rewrite existsb_app, IH. reflexivity. Qed.

  Lemma isel_field x y : isel F x y -> is_field_sel x = true ->
    sel_name x = sel_name y /\ sel_args x = sel_args y /\ isels F (sel_sels x) (sel_sels y).
  Proof.
    intros H Hf. destruct (isel_cases F x y H) as [(p & p' & -> & _)|[Hs Hl]]; [discriminate|].
    destruct (same_head_fields x y Hs) as (_ & H1 & H2 & _). repeat split; assumption.
  Qed.
  Lemma sels_nil_inl l l' : isels F l l' ->
    match l with [] => true | _ => false end = match l' with [] => true | _ => false end.
  Proof. intros []; reflexivity. Qed.

  (* a predicate on the field events *)
  Lemma field_rule (q : selection * env -> bool) :
    (forall f f' e, isel F f f' -> is_field_sel f = true -> q (f, e) = q (f', e)) ->
    (forall f e e', sel_eqv e e' -> q (f, e) = q (f, e')) ->
    existsb q (field_events s d) = existsb q (field_events s d').
  Proof.
    intros Hq Ht. unfold field_events. rewrite !existsb_flat_map. apply annot_rule.
    - intros [ev e] [ev' e'] [[Hev He]|(u & v & _ & [[Hu Hv]|[Hu Hv]] & _)]; cbn [fst snd] in *; subst; try reflexivity.
      destruct Hev as [n n' Hn|n n' Hn]; [|reflexivity]. destruct Hn; try reflexivity.
      + cbn [existsb]. rewrite (Hq x x' e' H H0). reflexivity.
    - intros [ev e] [ev' e'] (Hev & He & _). cbn [fst snd] in *. subst ev'.
      destruct ev as [n|n]; [|reflexivity]. destruct n; try reflexivity. cbn [existsb]. rewrite (Ht f e e' He). reflexivity.
  Qed.

  Lemma i_leaf_field_selections : v_leaf_field_selections s d = v_leaf_field_selections s d'.
  Proof.
    unfold v_leaf_field_selections. apply field_rule.
    - intros f f' e Hff Hf. destruct (isel_field f f' Hff Hf) as (Hn & _ & Hs). rewrite Hn, (sels_nil_inl _ _ Hs). reflexivity.
    - intros f e e' (Ht & _ & _). rewrite Ht. reflexivity.
  Qed.
  Lemma i_fields_on_correct_type : v_fields_on_correct_type s d = v_fields_on_correct_type s d'.
  Proof.
    unfold v_fields_on_correct_type. f_equal.
    - apply (field_rule (fun fe : selection * env => let '(f, e) := fe in
               match a_parent e with
               | Some pt =>
                   let n := sel_name f in
                   negb (name_eqb n "__typename") &&
                   negb ((name_eqb n "__schema" || name_eqb n "__type") &&
                         match query_root_name s with Some q => name_eqb (td_name pt) q | None => false end) &&
                   is_none (field_by_name pt n)
               | None => false
               end)).
      + intros f f' e Hff Hf. destruct (isel_field f f' Hff Hf) as (Hn & _). rewrite Hn. reflexivity.
      + intros f e e' (_ & _ & Hp). rewrite Hp. reflexivity.
    - apply (F2_existsb (iop F)). eapply Forall2_impl_in; [|apply idoc_ops, Hd]. intros o o' _ H.
      destruct (iop_fields _ _ _ H) as (Hk & _ & _ & _ & _ & _ & Hs). rewrite <- Hk.
      destruct (o_kind o); try reflexivity. apply (root_typename_fields_inl F), Hs.
  Qed.

  Lemma i_possible_fragment_spreads : v_possible_fragment_spreads s d = v_possible_fragment_spreads s d'.
  Proof.
    unfold v_possible_fragment_spreads. apply annot_rule.
    - intros [ev e] [ev' e'] [[Hev He]|(u & v & (p & p' & -> & ->) & [[Hu Hv]|[Hu Hv]] & He)]; cbn [fst snd] in *; subst;
        try reflexivity.
      + destruct Hev as [n n' Hn|n n' Hn]; [|reflexivity]. destruct Hn; try reflexivity.
        * destruct x as [|p n dirs|]; try reflexivity.
          destruct (find_fragment_inl n) as [f f' Hf|]; [|reflexivity].
          destruct (ifrag_fields _ _ _ Hf) as (_ & _ & Htc & _). rewrite Htc. reflexivity.
        * destruct n; try discriminate; reflexivity.
      + rewrite find_fragment_F. reflexivity.
    - intros [ev e] [ev' e'] (Hev & (Ht & _ & Hp) & _). cbn [fst snd] in *. subst ev'.
      destruct ev as [n|n]; [|reflexivity]. destruct n; try reflexivity.
      + destruct f as [|p n dirs|]; try reflexivity.
        destruct (find_fragment_inl n) as [f f' Hf|]; [|reflexivity].
        destruct (ifrag_fields _ _ _ Hf) as (_ & _ & Htc & _). rewrite Htc, Hp. reflexivity.
      + rewrite Ht, Hp. reflexivity.
  Qed.

  Lemma directive_events_inl (q : directive -> bool) :
    existsb q (directive_events s d) = existsb q (directive_events s d').
  Proof.
    unfold directive_events. rewrite !existsb_flat_map. apply annot_rule.
    - intros [ev e] [ev' e'] [[Hev He]|(u & v & _ & [[Hu Hv]|[Hu Hv]] & _)]; cbn [fst snd] in *; subst; try reflexivity.
      destruct Hev as [n n' Hn|n n' Hn]; [|reflexivity]. destruct Hn; reflexivity.
    - intros [ev e] [ev' e'] (Hev & _). cbn [fst snd] in *. subst ev'. reflexivity.
  Qed.

  Lemma i_known_argument_names : v_known_argument_names s d = v_known_argument_names s d'.
  Proof.
    unfold v_known_argument_names. f_equal; [|apply directive_events_inl]. apply field_rule.
    - intros f f' e Hff Hf. destruct (isel_field f f' Hff Hf) as (Hn & Ha & _). unfold field_decls. cbn [fst snd].
      rewrite Hn, Ha. reflexivity.
    - intros f e e' (_ & _ & Hp). unfold field_decls. cbn [fst snd]. rewrite Hp. reflexivity.
  Qed.
  Lemma i_unique_argument_names : v_unique_argument_names s d = v_unique_argument_names s d'.
  Proof.
    unfold v_unique_argument_names. f_equal; [|apply directive_events_inl].
    apply (field_rule (fun fe : selection * env => v_args_duplicated (sel_args (fst fe)))).
    - intros f f' e Hff Hf. destruct (isel_field f f' Hff Hf) as (_ & Ha & _). cbn [fst]. rewrite Ha. reflexivity.
    - reflexivity.
  Qed.
  Lemma i_provided_required_arguments : v_provided_required_arguments s d = v_provided_required_arguments s d'.
  Proof.
    unfold v_provided_required_arguments. f_equal; [|apply directive_events_inl]. apply field_rule.
    - intros f f' e Hff Hf. destruct (isel_field f f' Hff Hf) as (Hn & Ha & _). unfold field_decls. cbn [fst snd].
      rewrite Hn, Ha. reflexivity.
    - intros f e e' (_ & _ & Hp). unfold field_decls. cbn [fst snd]. rewrite Hp. reflexivity.
  Qed.
  Lemma i_values_of_correct_type : v_values_of_correct_type s d = v_values_of_correct_type s d'.
  Proof.
    unfold v_values_of_correct_type, literal_positions. rewrite !existsb_flat_map. apply annot_rule.
    - intros [ev e] [ev' e'] [[Hev He]|(u & v & _ & [[Hu Hv]|[Hu Hv]] & _)]; cbn [fst snd] in *; subst; try reflexivity.
      destruct Hev as [n n' Hn|n n' Hn]; [|reflexivity]. destruct Hn; reflexivity.
    - intros [ev e] [ev' e'] (Hev & _ & Hv). cbn [fst snd] in *. subst ev'.
      destruct ev as [n|n]; [|reflexivity]. destruct n; try reflexivity.
      + destruct (Hv eq_refl) as (_ & _ & Hl). rewrite Hl. reflexivity.
      + destruct (Hv eq_refl) as (_ & _ & Hl). rewrite Hl. reflexivity.
  Qed.
  (* ---------------------------------------------------------------- variable usages *)
  Definition gu (ea : aev) : list (name * ty * bool) :=
    match fst ea with
    | Enter (NField f) => args_usages s (field_decls (f, snd ea)) (sel_args f)
    | Enter (NDirective dr) => args_usages s (directive_decls s dr) (d_args dr)
    | _ => []
    end.
  Lemma definition_usages_gu x : definition_usages s x = flat_map gu (annot_definition s x env0).
  Proof. reflexivity. Qed.
  Lemma gu_iaev a b : iaev a b -> gu a = gu b.
  Proof.
    destruct a as [ev e], b as [ev' e']. intros [[Hev He]|(u & v & _ & [[Hu Hv]|[Hu Hv]] & _)]; cbn [fst snd] in *; subst;
      try reflexivity.
    destruct Hev as [n n' Hn|n n' Hn]; [|reflexivity]. destruct Hn; try reflexivity.
    unfold gu. cbn [fst snd]. destruct (isel_field x x' H H0) as (Hn & Ha & _). unfold field_decls. cbn [fst snd].
    rewrite Hn, Ha. reflexivity.
  Qed.
  Lemma gu_twin a b : twin a b -> gu a = gu b.
  Proof.
    destruct a as [ev e], b as [ev' e']. intros (Hev & (_ & _ & Hp) & _). cbn [fst snd] in *. subst ev'.
    destruct ev as [n|n]; [|reflexivity]. destruct n; try reflexivity.
    unfold gu, field_decls. cbn [fst snd]. rewrite Hp. reflexivity.
  Qed.
  Lemma usages_F : definition_usages s (DFrag F) = flat_map gu (body_events def_env).
  Proof.
    rewrite definition_usages_gu. cbn [annot_definition]. cbv zeta. rewrite Hdirs. cbn [annot_directives flat_map app].
    rewrite flat_map_app. cbn [flat_map gu fst app]. rewrite app_nil_r. reflexivity.
  Qed.

  Lemma usages_fwd x y u : idef F x y -> In u (definition_usages s x) -> In u (definition_usages s y).
  Proof.
    intros Hxy Hu. rewrite definition_usages_gu in *. apply in_flat_map in Hu. destruct Hu as (a & Ha & Hu).
    destruct (proj1 (cov_definition x y env0 Hxy) a Ha) as (b & Hb & Hab).
    apply in_flat_map. exists b. split; [exact Hb|rewrite <- (gu_iaev a b Hab); exact Hu].
  Qed.
  Lemma usages_bwd x y u : idef F x y -> In u (definition_usages s y) ->
    In u (definition_usages s x) \/ (In Fn (spreads_in (def_sels x)) /\ In u (definition_usages s (DFrag F))).
  Proof.
    intros Hxy Hu. rewrite usages_F. rewrite definition_usages_gu in *. apply in_flat_map in Hu. destruct Hu as (b & Hb & Hu).
    destruct (proj2 (cov_definition x y env0 Hxy) b Hb) as [(a & Ha & Hab)|[(a & Ha & Hab) HC]].
    - left. apply in_flat_map. exists a. split; [exact Ha|rewrite (gu_iaev a b Hab); exact Hu].
    - right. split; [exact HC|]. apply in_flat_map. exists a. split; [exact Ha|rewrite (gu_twin a b Hab); exact Hu].
  Qed.

  (* the events of a selection below x are among the events of x *)
  Lemma events_below x : forall v e, In v (sel_all x) -> exists ev, incl (annot_selection s v ev) (annot_selection s x e).
  Proof.
    induction x as [p al n args dirs sp sels IH|p n dirs|p tc dirs sp sels IH] using selection_ind';
      intros v e Hv; rewrite sel_all_sub in Hv; (destruct Hv as [<-|Hv]; [exists e; apply incl_refl|]); cbn [sel_sels] in Hv.
    - apply in_sels_all in Hv. destruct Hv as (c & Hc & Hv). rewrite Forall_forall in IH.
      cbn [annot_selection]. cbv zeta.
      set (e3 := in_selection_set (in_field (at_type s e (opt_map fd_type (opt_bind (a_parent e) (fun t => field_by_name t n))))
                                             (opt_bind (a_parent e) (fun t => field_by_name t n)))).
      destruct (IH c Hc v e3 Hv) as (ev & Hev). exists ev. intros a Ha. right. apply in_app_iff. right. apply in_app_iff. right.
      right. apply in_app_iff. left. apply in_flat_map. exists c. split; [exact Hc|apply Hev, Ha].
    - destruct Hv.
    - apply in_sels_all in Hv. destruct Hv as (c & Hc & Hv). rewrite Forall_forall in IH.
      cbn [annot_selection]. cbv zeta.
      set (e3 := in_selection_set (match tc with Some cond => at_type s e (Some (TNamed cond)) | None => e end)).
      destruct (IH c Hc v e3 Hv) as (ev & Hev). exists ev. intros a Ha. right. apply in_app_iff. right.
      right. apply in_app_iff. left. apply in_flat_map. exists c. split; [exact Hc|apply Hev, Ha].
  Qed.
  Lemma events_below_def y v e : In v (sels_all (def_sels y)) -> exists ev, incl (annot_selection s v ev) (annot_definition s y e).
  Proof.
    intro Hv. apply in_sels_all in Hv. destruct Hv as (c & Hc & Hv).
    destruct y as [o|f]; cbn [def_sels annot_definition] in *; cbv zeta; unfold annot_selection_set; cbv zeta.
    - set (e3 := in_selection_set (at_type s e (opt_map (fun t => TNamed (td_name t)) (root s (o_kind o))))).
      destruct (events_below c v e3 Hv) as (ev & Hev). exists ev. intros a Ha. right. apply in_app_iff. right. apply in_app_iff. right.
      apply in_app_iff. left. right. apply in_app_iff. left. apply in_flat_map. exists c. split; [exact Hc|apply Hev, Ha].
    - set (e3 := in_selection_set (at_type s e (Some (TNamed (fr_tc f))))).
      destruct (events_below c v e3 Hv) as (ev & Hev). exists ev. intros a Ha. right. apply in_app_iff. right.
      apply in_app_iff. left. right. apply in_app_iff. left. apply in_flat_map. exists c. split; [exact Hc|apply Hev, Ha].
  Qed.

  Lemma spread_or_copy_v l l' : isels F l l' -> In Fn (spreads_in l) ->
    In Fn (spreads_in l') \/ exists p', In (SInline p' (Some T) [] (fr_span F) (fr_sels F)) (sels_all l').
  Proof.
    intros H Hin. unfold spreads_in in Hin. apply in_flat_map in Hin. destruct Hin as (u & Hu & Hin).
    destruct u as [|p n dirs|]; try contradiction. destruct Hin as [Hn|[]]. subst n.
    destruct (cov_fwd F l l' H _ Hu) as (v & Hv & Huv). destruct (isel_spread_inv _ _ _ _ Huv) as [->|(_ & _ & p' & ->)].
    - left. unfold spreads_in. apply in_flat_map. exists (SSpread p Fn dirs). split; [exact Hv|left; reflexivity].
    - right. exists p'. exact Hv.
  Qed.
  Lemma copy_body_events p' ev : incl (body_events (copy_env ev))
                                     (annot_selection s (SInline p' (Some T) [] (fr_span F) (fr_sels F)) ev).
  Proof.
    intros a Ha. cbn [annot_selection]. cbv zeta. cbn [annot_directives flat_map app]. fold (copy_env ev).
    unfold body_events in Ha. right. destruct Ha as [<-|Ha]; [left; reflexivity|right].
    apply in_app_iff in Ha. apply in_app_iff. destruct Ha as [Ha|[<-|[]]]; [left; exact Ha|right; left; reflexivity].
  Qed.
  Lemma usages_copy x y : idef F x y -> In Fn (spreads_in (def_sels x)) ->
    In Fn (spreads_in (def_sels y)) \/
    ((forall b, edge d Fn b -> In b (spreads_in (def_sels y))) /\
     (forall u, In u (definition_usages s (DFrag F)) -> In u (definition_usages s y))).
  Proof.
    intros Hxy Hin. pose proof (idef_sels F x y Hxy) as Hs.
    destruct (spread_or_copy_v _ _ Hs Hin) as [H|(p' & Hv)]; [left; exact H|right]. split.
    - destruct (spreads_copy _ _ Hs Hin) as [H|[_ H]]; [|exact H].
      (* both a remaining spread and a copy *)
      intros b Hb. apply edge_F in Hb. unfold spreads_in in *. apply in_flat_map in Hb. destruct Hb as (w & Hw & Hb).
      apply in_flat_map. exists w. split; [|exact Hb].
      eapply expands_copy; [exact Hv|exists (fr_pos F), p'; split; reflexivity|exact Hw].
    - intros u Hu. rewrite usages_F in Hu. apply in_flat_map in Hu. destruct Hu as (a & Ha & Hu).
      destruct (events_below_def y _ env0 Hv) as (ev & Hev).
      destruct (F2_in_l _ _ _ a (twin_body ev) Ha) as (b & Hb & Hab).
      rewrite definition_usages_gu. apply in_flat_map. exists b. split; [apply Hev, (copy_body_events p' ev), Hb|].
      rewrite <- (gu_twin a b Hab). exact Hu.
  Qed.

  Definition frag_usages (dd : document) (n : name) : list (name * ty * bool) :=
    flat_map (fun f => if name_eqb (fr_name f) n then definition_usages s (DFrag f) else []) (fragments_of dd).
  Lemma in_frag_usages dd n u :
    In u (frag_usages dd n) <-> exists f, In f (fragments_of dd) /\ fr_name f = n /\ In u (definition_usages s (DFrag f)).
  Proof.
    unfold frag_usages. rewrite in_flat_map. split.
    - intros (f & Hf & Hb). destruct (name_eqb (fr_name f) n) eqn:E; [|destruct Hb]. apply name_eqb_eq in E.
      exists f. repeat split; assumption.
    - intros (f & Hf & <- & Hb). exists f. split; [exact Hf|]. rewrite name_eqb_refl. exact Hb.
  Qed.
  Lemma frag_usages_F u : In u (frag_usages d Fn) <-> In u (definition_usages s (DFrag F)).
  Proof.
    rewrite in_frag_usages. split.
    - intros (f & Hf & Hn & Hu). rewrite (Hone f Hf Hn) in Hu. exact Hu.
    - intro Hu. exists F. repeat split; assumption.
  Qed.

  Lemma op_usages_inl o o' : iop F o o' -> eqset (op_usages s d o) (op_usages s d' o').
  Proof.
    intros Ho x. pose proof (iop_sels _ _ Ho) as Hs. unfold op_usages, op_reachable_fragments.
    fold (frag_usages d) (frag_usages d').
    set (P0 := definition_usages s (DOp o)). set (P0' := definition_usages s (DOp o')).
    rewrite !in_app_iff, !in_flat_map.
    assert (E : forall dd l y, (exists n, In n (spread_closure (S (List.length (fragments_of dd))) dd (dedup_names l)) /\ In y (frag_usages dd n)) <->
                               (exists n, from dd l n /\ In y (frag_usages dd n))).
    { intros dd l y. split; intros (n & Hn & Hy); exists n; (split; [apply closure_from, Hn|exact Hy]). }
    rewrite !E.
    assert (Hdef : idef F (DOp o) (DOp o')) by (constructor; exact Ho).
    apply (total_iff P0 P0' (spreads_in (o_sels o)) (spreads_in (o_sels o')) (frag_usages d) (frag_usages d')); unfold P0, P0'.
    - intros b Hb Hne. apply (spreads_fwd _ _ b Hs Hb Hne).
    - intros b Hb. apply (spreads_bwd _ _ b Hs Hb).
    - intro Hb. destruct (usages_copy _ _ Hdef Hb) as [H1|[H1 H2]]; [left; exact H1|right]. split; [exact H1|].
      intros y Hy. apply H2, frag_usages_F, Hy.
    - intros y Hy. apply (usages_fwd _ _ y Hdef Hy).
    - intros y Hy. destruct (usages_bwd _ _ y Hdef Hy) as [H1|[H1 H2]]; [left; exact H1|right].
      split; [exact H1|apply frag_usages_F, H2].
    - intros n y. rewrite !in_frag_usages. intros (f & Hf & Hn & Hy).
      destruct (F2_in_l _ _ _ f (idoc_frags F _ _ Hd) Hf) as (f' & Hf' & Hff).
      destruct (ifrag_fields _ _ _ Hff) as (_ & Hname & _). exists f'. split; [exact Hf'|]. split; [rewrite <- Hname; exact Hn|].
      apply (usages_fwd (DFrag f) (DFrag f') y); [constructor; exact Hff|exact Hy].
    - intros n y. rewrite frag_usages_F, !in_frag_usages. intros (f' & Hf' & Hn & Hy).
      destruct (F2_in_r _ _ _ f' (idoc_frags F _ _ Hd) Hf') as (f & Hf & Hff).
      destruct (ifrag_fields _ _ _ Hff) as (_ & Hname & _).
      destruct (usages_bwd (DFrag f) (DFrag f') y (IDFrag F _ _ Hff) Hy) as [H1|[H1 H2]].
      + left. exists f. split; [exact Hf|]. split; [rewrite Hname; exact Hn|exact H1].
      + right. split; [|exact H2]. apply in_fragment_spreads. exists f. split; [exact Hf|]. split; [rewrite Hname; exact Hn|exact H1].
    - intros n He. unfold C06_graph_proofs.edge in He. apply in_fragment_spreads in He. destruct He as (f & Hf & Hn & Hb).
      destruct (F2_in_l _ _ _ f (idoc_frags F _ _ Hd) Hf) as (f' & Hf' & Hff).
      destruct (ifrag_fields _ _ _ Hff) as (_ & Hname & _).
      destruct (usages_copy (DFrag f) (DFrag f') (IDFrag F _ _ Hff) Hb) as [H1|[H1 H2]].
      + left. apply in_fragment_spreads. exists f'. split; [exact Hf'|]. split; [rewrite <- Hname; exact Hn|exact H1].
      + right. split.
        * intros b Hb'. apply in_fragment_spreads. exists f'. split; [exact Hf'|]. split; [rewrite <- Hname; exact Hn|apply H1, Hb'].
        * intros y Hy. apply frag_usages_F in Hy. apply in_frag_usages. exists f'. split; [exact Hf'|].
          split; [rewrite <- Hname; exact Hn|apply H2, Hy].
  Qed.
  Lemma i_variables_in_allowed_position : v_variables_in_allowed_position s d = v_variables_in_allowed_position s d'.
  Proof.
    unfold v_variables_in_allowed_position. apply (F2_existsb (iop F)). eapply Forall2_impl_in; [|apply idoc_ops, Hd].
    intros o o' _ H. rewrite <- (iop_vardefs _ _ _ H). apply existsb_eqset; [apply op_usages_inl, H|reflexivity].
  Qed.
  (* ---------------------------------------------------------------- single-field subscriptions *)
  Definition phiS (x : selection) : name * bool := (field_response_key x, is_introspection_field x).

  Lemma sfs_bad_keys l l' : (forall k, In k (map phiS l) <-> In k (map phiS l')) -> sfs_bad l = sfs_bad l'.
  Proof.
    intro H. unfold sfs_bad. rewrite !group_introspection. f_equal.
    - f_equal. unfold group_by_key. rewrite !map_length.
      apply Permutation_length, NoDup_Permutation; [apply distinct_keys_spec|apply distinct_keys_spec|].
      intro k. rewrite !(proj2 (distinct_keys_spec _ [])).
      assert (E : forall m, In k (map field_response_key m) <-> exists b, In (k, b) (map phiS m)).
      { intro m. rewrite in_map_iff. split.
        - intros (x & <- & Hx). exists (is_introspection_field x). apply (in_map phiS), Hx.
        - intros (b & Hb). apply in_map_iff in Hb. destruct Hb as (x & Hx & Hin). exists x. split; [|exact Hin].
          unfold phiS in Hx. congruence. }
      split; intros [H1 H2]; (split; [|exact H2]); apply E; apply E in H1; destruct H1 as (b & Hb); exists b; apply H, Hb.
    - apply bool_iff_eq. rewrite !existsb_exists.
      assert (E : forall m, (exists x, In x m /\ is_introspection_field x = true) <-> exists k, In (k, true) (map phiS m)).
      { intro m. split.
        - intros (x & Hx & Hi). exists (field_response_key x). rewrite <- Hi. apply (in_map phiS), Hx.
        - intros (k & Hk). apply in_map_iff in Hk. destruct Hk as (x & Hx & Hin). exists x. split; [exact Hin|].
          unfold phiS in Hx. congruence. }
      rewrite !E. split; intros (k & Hk); exists k; apply H, Hk.
  Qed.

  Section SFS.
    Variable obj : type_def.
    Notation bS := (bodyS s obj d).
    Notation bS' := (bodyS s obj d').
    Notation NBs := (nbody bS Fn).

    Lemma find_fragment_F' : find_fragment d' Fn = Some F.
    Proof.
      unfold find_fragment. destruct (find_first (fun f => name_eqb (fr_name f) Fn) (rev (fragments_of d'))) as [f|] eqn:E.
      - apply find_first_some_in in E. destruct E as [Hin Hn]. apply name_eqb_eq in Hn. apply in_rev in Hin.
        rewrite (Hone' f Hin Hn). reflexivity.
      - rewrite find_first_none_iff in E. specialize (E F (proj1 (in_rev _ _) F_in_d')). rewrite name_eqb_refl in E. discriminate.
    Qed.
    Lemma NBs_eq : NBs = if fragment_type_applies s obj T then flat_map (flatS s obj) (fr_sels F) else [].
    Proof. unfold nbody, bodyS. rewrite find_fragment_F. destruct (fragment_type_applies s obj T); reflexivity. Qed.

    Lemma flatS_ratoms x : forall y, isel F x y -> ratoms phiS bS Fn (flatS s obj x) (flatS s obj y).
    Proof.
      induction x as [p al n args dirs sp sels IH|p n dirs|p tc dirs sp sels IH] using selection_ind'; intros y Hxy.
      - destruct (isel_field_inv _ _ _ _ _ _ _ _ Hxy) as (sels' & -> & Hs). cbn [flatS].
        constructor; [reflexivity|constructor].
      - destruct (isel_spread_inv _ _ _ _ Hxy) as [->|(-> & -> & p' & ->)]; cbn [flatS].
        + constructor. constructor.
        + cbn [tc_applies]. rewrite <- NBs_eq. rewrite <- (app_nil_r NBs). apply ra_expand. constructor.
      - destruct (isel_inline_inv _ _ _ _ _ _ Hxy) as (sels' & -> & Hs). cbn [flatS].
        destruct (tc_applies s obj tc); [|constructor].
        apply (ratoms_flat_map phiS bS Fn (isel F)); [exact Hs|]. intros c c' Hc Hcc. rewrite Forall_forall in IH. apply (IH c Hc c' Hcc).
    Qed.
    Lemma flatS_list_ratoms l l' : isels F l l' ->
      ratoms phiS bS Fn (flat_map (flatS s obj) l) (flat_map (flatS s obj) l').
    Proof. intro H. apply (ratoms_flat_map phiS bS Fn (isel F)); [exact H|]. intros x y _. apply flatS_ratoms. Qed.
    Lemma bodyS_ratoms n : ratoms phiS bS Fn (nbody bS n) (nbody bS' n).
    Proof.
      unfold nbody, bodyS. destruct (find_fragment_inl n) as [f f' Hf|]; [|constructor].
      destruct (ifrag_fields _ _ _ Hf) as (_ & _ & Htc & _ & _ & Hs). rewrite <- Htc.
      destruct (fragment_type_applies s obj (fr_tc f)); [|constructor]. apply flatS_list_ratoms, Hs.
    Qed.
    Lemma succs_flatS l n : In n (succs (flat_map (flatS s obj) l)) -> In n (spreads_in l).
    Proof.
      assert (G : forall x, In n (succs (flatS s obj x)) -> In n (spreads_in [x])).
      { intro x. induction x as [p al m args dirs sp sels IH|p m dirs|p tc dirs sp sels IH] using selection_ind'; cbn [flatS].
        - intros [].
        - intros [<-|[]]. left. reflexivity.
        - destruct (tc_applies s obj tc); [|intros []]. intro H. unfold succs in H. rewrite C06_graph_proofs.flat_map_flat_map in H.
          apply in_flat_map in H. destruct H as (c & Hc & H). rewrite Forall_forall in IH.
          eapply spreads_child; [|apply (IH c Hc), H]. exact Hc. }
      intro H. unfold succs in H. rewrite C06_graph_proofs.flat_map_flat_map in H. apply in_flat_map in H.
      destruct H as (x & Hx & H). apply (spreads_in_one l x Hx), G, H.
    Qed.
    Lemma NBs_noself : ~ In Fn (succs NBs).
    Proof.
      rewrite NBs_eq. destruct (fragment_type_applies s obj T); [|intros []]. intro H. apply no_self_spread, succs_flatS, H.
    Qed.

    Lemma spec_collect_inl l l' : isels F l l' ->
      sfs_bad (fst (spec_collect_list (S (S (List.length (fragments_of d)))) s d obj l [])) =
      sfs_bad (fst (spec_collect_list (S (S (List.length (fragments_of d')))) s d' obj l' [])).
    Proof.
      intro H. apply sfs_bad_keys. rewrite !spec_collect_list_flat.
      apply (dfs_keys phiS bS bS' Fn bodyS_ratoms NBs_noself (frag_names d) (frag_names d') (bodyS_U s obj d) (bodyS_U s obj d')).
      - pose proof (filter_length_all (fun k => negb (mem_name k [])) (frag_names d)) as Hl. unfold unvisited, frag_names in *.
        rewrite map_length in Hl. lia.
      - pose proof (filter_length_all (fun k => negb (mem_name k [])) (frag_names d')) as Hl. unfold unvisited, frag_names in *.
        rewrite map_length in Hl. lia.
      - apply flatS_list_ratoms, H.
    Qed.
  End SFS.

  Lemma i_single_field_subscriptions : v_single_field_subscriptions s d = v_single_field_subscriptions s d'.
  Proof.
    unfold v_single_field_subscriptions. apply (F2_existsb (iop F)). eapply Forall2_impl_in; [|apply idoc_ops, Hd].
    intros o o' _ H. destruct (iop_fields _ _ _ H) as (Hk & _ & _ & _ & _ & _ & Hs). rewrite <- Hk.
    destruct (o_kind o); try reflexivity. destruct (root s OpSubscription) as [t|]; [|reflexivity].
    unfold spec_collect. apply (spec_collect_inl t _ _ Hs).
  Qed.
  (* ---------------------------------------------------------------- field merging *)
  Hypothesis HT : is_some (type_by_name s T) = true.

  Definition rcfi (c c' : cfield) : Prop :=
    cf_parent c = cf_parent c' /\ isel F (cf_field c) (cf_field c') /\ is_field_sel (cf_field c) = true.
  Notation bC := (bodyC s d).
  Notation bC' := (bodyC s d').

  Lemma NBc_eq : nbody bC Fn = flat_map (flatC s (type_by_name s T)) (fr_sels F).
  Proof. unfold nbody, bodyC. rewrite find_fragment_F. reflexivity. Qed.
  Lemma inl_parent_T p : inl_parent s (Some T) p = type_by_name s T.
  Proof. unfold inl_parent. cbn [opt_bind]. destruct (type_by_name s T); [reflexivity|discriminate HT]. Qed.

  Lemma flatC_ratoms x : forall y p, isel F x y -> ratomsR rcfi bC Fn (flatC s p x) (flatC s p y).
  Proof.
    induction x as [q al n args dirs sp sels IH|q n dirs|q tc dirs sp sels IH] using selection_ind'; intros y p Hxy.
    - destruct (isel_field_inv _ _ _ _ _ _ _ _ Hxy) as (sels' & -> & Hs). cbn [flatC].
      constructor; [|constructor]. split; [reflexivity|split; [exact Hxy|reflexivity]].
    - destruct (isel_spread_inv _ _ _ _ Hxy) as [->|(-> & -> & p' & ->)]; cbn [flatC].
      + constructor. constructor.
      + rewrite inl_parent_T, <- NBc_eq. rewrite <- (app_nil_r (nbody bC Fn)). apply rr_expand. constructor.
    - destruct (isel_inline_inv _ _ _ _ _ _ Hxy) as (sels' & -> & Hs). cbn [flatC].
      apply (ratomsR_flat_map rcfi bC Fn (isel F)); [exact Hs|]. intros c c' Hc Hcc. rewrite Forall_forall in IH. apply (IH c Hc c' _ Hcc).
  Qed.
  Lemma flatC_list_ratoms p l l' : isels F l l' ->
    ratomsR rcfi bC Fn (flat_map (flatC s p) l) (flat_map (flatC s p) l').
  Proof. intro H. apply (ratomsR_flat_map rcfi bC Fn (isel F)); [exact H|]. intros x y _. apply flatC_ratoms. Qed.
  Lemma bodyC_ratoms n : ratomsR rcfi bC Fn (nbody bC n) (nbody bC' n).
  Proof.
    unfold nbody, bodyC. destruct (find_fragment_inl n) as [f f' Hf|]; [|constructor].
    destruct (ifrag_fields _ _ _ Hf) as (_ & _ & Htc & _ & _ & Hs). rewrite <- Htc. apply flatC_list_ratoms, Hs.
  Qed.
  Lemma afields_flatC p l c : In c (afields (flat_map (flatC s p) l)) -> is_field_sel (cf_field c) = true.
  Proof.
    assert (G : forall x p, In c (afields (flatC s p x)) -> is_field_sel (cf_field c) = true).
    { intro x. induction x as [q al n args dirs sp sels IH|q n dirs|q tc dirs sp sels IH] using selection_ind'; intro p0; cbn [flatC].
      - intros [<-|[]]. reflexivity.
      - intros [].
      - intro H. unfold afields in H. rewrite C06_graph_proofs.flat_map_flat_map in H. apply in_flat_map in H.
        destruct H as (z & Hz & H). rewrite Forall_forall in IH. apply (IH z Hz _ H). }
    intro H. unfold afields in H. rewrite C06_graph_proofs.flat_map_flat_map in H. apply in_flat_map in H.
    destruct H as (x & _ & H). apply (G x p H).
  Qed.
  Lemma succs_flatC p l n : In n (succs (flat_map (flatC s p) l)) -> In n (spreads_in l).
  Proof.
    assert (G : forall x p, In n (succs (flatC s p x)) -> In n (spreads_in [x])).
    { intro x. induction x as [q al m args dirs sp sels IH|q m dirs|q tc dirs sp sels IH] using selection_ind'; intro p0; cbn [flatC].
      - intros [].
      - intros [<-|[]]. left. reflexivity.
      - intro H. unfold succs in H. rewrite C06_graph_proofs.flat_map_flat_map in H.
        apply in_flat_map in H. destruct H as (c & Hc & H). rewrite Forall_forall in IH.
        eapply spreads_child; [exact Hc|]. apply (IH c Hc (inl_parent s tc p0)). exact H. }
    intro H. unfold succs in H. rewrite C06_graph_proofs.flat_map_flat_map in H. apply in_flat_map in H.
    destruct H as (x & Hx & H). apply (spreads_in_one l x Hx), (G x p), H.
  Qed.

  Definition covers2 (A B : list cfield) : Prop :=
    (forall x, In x A -> exists y, In y B /\ rcfi x y) /\ (forall y, In y B -> exists x, In x A /\ rcfi x y).

  Lemma collected_cover p l l' : isels F l l' -> covers2 (collected s d p l) (collected s d' p l').
  Proof.
    intro H. unfold collected, set_fuel. rewrite !collect_set_flat.
    apply (dfs_cover rcfi bC bC' Fn) with (U := frag_names d) (U' := frag_names d'); try apply flatC_list_ratoms, H.
    - intros x Hx. rewrite NBc_eq in Hx. split; [reflexivity|]. split; [apply isel_refl|apply (afields_flatC _ _ _ Hx)].
    - apply bodyC_ratoms.
    - rewrite NBc_eq. intro Hn. apply no_self_spread, (succs_flatC _ _ _ Hn).
    - apply (bodyC_U s d).
    - apply (bodyC_U s d').
    - pose proof (filter_length_all (fun k => negb (mem_name k [])) (frag_names d)) as Hl. unfold unvisited, frag_names in *.
      rewrite map_length in Hl. lia.
    - pose proof (filter_length_all (fun k => negb (mem_name k [])) (frag_names d')) as Hl. unfold unvisited, frag_names in *.
      rewrite map_length in Hl. lia.
  Qed.

  Lemma rcfi_fields c c' : rcfi c c' ->
    cf_def c = cf_def c' /\ cf_key c = cf_key c' /\ sel_name (cf_field c) = sel_name (cf_field c') /\
    sel_args (cf_field c) = sel_args (cf_field c') /\ isels F (sel_sels (cf_field c)) (sel_sels (cf_field c')).
  Proof.
    intros (Hp & Hi & Hf). destruct (isel_cases F _ _ Hi) as [(q & q' & E & _)|[Hs Hl]]; [rewrite E in Hf; discriminate|].
    destruct (same_head_fields _ _ Hs) as (_ & Hn & Ha & _ & Hk & _). unfold cf_def, cf_key. rewrite Hp, Hn. repeat split; assumption.
  Qed.
  Lemma sub_set_cover c c' : rcfi c c' -> covers2 (sub_set s d c) (sub_set s d' c').
  Proof.
    intro H. destruct (rcfi_fields c c' H) as (Hdef & _ & _ & _ & Hs). unfold sub_set. rewrite <- Hdef. apply collected_cover, Hs.
  Qed.
  Lemma level_ok_inl m a a' b b' : rcfi a a' -> rcfi b b' -> C05_frag_spec.level_ok s m a b = C05_frag_spec.level_ok s m a' b'.
  Proof.
    intros Ha Hb. destruct (rcfi_fields a a' Ha) as (Hd1 & _ & Hn1 & Ha1 & _). destruct (rcfi_fields b b' Hb) as (Hd2 & _ & Hn2 & Ha2 & _).
    unfold C05_frag_spec.level_ok, parents_exclusive. rewrite (proj1 Ha), (proj1 Hb), Hd1, Hd2, Hn1, Hn2, Ha1, Ha2. reflexivity.
  Qed.
  Lemma pe_inl a a' b b' : rcfi a a' -> rcfi b b' -> parents_exclusive a b = parents_exclusive a' b'.
  Proof. intros Ha Hb. unfold parents_exclusive. rewrite (proj1 Ha), (proj1 Hb). reflexivity. Qed.

  (* the pairwise condition, with the same fuel on both sides *)
  Lemma fcm_inl : forall n m a a' b b', rcfi a a' -> rcfi b b' ->
    fields_can_merge n s d m a b = fields_can_merge n s d' m a' b'.
  Proof.
    induction n as [|n IH]; intros m a a' b b' Ha Hb; [reflexivity|].
    apply bool_iff_eq. rewrite !C05_frag_spec.fcm_true_iff, <- (level_ok_inl m a a' b b' Ha Hb), <- (pe_inl a a' b b' Ha Hb).
    destruct (sub_set_cover a a' Ha) as [A1 A2]. destruct (sub_set_cover b b' Hb) as [B1 B2].
    split; intros [H1 H2]; (split; [exact H1|]).
    - intros x' y' Hx' Hy' Hk. destruct (A2 x' Hx') as (x & Hx & Rx). destruct (B2 y' Hy') as (y & Hy & Ry).
      rewrite <- (IH _ x x' y y' Rx Ry). apply H2; [exact Hx|exact Hy|].
      destruct (rcfi_fields x x' Rx) as (_ & -> & _). destruct (rcfi_fields y y' Ry) as (_ & -> & _). exact Hk.
    - intros x y Hx Hy Hk. destruct (A1 x Hx) as (x' & Hx' & Rx). destruct (B1 y Hy) as (y' & Hy' & Ry).
      rewrite (IH _ x x' y y' Rx Ry). apply H2; [exact Hx'|exact Hy'|].
      destruct (rcfi_fields x x' Rx) as (_ & <- & _). destruct (rcfi_fields y y' Ry) as (_ & <- & _). exact Hk.
  Qed.
End Doc.

(* ---- the fuel of the specification, on documents without fragment cycles ---- *)
Lemma fcm_fuel_eq s dd : (forall u, ~ C06_graph_proofs.cyc dd u) -> forall x y m n,
  In (cf_field x) (C05_frag_spec.F0 dd) -> merge_fuel_spec dd <= n ->
  fields_can_merge n s dd m x y = fields_can_merge (merge_fuel_spec dd) s dd m x y.
Proof.
  intros Hac x y m n Hx Hn. destruct (fields_can_merge n s dd m x y) eqn:E.
  - symmetry. apply (C05_frag_spec.fcm_anti s dd _ n m x y Hn E).
  - symmetry. apply (C05_frag_spec.fcm_fuel_ok s dd Hac x y m n Hx E).
Qed.

Lemma pairs_within_idx {A} (l : list A) : forall i j x y, i < j -> nth_error l i = Some x -> nth_error l j = Some y ->
  In (x, y) (pairs_within l).
Proof.
  induction l as [|a l IH]; intros i j x y Hij Hi Hj; [destruct i; discriminate|].
  rewrite pairs_within_cons. apply in_app_iff. destruct i as [|i].
  - cbn in Hi. injection Hi as ->. destruct j as [|j]; [lia|]. cbn in Hj. left. apply in_map, (nth_error_In _ _ Hj).
  - destruct j as [|j]; [lia|]. right. apply (IH i j); [lia|exact Hi|exact Hj].
Qed.

Lemma parents_exclusive_refl x : parents_exclusive x x = false.
Proof. unfold parents_exclusive. destruct (cf_parent x) as [[]|]; try reflexivity. rewrite name_eqb_refl. reflexivity. Qed.

(* all selection sets of dd merge *)
Definition all_merge (s : sdocument) (dd : document) : Prop :=
  forall ps, In ps (selection_sets s dd) -> fields_in_set_can_merge s dd (collected s dd (fst ps) (snd ps)) = true.
Lemma all_merge_iff s dd : v_overlapping_fields s dd = false <-> all_merge s dd.
Proof.
  unfold v_overlapping_fields, all_merge. split.
  - intros H ps Hps. destruct (fields_in_set_can_merge s dd (collected s dd (fst ps) (snd ps))) eqn:E; [reflexivity|].
    assert (existsb (fun ps => negb (fields_in_set_can_merge s dd (collected s dd (fst ps) (snd ps)))) (selection_sets s dd) = true).
    { apply existsb_exists. exists ps. split; [exact Hps|rewrite E; reflexivity]. }
    congruence.
  - intro H. destruct (existsb _ (selection_sets s dd)) eqn:E; [|reflexivity]. apply existsb_exists in E.
    destruct E as (ps & Hps & Hbad). rewrite (H ps Hps) in Hbad. discriminate.
Qed.

Lemma fisc_pair s dd set u v : fields_in_set_can_merge s dd set = true ->
  forall i j, nth_error set i = Some u -> nth_error set j = Some v -> i <> j ->
  name_eqb (cf_key u) (cf_key v) = true -> fields_can_merge (merge_fuel_spec dd) s dd false u v = true.
Proof.
  intros H i j Hi Hj Hij Hk. unfold fields_in_set_can_merge in H. rewrite forallb_forall in H.
  destruct (Nat.lt_ge_cases i j) as [Hlt|Hge].
  - apply (H (u, v)). unfold same_key_pairs. apply filter_In. split; [apply (pairs_within_idx set i j); assumption|exact Hk].
  - rewrite fcm_sym. apply (H (v, u)). unfold same_key_pairs. apply filter_In.
    split; [apply (pairs_within_idx set j i); [lia|assumption|assumption]|]. cbn [fst snd]. rewrite name_eqb_sym. exact Hk.
Qed.

Section SelfCompat.
  Variables (s : sdocument) (dd : document).
  Hypothesis Hac : forall u, ~ C06_graph_proofs.cyc dd u.
  Hypothesis Hkn : C05_frag_annot.inline_conditions_known s dd = true.
  Hypothesis Hok : all_merge s dd.

  Lemma FE_F0 x : In x (C05_frag_annot.FE s dd) -> In (cf_field x) (C05_frag_spec.F0 dd).
  Proof. intro H. rewrite <- (C05_frag_annot.FE_fields s dd). apply in_map, H. Qed.

  (* two members of a collected set of the document, at any fuel *)
  Lemma set_pair_ok n : (forall x, In x (C05_frag_annot.FE s dd) -> fields_can_merge n s dd false x x = true) ->
    forall P sels u v, In (P, sels) (C05_frag_annot.EE s dd) ->
    In u (collected s dd P sels) -> In v (collected s dd P sels) -> name_eqb (cf_key u) (cf_key v) = true ->
    fields_can_merge n s dd false u v = true.
  Proof.
    intros Hself P sels u v HE Hu Hv Hk.
    pose proof (C05_frag_global.collected_FE s dd Hkn P sels u HE Hu) as Uu.
    destruct (In_nth_error _ _ Hu) as (i & Hi). destruct (In_nth_error _ _ Hv) as (j & Hj).
    destruct (Nat.eq_dec i j) as [E|N].
    - subst j. rewrite Hi in Hj. injection Hj as <-. apply Hself, Uu.
    - assert (Hset : fields_in_set_can_merge s dd (collected s dd P sels) = true).
      { apply (Hok (P, sels)). rewrite C05_frag_annot.selection_sets_struct. exact HE. }
      pose proof (fisc_pair s dd _ u v Hset i j Hi Hj N Hk) as H.
      destruct (Nat.le_ge_cases n (merge_fuel_spec dd)) as [Hle|Hge].
      + apply (C05_frag_spec.fcm_anti s dd n _ false u v Hle H).
      + rewrite (fcm_fuel_eq s dd Hac u v false n (FE_F0 u Uu) Hge). exact H.
  Qed.

  Lemma self_compat : forall n x, In x (C05_frag_annot.FE s dd) -> fields_can_merge n s dd false x x = true.
  Proof.
    induction n as [|n IH]; intros x Hx; [reflexivity|].
    apply C05_frag_spec.fcm_true_iff. split; [apply C05_frag_global.level_ok_refl|]. intros u v Hu Hv Hk.
    rewrite parents_exclusive_refl. cbn [orb].
    change (sub_set s dd x) with (collected s dd (C05_frag_annot.sub_parent s x) (sel_sels (cf_field x))) in Hu, Hv.
    apply (set_pair_ok n IH _ _ u v (C05_frag_annot.FE_sub s dd x Hx) Hu Hv Hk).
  Qed.
End SelfCompat.

(* ------------------------------------------------------------------ all rules but field merging *)
(* F is a definition of d, the only one with its name, has no directives, and does not spread itself *)
Definition inline_side (F : fragment_def) (d : document) : Prop :=
  In F (fragments_of d) /\ (forall f, In f (fragments_of d) -> fr_name f = fr_name F -> f = F) /\
  ~ C06_graph_proofs.cyc d (fr_name F) /\ fr_dirs F = [].

Theorem violated_inline : forall F r s d d', inline_doc F d d' -> inline_side F d ->
  r <> R_OverlappingFieldsCanBeMerged -> r <> R_NoUnusedFragments ->
  violated r s d = violated r s d'.
Proof.
  intros F r s d d' Hd (HF & Hone & Hself & Hdirs) Hr1 Hr2. destruct r; cbn [violated].
  - eapply i_unique_operation_names; eassumption.
  - eapply i_lone_anonymous; eassumption.
  - eapply i_single_field_subscriptions; eassumption.
  - eapply i_known_type_names; eassumption.
  - eapply i_fragments_on_composite; eassumption.
  - eapply i_variables_are_input_types; eassumption.
  - eapply i_leaf_field_selections; eassumption.
  - eapply i_fields_on_correct_type; eassumption.
  - eapply i_unique_fragment_names; eassumption.
  - eapply i_known_fragment_names; eassumption.
  - contradiction Hr2; reflexivity.
  - contradiction Hr1; reflexivity.
  - eapply i_no_fragment_cycles; eassumption.
  - eapply i_possible_fragment_spreads; eassumption.
  - eapply i_no_unused_variables; eassumption.
  - eapply i_no_undefined_variables; eassumption.
  - eapply i_known_argument_names; eassumption.
  - eapply i_unique_argument_names; eassumption.
  - eapply i_unique_variable_names; eassumption.
  - eapply i_provided_required_arguments; eassumption.
  - eapply i_known_directives; eassumption.
  - eapply i_variables_in_allowed_position; eassumption.
  - eapply i_values_of_correct_type; eassumption.
  - eapply i_unique_directives_per_location; eassumption.
Qed.

(* NoUnusedFragments: an unused fragment stays unused; F itself may become unused *)
Theorem violated_inline_no_unused_fragments : forall F s d d', inline_doc F d d' -> inline_side F d ->
  (violated R_NoUnusedFragments s d = true -> violated R_NoUnusedFragments s d' = true) /\
  (In (fr_name F) (reachable_from_operations d') ->
   violated R_NoUnusedFragments s d = violated R_NoUnusedFragments s d').
Proof.
  intros F s d d' Hd (HF & Hone & Hself & Hdirs). cbn [violated]. split.
  - eapply i_no_unused_fragments_mono; eassumption.
  - eapply i_no_unused_fragments; eassumption.
Qed.

(* ------------------------------------------------------------------ field merging *)
(* if all selection sets of d1 merge, so do those of d2, provided every collected set of d2 is covered by
   one of d1 with the pairwise condition preserved *)
Lemma merge_transfer s d1 d2 (Rel : cfield -> cfield -> Prop) :
  (forall u, ~ C06_graph_proofs.cyc d1 u) -> C05_frag_annot.inline_conditions_known s d1 = true ->
  (forall u, ~ C06_graph_proofs.cyc d2 u) ->
  (forall x x' y y' n, Rel x x' -> Rel y y' -> fields_can_merge n s d1 false x y = fields_can_merge n s d2 false x' y') ->
  (forall x x', Rel x x' -> cf_key x = cf_key x') ->
  (forall ps2, In ps2 (selection_sets s d2) -> exists ps1, In ps1 (selection_sets s d1) /\
      forall y, In y (collected s d2 (fst ps2) (snd ps2)) -> exists x, In x (collected s d1 (fst ps1) (snd ps1)) /\ Rel x y) ->
  all_merge s d1 -> all_merge s d2.
Proof.
  intros Hac1 Hkn1 Hac2 Hfcm Hkey Hcov Hok [P2 l2] Hps2. cbn [fst snd].
  destruct (Hcov _ Hps2) as ([P1 l1] & Hps1 & Hc). cbn [fst snd] in Hc.
  rewrite C05_frag_annot.selection_sets_struct in Hps1, Hps2.
  unfold fields_in_set_can_merge. apply forallb_forall. intros [x' y'] Hxy. unfold same_key_pairs in Hxy.
  apply filter_In in Hxy. destruct Hxy as [Hxy Hk]. cbn [fst snd] in *.
  apply C05_merge_proofs.pairs_within_In in Hxy. destruct Hxy as [Hx' Hy'].
  destruct (Hc x' Hx') as (x & Hx & Rx). destruct (Hc y' Hy') as (y & Hy & Ry).
  set (N := Nat.max (merge_fuel_spec d1) (merge_fuel_spec d2)).
  assert (HF0 : In (cf_field x') (C05_frag_spec.F0 d2)).
  { apply (C05_frag_spec.collected_below s d2 P2 l2 x' (C05_frag_annot.EE_indoc s d2 P2 l2 Hps2) Hx'). }
  rewrite <- (fcm_fuel_eq s d2 Hac2 x' y' false N HF0) by (unfold N; lia).
  rewrite <- (Hfcm x x' y y' N Rx Ry).
  apply (set_pair_ok s d1 Hac1 Hkn1 Hok N (self_compat s d1 Hac1 Hkn1 Hok N) P1 l1 x y Hps1 Hx Hy).
  rewrite (Hkey x x' Rx), (Hkey y y' Ry). exact Hk.
Qed.

Section MergeMain.
  Variable F : fragment_def.
  Variables (s : sdocument) (d d' : document).
  Hypothesis Hd : inline_doc F d d'.
  Hypothesis HF : In F (fragments_of d).
  Hypothesis Hone : forall f, In f (fragments_of d) -> fr_name f = fr_name F -> f = F.
  Hypothesis HT : is_some (type_by_name s (fr_tc F)) = true.
  Hypothesis Hacyc : forall u, ~ C06_graph_proofs.cyc d u.
  Hypothesis Hknown : C05_frag_annot.inline_conditions_known s d = true.

  Lemma Hself0 : ~ C06_graph_proofs.cyc d (fr_name F).
  Proof. apply Hacyc. Qed.
  Lemma Hacyc' : forall u, ~ C06_graph_proofs.cyc d' u.
  Proof. intros u H. apply (Hacyc u). apply (cyc_inl F d d' Hd HF Hone Hself0 u), H. Qed.
  Lemma Hknown' : C05_frag_annot.inline_conditions_known s d' = true.
  Proof.
    unfold C05_frag_annot.inline_conditions_known in *. rewrite forallb_forall in *. intros v Hv.
    destruct (dcov_bwd F d d' Hd HF Hone Hself0 v Hv) as (u & Hu & Huv). specialize (Hknown u Hu).
    destruct (isel_cases F u v Huv) as [(p & p' & -> & ->)|[Hs _]]; [exact HT|].
    destruct u, v; cbn in Hs; try contradiction; try reflexivity. destruct Hs as (_ & <- & _). exact Hknown.
  Qed.

  Lemma F_def_in_d : In (DFrag F) d.
  Proof.
    unfold fragments_of in HF. apply in_flat_map in HF. destruct HF as ([o|f] & Hx & Hin); [destruct Hin|].
    destruct Hin as [<-|[]]. exact Hx.
  Qed.

  (* the selection sets of the two documents *)
  Lemma sets_fwd ps : In ps (selection_sets s d) ->
    exists ps', In ps' (selection_sets s d') /\ fst ps = fst ps' /\ isels F (snd ps) (snd ps').
  Proof.
    unfold selection_sets. intro Hin. apply in_flat_map in Hin. destruct Hin as ([ev e] & Hea & Hin).
    destruct (proj1 (cov_document F d d' Hd s) _ Hea) as ([ev' e'] & Hb & Hab).
    cbn [fst snd] in Hin. destruct ev as [n|n]; [|destruct Hin]. destruct n; try contradiction. destruct Hin as [<-|[]].
    destruct Hab as [[Hev He]|(u & v & _ & [[Hu _]|[Hu _]] & _)]; cbn [fst snd] in *; try discriminate. subst e'.
    inversion Hev as [n n' Hn|]; subst. inversion Hn as [| | |? l l' Hl| | | |? Hs]; subst; [|discriminate].
    exists (a_parent e, l'). split; [|split; [reflexivity|exact Hl]].
    apply in_flat_map. exists (Enter (NSelectionSet sp l'), e). split; [exact Hb|left; reflexivity].
  Qed.
  Lemma sets_bwd ps' : In ps' (selection_sets s d') ->
    exists ps, In ps (selection_sets s d) /\ fst ps = fst ps' /\ isels F (snd ps) (snd ps').
  Proof.
    unfold selection_sets. intro Hin. apply in_flat_map in Hin. destruct Hin as ([ev' e'] & Hb & Hin).
    cbn [fst snd] in Hin. destruct ev' as [n'|n']; [|destruct Hin]. destruct n'; try contradiction. destruct Hin as [<-|[]].
    destruct (proj2 (cov_document F d d' Hd s) _ Hb) as [([ev e] & Ha & Hab)|[([ev e] & Ha & Hab) _]].
    - destruct Hab as [[Hev He]|(u & v & _ & [[_ Hv]|[_ Hv]] & _)]; cbn [fst snd] in *; try discriminate. subst e'.
      inversion Hev as [n n' Hn|]; subst. inversion Hn as [| | |? l l' Hl| | | |? Hs]; subst.
      + exists (a_parent e, l). split; [|split; [reflexivity|exact Hl]].
        apply in_flat_map. exists (Enter (NSelectionSet sp l), e). split; [exact Ha|left; reflexivity].
      + exists (a_parent e, items). split; [|split; [reflexivity|apply isels_refl]].
        apply in_flat_map. exists (Enter (NSelectionSet sp items), e). split; [exact Ha|left; reflexivity].
    - destruct Hab as (Hev & (_ & _ & Hp) & _). cbn [fst snd] in *. subst ev.
      exists (a_parent e, items). split; [|split; [cbn [fst]; exact Hp|apply isels_refl]].
      apply in_flat_map. exists (Enter (NSelectionSet sp items), e). split; [|left; reflexivity].
      apply (def_in_annot d s (DFrag F)); [exact F_def_in_d|apply body_in_def, Ha].
  Qed.

  Theorem i_overlapping_fields : v_overlapping_fields s d = v_overlapping_fields s d'.
  Proof.
    assert (A : all_merge s d -> all_merge s d').
    { apply (merge_transfer s d d' (rcfi F) Hacyc Hknown Hacyc').
      - intros x x' y y' n Rx Ry. apply (fcm_inl F d d' Hd HF Hone Hself0 s HT n false x x' y y' Rx Ry).
      - intros x x' R. apply (rcfi_fields F x x' R).
      - intros ps' Hps'. destruct (sets_bwd ps' Hps') as (ps & Hps & Hp & Hl). exists ps. split; [exact Hps|].
        rewrite <- Hp. apply (collected_cover F d d' Hd HF Hone Hself0 s HT (fst ps) _ _ Hl). }
    assert (B : all_merge s d' -> all_merge s d).
    { apply (merge_transfer s d' d (fun x' x => rcfi F x x') Hacyc' Hknown' Hacyc).
      - intros x' x y' y n Rx Ry. symmetry. apply (fcm_inl F d d' Hd HF Hone Hself0 s HT n false x x' y y' Rx Ry).
      - intros x' x R. symmetry. apply (rcfi_fields F x x' R).
      - intros ps Hps. destruct (sets_fwd ps Hps) as (ps' & Hps' & Hp & Hl). exists ps'. split; [exact Hps'|].
        rewrite <- Hp. apply (collected_cover F d d' Hd HF Hone Hself0 s HT (fst ps) _ _ Hl). }
    destruct (v_overlapping_fields s d) eqn:E1, (v_overlapping_fields s d') eqn:E2; try reflexivity.
    - apply all_merge_iff, B, all_merge_iff in E2. congruence.
    - apply all_merge_iff, A, all_merge_iff in E1. congruence.
  Qed.
End MergeMain.

(* ------------------------------------------------------------------ all rules *)
(* field merging needs, in addition: the type condition of F is a type of the schema, and so are the type
   conditions of the inline fragments of d *)
Definition inline_merge_side (F : fragment_def) (s : sdocument) (d : document) : Prop :=
  is_some (type_by_name s (fr_tc F)) = true /\ C05_frag_annot.inline_conditions_known s d = true.

Theorem violated_inline_merge : forall F s d d', inline_doc F d d' -> inline_side F d -> inline_merge_side F s d ->
  violated R_OverlappingFieldsCanBeMerged s d = violated R_OverlappingFieldsCanBeMerged s d'.
Proof.
  intros F s d d' Hd (HF & Hone & Hself & Hdirs) (HT & Hkn). cbn [violated].
  rewrite <- (i_no_fragment_cycles F d d' Hd HF Hone Hself).
  destruct (v_no_fragment_cycles d) eqn:E; [reflexivity|]. cbn [negb andb].
  apply (i_overlapping_fields F s d d' Hd HF Hone HT); [|exact Hkn].
  intros u Hu. assert (H : v_no_fragment_cycles d = true) by (apply C06_graph_proofs.cycles_spec; exists u; exact Hu). congruence.
Qed.

Lemma rule_id_eq_dec (a b : rule_id) : {a = b} + {a <> b}.
Proof. decide equality. Qed.

Theorem violated_inline_all : forall F r s d d', inline_doc F d d' -> inline_side F d -> inline_merge_side F s d ->
  r <> R_NoUnusedFragments -> violated r s d = violated r s d'.
Proof.
  intros F r s d d' Hd Hside Hm Hr.
  destruct (rule_id_eq_dec r R_OverlappingFieldsCanBeMerged) as [->|Hne]; [apply violated_inline_merge with (F := F); assumption|].
  apply violated_inline with (F := F); assumption.
Qed.

(* accept / reject: F must stay in use (else NoUnusedFragments reports it) *)
Theorem spec_valid_inline : forall F s d d', inline_doc F d d' -> inline_side F d -> inline_merge_side F s d ->
  In (fr_name F) (reachable_from_operations d') ->
  spec_valid s d = spec_valid s d'.
Proof.
  intros F s d d' Hd Hside Hm Hused. unfold spec_valid. apply forallb_ext_in. intros r _. f_equal.
  destruct (rule_id_eq_dec r R_NoUnusedFragments) as [->|Hne].
  - apply (violated_inline_no_unused_fragments F s d d' Hd Hside), Hused.
  - apply violated_inline_all with (F := F); assumption.
Qed.
(* without that: a document accepted after the rewrite was accepted before, and a document rejected before
   is rejected after *)
Theorem spec_valid_inline_mono : forall F s d d', inline_doc F d d' -> inline_side F d -> inline_merge_side F s d ->
  spec_valid s d' = true -> spec_valid s d = true.
Proof.
  intros F s d d' Hd Hside Hm H. unfold spec_valid in *. rewrite forallb_forall in *. intros r Hr. specialize (H r Hr).
  destruct (rule_id_eq_dec r R_NoUnusedFragments) as [->|Hne].
  - destruct (violated R_NoUnusedFragments s d) eqn:E; [|reflexivity].
    rewrite (proj1 (violated_inline_no_unused_fragments F s d d' Hd Hside) E) in H. discriminate.
  - rewrite (violated_inline_all F r s d d' Hd Hside Hm Hne). exact H.
Qed.

(* ------------------------------------------------------------------ examples and counterexamples *)
Definition ix_spread (n : name) : selection := SSpread cx_z n [].
Definition ix_sub (n : name) (l : list selection) : selection := SField cx_z None n [] [] (cx_z, cx_z) l.
Definition ix_q (n : name) (vars : list vardef) (l : list selection) : definition :=
  DOp (mkOperation OpQuery cx_z (Some n) vars [] (cx_z, cx_z) l).
Definition ix_copy (F : fragment_def) : selection := SInline cx_z (Some (fr_tc F)) [] (fr_span F) (fr_sels F).
Definition ix_F : fragment_def := mkFragment cx_z "F" "T" [] (cx_z, cx_z) [cx_field "a"].

Lemma ix_rel F q1 q2 v l r : inline_doc F ([ix_q q1 v [ix_sub "t" (ix_spread (fr_name F) :: l)]; ix_q q2 v [ix_sub "t" [ix_spread (fr_name F)]]] ++ r)
                                         ([ix_q q1 v [ix_sub "t" (ix_copy F :: l)]; ix_q q2 v [ix_sub "t" [ix_spread (fr_name F)]]] ++ r).
Proof.
  assert (R : forall x, idef F x x).
  { intros [o|f]; constructor; [destruct o|destruct f]; constructor; apply isels_refl. }
  constructor; [|constructor; [apply R|induction r; constructor; [apply R|assumption]]].
  constructor. constructor. constructor; [|constructor]. constructor. constructor; [apply IExpand|apply isels_refl].
Qed.

(* F used twice, one spread replaced: nothing changes *)
Example inline_example :
  let d := [ix_q "Q" [] [ix_sub "t" [ix_spread "F"]]; ix_q "R" [] [ix_sub "t" [ix_spread "F"]]; DFrag ix_F] in
  let d' := [ix_q "Q" [] [ix_sub "t" [ix_copy ix_F]]; ix_q "R" [] [ix_sub "t" [ix_spread "F"]]; DFrag ix_F] in
  inline_doc ix_F d d' /\ spec_valid cx_schema d = true /\ spec_valid cx_schema d' = true.
Proof. split; [apply (ix_rel ix_F "Q" "R" [] [] [DFrag ix_F])|split; vm_compute; reflexivity]. Qed.

(* the only spread of F replaced: F is unused afterwards *)
Lemma inline_unused_cex :
  let d := [ix_q "Q" [] [ix_sub "t" [ix_spread "F"]]; DFrag ix_F] in
  let d' := [ix_q "Q" [] [ix_sub "t" [ix_copy ix_F]]; DFrag ix_F] in
  inline_doc ix_F d d' /\ spec_valid cx_schema d = true /\ spec_valid cx_schema d' = false /\
  violated R_NoUnusedFragments cx_schema d' = true.
Proof.
  split; [|repeat split; vm_compute; reflexivity].
  assert (R : forall x, idef ix_F x x).
  { intros [o|f]; constructor; [destruct o|destruct f]; constructor; apply isels_refl. }
  constructor; [|constructor; [apply R|constructor]].
  constructor. constructor. constructor; [|constructor]. constructor. constructor; [apply IExpand|constructor].
Qed.

(* a directive on the definition of F that uses a variable: after the rewrite the operation no longer uses it *)
Definition ix_Fd : fragment_def :=
  mkFragment cx_z "F" "T" [mkDirective cx_z "skip" [("if", VVar "v")]] (cx_z, cx_z) [cx_field "a"].
Definition ix_v : vardef := mkVardef cx_z "v" (TNamed "Boolean") None.
Lemma inline_fragment_directives_cex :
  let d := [ix_q "Q" [ix_v] [ix_sub "t" [ix_spread "F"]]; ix_q "R" [ix_v] [ix_sub "t" [ix_spread "F"]]; DFrag ix_Fd] in
  let d' := [ix_q "Q" [ix_v] [ix_sub "t" [ix_copy ix_Fd]]; ix_q "R" [ix_v] [ix_sub "t" [ix_spread "F"]]; DFrag ix_Fd] in
  inline_doc ix_Fd d d' /\
  violated R_NoUnusedVariables cx_schema d = false /\ violated R_NoUnusedVariables cx_schema d' = true.
Proof. split; [apply (ix_rel ix_Fd "Q" "R" [ix_v] [] [DFrag ix_Fd])|split; vm_compute; reflexivity]. Qed.

(* the type condition of F is not a type of the schema (here an introspection type name, which KnownTypeNames
   accepts): the inline fragment falls back to the enclosing type, the spread does not.  The schema of this
   example is not well-formed (O does not implement I correctly); with a well-formed schema no example is known *)
Definition ix_schemaI : sdocument :=
  [SDType (TDInterface "I" [] [mkFD "a" [] (TNamed "String")]);
   SDType (TDObject "O" ["I"] [mkFD "a" [] (TNamed "Int")]);
   SDType (TDObject "Query" [] [mkFD "t" [] (TNamed "I")]); SDType (TDScalar "String"); SDType (TDScalar "Int")].
Definition ix_Fi : fragment_def := mkFragment cx_z "F" "__Type" [] (cx_z, cx_z) [cx_field "a"].
Lemma inline_undeclared_type_cex :
  let l := [SInline cx_z (Some "O") [] (cx_z, cx_z) [cx_field "a"]] in
  let d := [ix_q "Q" [] [ix_sub "t" (ix_spread "F" :: l)]; ix_q "R" [] [ix_sub "t" [ix_spread "F"]]; DFrag ix_Fi] in
  let d' := [ix_q "Q" [] [ix_sub "t" (ix_copy ix_Fi :: l)]; ix_q "R" [] [ix_sub "t" [ix_spread "F"]]; DFrag ix_Fi] in
  inline_doc ix_Fi d d' /\ type_by_name ix_schemaI "__Type" = None /\
  spec_valid ix_schemaI d = true /\ spec_valid ix_schemaI d' = false /\
  violated R_OverlappingFieldsCanBeMerged ix_schemaI d' = true.
Proof.
  split; [apply (ix_rel ix_Fi "Q" "R" [] _ [DFrag ix_Fi])|repeat split; vm_compute; reflexivity].
Qed.

(* TAIL *)
Print Assumptions violated_inline.
Print Assumptions violated_inline_no_unused_fragments.
Print Assumptions violated_inline_merge.
Print Assumptions violated_inline_all.
Print Assumptions spec_valid_inline.
Print Assumptions spec_valid_inline_mono.

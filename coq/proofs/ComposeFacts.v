(* ComposeFacts.v — composition of the per-rule equivalence lemmas (C04, C06-C11) into the
   document-level properties C01 and C02.

   Two facts are proved elsewhere and enter here as hypotheses of the section (the lemmas of
   this file are implications from them; C01_proofs.v / C02_proofs.v instantiate them):
     [viap_statement]  the equivalence for VariablesInAllowedPosition (proofs/C07_position_proofs.v,
                       lemma variables_in_allowed_position_iff); it holds for documents whose
                       variable default values are constants ([defaults_const d], defined there),
                       and this hypothesis is inherited by everything that involves that rule,
     [fuel_statement]  no rule other than field merging exhausts its fuel (proofs/C03_proofs.v,
                       lemma no_fuel_exhaustion).
   [wf_document_no_panic] (the third ingredient) is proved here. *)
From Coq Require Import Lia.
From GT Require Import Visitor Validate.
From GTS Require Import Annot WfSchema SpecRules SpecValues SpecValid.
From GTP Require Import PlanFacts
  C04_proofs C06_proofs C06_graph_proofs C07_proofs C07_graph_proofs C08_proofs
  C09_proofs C09_slot_proofs C10_proofs C10_slot_proofs C11_proofs.
From GTP Require Import C07_position_proofs.

Definition viap_statement : Prop := forall s d,
  wf_schema s = true -> doc_types_proper d = true ->
  distinct_fragments d = true ->
  negb (violated R_VariablesAreInputTypes s d) = true ->
  defaults_const d = true ->
  (run_alone R_VariablesInAllowedPosition s d <> [] <-> violated R_VariablesInAllowedPosition s d = true).

Definition fuel_statement : Prop := forall r s d c,
  r <> R_OverlappingFieldsCanBeMerged -> r_oof (snd (run_rule r s d c)) = false.

(* ================================================================ no panic on well-formed schemas *)
Lemma wf_query_type s : wf_schema s = true -> is_some (query_type s) = true.
Proof.
  intro Hwf. pose proof (wf_query_root s Hwf) as Hr.
  unfold root, root_name, query_type, schema_definition in *.
  destruct (find_schema_def s) as [sd|].
  - destruct (sd_query sd) as [q|]; cbn in *; [exact Hr|discriminate].
  - cbn in *. exact Hr.
Qed.

Lemma wf_document_no_panic s d : wf_schema s = true -> document_panics s d = false.
Proof.
  intro Hwf. pose proof (wf_query_type s Hwf) as Hq.
  unfold document_panics. apply not_true_is_false. intro H.
  apply existsb_exists in H. destruct H as [x [_ Hx]].
  destruct x as [o|f]; cbn [definition_panics] in Hx; [|discriminate].
  unfold root_type_name in Hx.
  destruct (query_type s); [|discriminate].
  destruct (o_kind o); cbn in Hx; discriminate.
Qed.

(* ================================================================ side conditions *)
(* the exact side condition of each rule's equivalence lemma (beyond wf_schema / doc_types_proper) *)
Definition side_ok (r : rule_id) (s : sdocument) (d : document) : bool :=
  match r with
  | R_PossibleFragmentSpreads | R_NoUnusedFragments | R_NoFragmentsCycle | R_SingleFieldSubscriptions =>
      distinct_fragments d
  | R_NoUndefinedVariables | R_NoUnusedVariables => distinct_fragments d
  | R_VariablesInAllowedPosition =>
      distinct_fragments d && negb (violated R_VariablesAreInputTypes s d)
  | R_ValuesOfCorrectType => negb (violated R_VariablesAreInputTypes s d)
  | _ => true
  end.


(* a rule none of whose lemmas needs a document side condition *)
Definition unconditional (r : rule_id) : bool :=
  match r with
  | R_UniqueFragmentNames | R_UniqueOperationNames | R_LoneAnonymousOperation | R_VariablesAreInputTypes => true
  | _ => false
  end.

Lemma unconditional_side_ok r s d : unconditional r = true -> side_ok r s d = true.
Proof. destruct r; cbn; intro H; try discriminate; reflexivity. Qed.

(* ---------------------------------------------------------------- anonymous operations *)
Lemma filter_length_le {A} (f : A -> bool) l : List.length (filter f l) <= List.length l.
Proof. induction l as [|a l IH]; cbn; [lia|]. destruct (f a); cbn; lia. Qed.
Lemma filter_nonempty_existsb {A} (f : A -> bool) l : 1 <= List.length (filter f l) -> existsb f l = true.
Proof.
  induction l as [|a l IH]; cbn; [lia|]. destruct (f a) eqn:E; cbn; [reflexivity|exact IH].
Qed.

Lemma two_anonymous_lone d :
  Nat.leb (List.length (filter (fun o => is_none (op_node_name o)) (operations_of d))) 1 = false ->
  v_lone_anonymous d = true.
Proof.
  intro H. apply Nat.leb_gt in H. unfold v_lone_anonymous.
  rewrite filter_nonempty_existsb by lia. cbn [andb]. apply Nat.leb_le.
  pose proof (filter_length_le (fun o => is_none (op_node_name o)) (operations_of d)). lia.
Qed.

(* not told apart => one of the two unconditional rules is violated (no side condition of a
   rule any more: the variable rules tell operations apart by their index) *)
Lemma not_distinct_operations d : distinct_operations d = false ->
  v_unique_operation_names d = true \/ v_lone_anonymous d = true.
Proof.
  intros H. unfold distinct_operations in H. apply andb_false_iff in H. destruct H as [H|H].
  - left. apply negb_false_iff in H. exact H.
  - right. apply two_anonymous_lone, H.
Qed.

Lemma distinct_operations_intro d :
  v_unique_operation_names d = false -> v_lone_anonymous d = false -> distinct_operations d = true.
Proof.
  intros H1 H2. destruct (distinct_operations d) eqn:E; [reflexivity|].
  destruct (not_distinct_operations d E); congruence.
Qed.

(* a failing side condition is witnessed by a violated unconditional rule *)
Lemma side_fails r s d : side_ok r s d = false ->
  exists r', unconditional r' = true /\ violated r' s d = true.
Proof.
  assert (HF : distinct_fragments d = false ->
               exists r', unconditional r' = true /\ violated r' s d = true).
  { intro H. exists R_UniqueFragmentNames. split; [reflexivity|].
    cbn [violated]. unfold distinct_fragments in H. apply negb_false_iff in H. exact H. }
  assert (HV : negb (violated R_VariablesAreInputTypes s d) = false ->
               exists r', unconditional r' = true /\ violated r' s d = true).
  { intro H. exists R_VariablesAreInputTypes. split; [reflexivity|].
    apply negb_false_iff in H. exact H. }
  destruct r; cbn [side_ok]; intro H; try discriminate;
    destruct (distinct_fragments d); auto;
    destruct (negb (violated R_VariablesAreInputTypes s d)); auto; discriminate.
Qed.

(* ================================================================ generic composition *)
Lemma flat_map_nonempty_in {A B} (f : A -> list B) l x : In x l -> f x <> [] -> flat_map f l <> [].
Proof.
  intros Hin Hx E. apply Hx.
  destruct (f x) as [|b bs] eqn:Ef; [reflexivity|].
  assert (In b (flat_map f l)) as Hb by (apply in_flat_map; exists x; rewrite Ef; cbn; auto).
  rewrite E in Hb. destruct Hb.
Qed.

Lemma flat_map_all_nil {A B} (f : A -> list B) l : (forall x, In x l -> f x = []) -> flat_map f l = [].
Proof.
  induction l as [|a l IH]; intro H; cbn; [reflexivity|].
  rewrite (H a (or_introl eq_refl)), IH; [reflexivity|]. intros x Hx. apply H. right. exact Hx.
Qed.

Lemma spec_valid_not_violated s d r : spec_valid s d = true -> violated r s d = false.
Proof.
  intro H. unfold spec_valid in H. rewrite forallb_forall in H.
  specialize (H r (default_plan_complete r)). apply negb_true_iff in H. exact H.
Qed.

Lemma spec_valid_side_ok s d r : spec_valid s d = true -> side_ok r s d = true.
Proof.
  intro H. destruct (side_ok r s d) eqn:E; [reflexivity|].
  destruct (side_fails r s d E) as [r' [_ Hv]].
  rewrite (spec_valid_not_violated s d r' H) in Hv. discriminate.
Qed.

(* the composition argument, for any set [known] of rules whose equivalence lemma is available
   (rule r on the documents satisfying [docok r]) and which contains the four unconditional rules *)
Section Generic.
  Variable known : rule_id -> bool.
  Variable docok : rule_id -> document -> bool.
  Hypothesis H_known : forall s d r,
    wf_schema s = true -> doc_types_proper d = true -> docok r d = true ->
    known r = true -> side_ok r s d = true ->
    (run_alone r s d <> [] <-> violated r s d = true).
  Hypothesis H_uncond : forall r, unconditional r = true -> known r = true.
  Hypothesis H_uncond_ok : forall r d, unconditional r = true -> docok r d = true.

  (* C01, rule by rule *)
  Lemma known_silent s d r :
    wf_schema s = true -> doc_types_proper d = true -> docok r d = true -> spec_valid s d = true ->
    known r = true -> run_alone r s d = [].
  Proof.
    intros Hwf Hp Hok Hv Hr.
    pose proof (H_known s d r Hwf Hp Hok Hr (spec_valid_side_ok s d r Hv)) as [Hi _].
    destruct (run_alone r s d) as [|e es] eqn:E; [reflexivity|].
    rewrite (spec_valid_not_violated s d r Hv) in Hi.
    assert (e :: es <> []) as Hne by discriminate. specialize (Hi Hne). discriminate.
  Qed.

  (* C02: a known rule reports *)
  Lemma known_reported s d r :
    wf_schema s = true -> doc_types_proper d = true -> docok r d = true ->
    known r = true -> violated r s d = true ->
    exists r', known r' = true /\ run_alone r' s d <> [].
  Proof.
    intros Hwf Hp Hok Hr Hv. destruct (side_ok r s d) eqn:E.
    - exists r. split; [exact Hr|]. apply (H_known s d r Hwf Hp Hok Hr E). exact Hv.
    - destruct (side_fails r s d E) as [r' [Hu Hv']]. exists r'.
      split; [apply H_uncond, Hu|].
      apply (H_known s d r' Hwf Hp (H_uncond_ok r' d Hu) (H_uncond r' Hu)
               (unconditional_side_ok r' s d Hu)).
      exact Hv'.
  Qed.

  Lemma known_rejected s d r :
    wf_schema s = true -> doc_types_proper d = true -> docok r d = true ->
    known r = true -> violated r s d = true ->
    validate s d default_plan <> Ok [].
  Proof.
    intros Hwf Hp Hok Hr Hv.
    destruct (known_reported s d r Hwf Hp Hok Hr Hv) as [r' [_ Hne]].
    rewrite validate_eq. change (is_nil default_plan) with false. cbv iota.
    rewrite (wf_document_no_panic s d Hwf).
    match goal with |- (if ?b then _ else _) <> _ => destruct b end; [discriminate|].
    intro E. apply (flat_map_nonempty_in (fun r => run_alone r s d) default_plan r'
                      (default_plan_complete r') Hne).
    congruence.
  Qed.

  Lemma validate_default_plan s d : wf_schema s = true ->
    (forall r, r_oof (snd (run_rule r s d ctx0)) = false) ->
    validate s d default_plan = Ok (flat_map (fun r => run_alone r s d) default_plan).
  Proof.
    intros Hwf Hf. apply validate_union; [discriminate|apply wf_document_no_panic, Hwf|].
    intros r _. apply Hf.
  Qed.

  (* C01: the rules outside [known] are silent by hypothesis, the known ones do not exhaust
     their fuel by hypothesis *)
  Lemma known_accepted s d :
    wf_schema s = true -> doc_types_proper d = true -> spec_valid s d = true ->
    (forall r, known r = true -> docok r d = true) ->
    (forall r, known r = false -> snd (run_rule r s d ctx0) = mkRes [] false) ->
    (forall r, known r = true -> r_oof (snd (run_rule r s d ctx0)) = false) ->
    validate s d default_plan = Ok [].
  Proof.
    intros Hwf Hp Hv Hok Hu Hf.
    rewrite (validate_default_plan s d Hwf).
    - f_equal. apply flat_map_all_nil. intros r _. destruct (known r) eqn:Ek.
      + apply known_silent; auto.
      + unfold run_alone. rewrite (Hu r Ek). reflexivity.
    - intro r. destruct (known r) eqn:Ek; [apply Hf, Ek|]. rewrite (Hu r Ek). reflexivity.
  Qed.

  Lemma known_rejected_errors s d r :
    wf_schema s = true -> doc_types_proper d = true -> docok r d = true ->
    known r = true -> violated r s d = true ->
    (forall r, r_oof (snd (run_rule r s d ctx0)) = false) ->
    exists es, validate s d default_plan = Ok es /\ es <> [].
  Proof.
    intros Hwf Hp Hok Hr Hv Hf.
    destruct (known_reported s d r Hwf Hp Hok Hr Hv) as [r' [_ Hne]].
    eexists. split; [apply validate_default_plan; assumption|].
    apply (flat_map_nonempty_in _ _ r' (default_plan_complete r') Hne).
  Qed.
End Generic.

(* ================================================================ instance 1: all rules but
   field merging and VariablesInAllowedPosition — no external fact, no condition on defaults *)
Definition known_base (r : rule_id) : bool :=
  match r with R_OverlappingFieldsCanBeMerged | R_VariablesInAllowedPosition => false | _ => true end.
Definition any_doc (r : rule_id) (d : document) : bool := true.

Lemma known_base_intro r :
  r <> R_OverlappingFieldsCanBeMerged -> r <> R_VariablesInAllowedPosition -> known_base r = true.
Proof. destruct r; cbn; intros H1 H2; try reflexivity; exfalso; [apply H1|apply H2]; reflexivity. Qed.

Lemma rule_iff_base s d r :
  wf_schema s = true -> doc_types_proper d = true -> any_doc r d = true ->
  known_base r = true -> side_ok r s d = true ->
  (run_alone r s d <> [] <-> violated r s d = true).
Proof.
  intros Hwf Hp _ Hr Hs.
  destruct r; cbn [side_ok known_base] in Hs, Hr; try discriminate Hr;
    repeat match type of Hs with (_ && _) = true => apply andb_prop in Hs; destruct Hs as [Hs ?] end.
  - apply unique_operation_names_iff.
  - apply lone_anonymous_iff.
  - apply single_field_subscriptions_iff; assumption.
  - apply known_type_names_iff.
  - apply fragments_on_composite_iff.
  - apply variables_are_input_types_iff.
  - apply leaf_field_selections_iff; assumption.
  - apply fields_on_correct_type_iff; assumption.
  - apply unique_fragment_names_iff.
  - apply known_fragment_names_iff.
  - apply no_unused_fragments_iff; assumption.
  - apply no_fragment_cycles_iff; assumption.
  - apply possible_fragment_spreads_iff; assumption.
  - apply no_unused_variables_iff; assumption.
  - apply no_undefined_variables_iff; assumption.
  - apply known_argument_names_iff; assumption.
  - apply unique_argument_names_iff; assumption.
  - apply unique_variable_names_iff.
  - apply provided_required_arguments_iff; assumption.
  - apply known_directives_iff; assumption.
  - apply values_of_correct_type_iff; assumption.
  - apply unique_directives_iff; assumption.
Qed.

Lemma unconditional_known_base r : unconditional r = true -> known_base r = true.
Proof. destruct r; cbn; intro H; try discriminate; reflexivity. Qed.
Lemma unconditional_any_doc r d : unconditional r = true -> any_doc r d = true.
Proof. reflexivity. Qed.

Lemma spec_valid_rule_silent_noviap : forall s d r,
  wf_schema s = true -> doc_types_proper d = true -> spec_valid s d = true ->
  r <> R_OverlappingFieldsCanBeMerged -> r <> R_VariablesInAllowedPosition -> run_alone r s d = [].
Proof.
  intros s d r Hwf Hp Hv H1 H2.
  apply (known_silent known_base any_doc rule_iff_base); auto using known_base_intro.
Qed.

Lemma violation_rejected_noviap : forall s d r,
  wf_schema s = true -> doc_types_proper d = true ->
  r <> R_OverlappingFieldsCanBeMerged -> r <> R_VariablesInAllowedPosition -> violated r s d = true ->
  validate s d default_plan <> Ok [].
Proof.
  intros s d r Hwf Hp H1 H2 Hv.
  apply (known_rejected known_base any_doc rule_iff_base unconditional_known_base
           unconditional_any_doc s d r); auto using known_base_intro.
Qed.

Lemma known_base_false r : known_base r = false ->
  r = R_OverlappingFieldsCanBeMerged \/ r = R_VariablesInAllowedPosition.
Proof. destruct r; cbn; intro H; try discriminate; auto. Qed.

(* validate = Ok [] given the verdicts of the two remaining rules and that no rule exhausts its
   fuel on this input *)
Lemma spec_valid_accepted_noviap : forall s d,
  wf_schema s = true -> doc_types_proper d = true -> spec_valid s d = true ->
  snd (run_rule R_OverlappingFieldsCanBeMerged s d ctx0) = mkRes [] false ->
  snd (run_rule R_VariablesInAllowedPosition s d ctx0) = mkRes [] false ->
  (forall r, r_oof (snd (run_rule r s d ctx0)) = false) ->
  validate s d default_plan = Ok [].
Proof.
  intros s d Hwf Hp Hv Hm Hvi Hf.
  apply (known_accepted known_base any_doc rule_iff_base s d Hwf Hp Hv).
  - reflexivity.
  - intros r Hr. destruct (known_base_false r Hr) as [->| ->]; assumption.
  - intros r _. apply Hf.
Qed.

Lemma violation_rejected_errors_noviap : forall s d r,
  wf_schema s = true -> doc_types_proper d = true ->
  r <> R_OverlappingFieldsCanBeMerged -> r <> R_VariablesInAllowedPosition -> violated r s d = true ->
  (forall r, r_oof (snd (run_rule r s d ctx0)) = false) ->
  exists es, validate s d default_plan = Ok es /\ es <> [].
Proof.
  intros s d r Hwf Hp H1 H2 Hv Hf.
  apply (known_rejected_errors known_base any_doc rule_iff_base unconditional_known_base
           unconditional_any_doc s d r); auto using known_base_intro.
Qed.

(* ================================================================ instance 2: all rules but
   field merging, from the two facts proved elsewhere; VariablesInAllowedPosition on documents
   with constant default values *)
Definition known_full (r : rule_id) : bool :=
  match r with R_OverlappingFieldsCanBeMerged => false | _ => true end.
Definition doc_ok_for (r : rule_id) (d : document) : bool :=
  match r with R_VariablesInAllowedPosition => defaults_const d | _ => true end.

Lemma known_full_intro r : r <> R_OverlappingFieldsCanBeMerged -> known_full r = true.
Proof. destruct r; cbn; intros H1; try reflexivity; exfalso; apply H1; reflexivity. Qed.
Lemma known_full_true r : known_full r = true -> r <> R_OverlappingFieldsCanBeMerged.
Proof. intros H E. subst r. discriminate. Qed.
Lemma known_full_false r : known_full r = false -> r = R_OverlappingFieldsCanBeMerged.
Proof. destruct r; cbn; intro H; try discriminate; auto. Qed.
Lemma unconditional_known_full r : unconditional r = true -> known_full r = true.
Proof. destruct r; cbn; intro H; try discriminate; reflexivity. Qed.
Lemma unconditional_doc_ok_for r d : unconditional r = true -> doc_ok_for r d = true.
Proof. destruct r; cbn; intro H; try discriminate; reflexivity. Qed.
Lemma doc_ok_for_intro r d :
  (r = R_VariablesInAllowedPosition -> defaults_const d = true) -> doc_ok_for r d = true.
Proof. destruct r; cbn; intro H; try reflexivity. apply H. reflexivity. Qed.
Lemma doc_ok_for_const r d : defaults_const d = true -> doc_ok_for r d = true.
Proof. intro H. apply doc_ok_for_intro. intros _. exact H. Qed.

Section Compose.
  Hypothesis H_viap : viap_statement.

  Lemma rule_iff s d r :
    wf_schema s = true -> doc_types_proper d = true -> doc_ok_for r d = true ->
    known_full r = true -> side_ok r s d = true ->
    (run_alone r s d <> [] <-> violated r s d = true).
  Proof.
    intros Hwf Hp Hok Hr Hs. destruct (known_base r) eqn:Eb.
    - apply rule_iff_base; auto.
    - destruct (known_base_false r Eb) as [->| ->]; [discriminate Hr|].
      cbn [side_ok doc_ok_for] in Hs, Hok.
      repeat match type of Hs with (_ && _) = true => apply andb_prop in Hs; destruct Hs as [Hs ?] end.
      apply H_viap; assumption.
  Qed.

  Lemma spec_valid_rule_silent_sec : forall s d r,
    wf_schema s = true -> doc_types_proper d = true -> spec_valid s d = true ->
    r <> R_OverlappingFieldsCanBeMerged ->
    (r = R_VariablesInAllowedPosition -> defaults_const d = true) ->
    run_alone r s d = [].
  Proof.
    intros s d r Hwf Hp Hv H1 Hc.
    apply (known_silent known_full doc_ok_for rule_iff);
      auto using known_full_intro, doc_ok_for_intro.
  Qed.

  Lemma violation_rejected_sec : forall s d r,
    wf_schema s = true -> doc_types_proper d = true ->
    r <> R_OverlappingFieldsCanBeMerged -> violated r s d = true ->
    (r = R_VariablesInAllowedPosition -> defaults_const d = true) ->
    validate s d default_plan <> Ok [].
  Proof.
    intros s d r Hwf Hp H1 Hv Hc.
    apply (known_rejected known_full doc_ok_for rule_iff unconditional_known_full
             unconditional_doc_ok_for s d r); auto using known_full_intro, doc_ok_for_intro.
  Qed.

  Hypothesis H_fuel : fuel_statement.

  Lemma spec_valid_accepted_sec : forall s d,
    wf_schema s = true -> doc_types_proper d = true -> defaults_const d = true ->
    spec_valid s d = true ->
    snd (run_rule R_OverlappingFieldsCanBeMerged s d ctx0) = mkRes [] false ->
    validate s d default_plan = Ok [].
  Proof.
    intros s d Hwf Hp Hc Hv Hm.
    apply (known_accepted known_full doc_ok_for rule_iff s d Hwf Hp Hv).
    - intros r _. apply doc_ok_for_const, Hc.
    - intros r Hr. rewrite (known_full_false r Hr). exact Hm.
    - intros r Hr. apply H_fuel, known_full_true, Hr.
  Qed.

  Lemma violation_rejected_errors_sec : forall s d r,
    wf_schema s = true -> doc_types_proper d = true ->
    r <> R_OverlappingFieldsCanBeMerged -> violated r s d = true ->
    (r = R_VariablesInAllowedPosition -> defaults_const d = true) ->
    r_oof (snd (run_rule R_OverlappingFieldsCanBeMerged s d ctx0)) = false ->
    exists es, validate s d default_plan = Ok es /\ es <> [].
  Proof.
    intros s d r Hwf Hp H1 Hv Hc Hm.
    apply (known_rejected_errors known_full doc_ok_for rule_iff unconditional_known_full
             unconditional_doc_ok_for s d r); auto using known_full_intro, doc_ok_for_intro.
    intro r0. destruct (known_full r0) eqn:Ek.
    - apply H_fuel, known_full_true, Ek.
    - rewrite (known_full_false r0 Ek). exact Hm.
  Qed.
End Compose.

(* C07_position_proofs.v — VariablesInAllowedPosition fires exactly when the specification
   condition (5.8.5 All Variable Usages Are Allowed) is violated, for documents whose variable
   default values are constants (operations may share names or be anonymous: the rule keys the
   tables of an operation by its index in the document).
   Plan: (0) the collecting handler reads the context only through the six answers, so the walk is a
   fold over [annot s d]; (1) a frame calculus characterising the usage / definition tables per
   definition ([VInv_document]); the spread table is related to the one of the variable rules
   by a simulation ([sim_fold]); (2) [viap_walk] with the supplied fuel visits exactly the reachable
   scopes and appends their usage errors ([vwalk_top]); (3) the reported condition is the
   specification's IsVariableUsageAllowed on the usages of a well-formed schema ([usage_ok]);
   (4) the equivalence. *)
From GT Require Import Visitor Validate.
From GTS Require Import SpecLin Annot WfSchema SpecRules SpecValues SpecValid.
From GTP Require Import VisitorFacts TraceFacts RuleFacts EventFacts StatelessFacts.
From GTP Require C07_proofs C06_graph_proofs.
From GTP Require Import C07_graph_proofs.

(* ------------------------------------------------------------------ the extra hypothesis *)
(* default values are constants (DefaultValue : = Value[Const] in the grammar): no variable occurs
   inside the default value of a variable definition *)
Definition defaults_const (d : document) : bool :=
  forallb (fun o => forallb (fun v => match v_default v with
                                      | Some dv => is_nil (var_leaves dv)
                                      | None => true
                                      end) (op_variable_definitions o)) (operations_of d).

Definition usage := (name * ty * bool)%type.

(* ------------------------------------------------------------------ tables *)
Definition tg {V} (sc : scope) (m : list (scope * list V)) : list V :=
  match as_get scope_eqb sc m with Some l => l | None => [] end.

Lemma tg_append {V} sc sc' (vs : list V) m :
  tg sc' (as_append scope_eqb sc vs m) = tg sc' m ++ (if scope_eqb sc' sc then vs else []).
Proof.
  unfold tg, as_append. destruct (as_get scope_eqb sc m) eqn:E.
  - rewrite (as_get_set scope_eqb scope_eqb_eq). destruct (scope_eqb sc' sc) eqn:E2.
    + apply scope_eqb_eq in E2. subst. rewrite E. reflexivity.
    + rewrite app_nil_r. reflexivity.
  - rewrite as_get_app. cbn [as_get]. destruct (as_get scope_eqb sc' m) eqn:E3.
    + destruct (scope_eqb sc' sc) eqn:E2; [|rewrite app_nil_r; reflexivity].
      apply scope_eqb_eq in E2. subst. congruence.
    + destruct (scope_eqb sc' sc); reflexivity.
Qed.

Lemma tg_set_add sc n (m : list (scope * list name)) sc' x :
  In x (tg sc' (match as_get scope_eqb sc m with
                | Some l => as_set scope_eqb sc (set_add n l) m
                | None => m ++ [(sc, [n])]
                end))
  <-> In x (tg sc' m) \/ (sc' = sc /\ x = n).
Proof.
  unfold tg. destruct (as_get scope_eqb sc m) as [l|] eqn:E.
  - rewrite (as_get_set scope_eqb scope_eqb_eq). destruct (scope_eqb sc' sc) eqn:E2.
    + apply scope_eqb_eq in E2. subst sc'. rewrite E, set_add_In. split.
      * intros [H|H]; [right; split; [reflexivity|exact H]|left; exact H].
      * intros [H|[_ H]]; [right; exact H|left; exact H].
    + split; [intro H; left; exact H|]. intros [H|[H _]]; [exact H|].
      subst. rewrite scope_eqb_refl in E2. discriminate.
  - rewrite as_get_app. cbn [as_get]. destruct (as_get scope_eqb sc' m) as [l'|] eqn:E3.
    + split; [intro H; left; exact H|]. intros [H|[H _]]; [exact H|]. subst. congruence.
    + destruct (scope_eqb sc' sc) eqn:E2.
      * apply scope_eqb_eq in E2. subst. cbn [In]. split.
        -- intros [H|[]]. right. split; [reflexivity|symmetry; exact H].
        -- intros [[]|[_ H]]. left. symmetry. exact H.
      * split; [intros []|]. intros [[]|[H _]]. subst. rewrite scope_eqb_refl in E2. discriminate.
Qed.

Lemma type_by_name_name s n t : type_by_name s n = Some t -> td_name t = n.
Proof.
  induction s as [|x r IH]; cbn [type_by_name]; [discriminate|].
  destruct x as [sd|t'|dd|tn]; try exact IH.
  destruct (name_eqb (td_name t') n) eqn:E; [|exact IH].
  intro H. inversion H. subst. apply name_eqb_eq. exact E.
Qed.

Lemma type_by_name_self s n t : type_by_name s n = Some t -> type_by_name s (td_name t) = Some t.
Proof. intro H. rewrite (type_by_name_name s n t H). exact H. Qed.

(* ================================================================== (0) + (1) the collected tables *)
Section Collect.
  Variable s : sdocument.

  (* a context showing exactly the given answers *)
  Definition ctx_of (a : answers) : ctx :=
    mkCtx [a_type a] [a_parent a] [a_input a] [a_type_lit a] [a_input_lit a] [a_field a].

  Lemma viap_collect_answers st e c : viap_collect s st e c = viap_collect s st e (ctx_of (answers_of c)).
  Proof. destruct e as [n|n]; destruct n; reflexivity. Qed.

  Definition vstep (st : viap_state) (ea : aev) : viap_state := viap_collect s st (fst ea) (ctx_of (snd ea)).
  Definition vfold (evs : list aev) (st : viap_state) : viap_state := fold_left vstep evs st.

  Lemma vfold_app a b st : vfold (a ++ b) st = vfold b (vfold a st).
  Proof. apply fold_left_app. Qed.
  Lemma vfold_cons ea r st : vfold (ea :: r) st = vfold r (vstep st ea).
  Proof. reflexivity. Qed.
  Lemma vfold_one ea st : vfold [ea] st = vstep st ea.
  Proof. reflexivity. Qed.

  Lemma collect_annot d st : query_entry_ok s = true ->
    fold_left (hh (viap_collect s)) (ctr_document s d ctx0) st = vfold (annot s d) st.
  Proof.
    intro Hq. rewrite <- (ctr_document_answers s Hq d). unfold vfold. rewrite fold_left_map.
    apply fold_left_ext_fn. intros a [e c]. unfold hh, vstep, ev_answers. cbn [fst snd].
    apply viap_collect_answers.
  Qed.

  (* ---------------------------------------------------------------- frames *)
  Definition push_all (sc : scope) (df : list vardef) (m : list (scope * list vardef)) :=
    fold_left (fun m v => as_push scope_eqb sc v m) df m.

  Record Frame (sc : scope) (us : list usage) (df : list vardef) (st st' : viap_state) : Prop := mkFrame {
    fr_scope : vp_scope st' = vp_scope st;
    fr_defs : vp_defs st' = push_all sc df (vp_defs st);
    fr_dir : vp_directive st' = vp_directive st;
    fr_obj : vp_objects st' = vp_objects st;
    fr_dfl : vp_defaults st' = vp_defaults st;
    fr_us : forall sc', tg sc' (vp_usages st') = tg sc' (vp_usages st) ++ (if scope_eqb sc' sc then us else []);
    fr_seen : vp_seen st' = vp_seen st }.

  Definition Pre (sc : scope) (dir : option name) (os : list (option name)) (ds : list bool) (st : viap_state) : Prop :=
    vp_scope st = Some sc /\ vp_directive st = dir /\ vp_objects st = os /\ vp_defaults st = ds.

  Lemma Pre_Frame sc dir os ds us df st st' : Pre sc dir os ds st -> Frame sc us df st st' -> Pre sc dir os ds st'.
  Proof. intros (A & B & C & D) [F1 F2 F3 F4 F5 F6 F7]. repeat split; congruence. Qed.

  Lemma Frame_refl sc st : Frame sc [] [] st st.
  Proof.
    constructor; try reflexivity. intro sc'. destruct (scope_eqb sc' sc); rewrite app_nil_r; reflexivity.
  Qed.

  Lemma Frame_trans sc u1 d1 u2 d2 st st1 st2 :
    Frame sc u1 d1 st st1 -> Frame sc u2 d2 st1 st2 -> Frame sc (u1 ++ u2) (d1 ++ d2) st st2.
  Proof.
    intros [A1 A2 A3 A4 A5 A6 A7] [B1 B2 B3 B4 B5 B6 B7]. constructor; try congruence.
    - rewrite B2, A2. unfold push_all. rewrite fold_left_app. reflexivity.
    - intro sc'. rewrite B6, A6, <- app_assoc. destruct (scope_eqb sc' sc); reflexivity.
  Qed.

  Lemma Frame_eq sc u d u' d' st st' : Frame sc u d st st' -> u = u' -> d = d' -> Frame sc u' d' st st'.
  Proof. intros H -> ->. exact H. Qed.

  (* an inner frame between two steps that only touch the auxiliary stacks *)
  Lemma Frame_wrap sc us df st st1 st2 st3 :
    vp_scope st1 = vp_scope st -> vp_defs st1 = vp_defs st -> vp_usages st1 = vp_usages st ->
    Frame sc us df st1 st2 ->
    vp_scope st3 = vp_scope st2 -> vp_defs st3 = vp_defs st2 -> vp_usages st3 = vp_usages st2 ->
    vp_directive st3 = vp_directive st -> vp_objects st3 = vp_objects st -> vp_defaults st3 = vp_defaults st ->
    vp_seen st1 = vp_seen st -> vp_seen st3 = vp_seen st2 ->
    Frame sc us df st st3.
  Proof.
    intros A1 A2 A3 [F1 F2 F3 F4 F5 F6 F7] B1 B2 B3 C1 C2 C3 S1 S2. constructor; try congruence.
    intro sc'. rewrite B3, F6, A3. reflexivity.
  Qed.

  Lemma Frame_flat_map {A} (f : A -> list aev) (g : A -> list usage) sc dir os ds (l : list A) :
    Forall (fun x => forall st, Pre sc dir os ds st -> Frame sc (g x) [] st (vfold (f x) st)) l ->
    forall st, Pre sc dir os ds st -> Frame sc (flat_map g l) [] st (vfold (flat_map f l) st).
  Proof.
    induction 1 as [|x r Hx Hr IH]; intros st Hp; cbn [flat_map].
    - apply Frame_refl.
    - rewrite vfold_app. change (@nil vardef) with (@nil vardef ++ []).
      eapply Frame_trans; [apply Hx, Hp|]. apply IH. eapply Pre_Frame; [exact Hp|apply Hx, Hp].
  Qed.

  (* ---------------------------------------------------------------- values *)
  Definition hdb (ds : list bool) : bool := match ds with b :: _ => b | [] => false end.
  Definition consistent (e : env) : Prop := a_input e = lookup_named s (a_input_lit e).

  Lemma consistent_expecting e t : consistent (expecting s e t).
  Proof. reflexivity. Qed.

  Ltac vs := unfold vstep; cbn [fst snd viap_collect vp_scope vp_seen vp_defs vp_usages vp_spreads vp_directive vp_objects vp_defaults].

  Lemma Frame_value v : forall e sc dir os ds st, Pre sc dir os ds st -> consistent e ->
    Frame sc (value_usages s v (a_input_lit e) (hdb ds)) [] st (vfold (annot_value s v e) st).
  Proof.
    induction v as [n|z|b|str|b| |n|l IH|l IH] using value_ind'; intros e sc dir os ds st Hp Hc;
      try (apply Frame_refl).
    - (* variable *)
      cbn [annot_value value_usages]. rewrite vfold_cons, vfold_one.
      destruct Hp as (Hsc & Hdir & Hos & Hds).
      unfold vstep. cbn [fst snd viap_collect]. rewrite Hsc.
      cbn [current_input_type_literal ctx_of top input_type_literal_stack].
      destruct (a_input_lit e) as [t|]; [|apply Frame_refl].
      constructor; cbn [vp_scope vp_defs vp_directive vp_objects vp_defaults vp_usages]; try reflexivity;
        [congruence|].
      intro sc'. rewrite as_push_append, tg_append, Hds. reflexivity.
    - (* list *)
      cbn [annot_value value_usages]. rewrite vfold_cons, vfold_app, vfold_one.
      set (st1 := vstep st (Enter (NList l), e)).
      assert (Hp1 : Pre sc dir os (false :: ds) st1).
      { destruct Hp as (Hsc & Hdir & Hos & Hds). unfold Pre, st1, vstep. cbn. repeat split; congruence. }
      assert (Hin : Frame sc (flat_map (fun x => value_usages s x (item_type (a_input_lit e)) false) l) []
                          st1 (vfold (flat_map (fun x => annot_value s x (expecting s e (item_type (a_input_lit e)))) l) st1)).
      { apply (Frame_flat_map _ _ sc dir os (false :: ds)); [|exact Hp1].
        eapply Forall_impl; [|exact IH]. intros x Hx st' Hp'.
        exact (Hx (expecting s e (item_type (a_input_lit e))) sc dir os (false :: ds) st' Hp' (consistent_expecting _ _)). }
      destruct Hp as (Hsc & Hdir & Hos & Hds). destruct Hp1 as (Hsc1 & Hdir1 & Hos1 & Hds1).
      eapply Frame_wrap; [| | |exact Hin| | | | | | | |]; try reflexivity.
      + vs. rewrite (fr_dir _ _ _ _ _ Hin). congruence.
      + vs. rewrite (fr_obj _ _ _ _ _ Hin). congruence.
      + vs. rewrite (fr_dfl _ _ _ _ _ Hin), Hds1, Hds. reflexivity.
    - (* object *)
      cbn [annot_value value_usages]. rewrite vfold_cons, vfold_app, vfold_one.
      set (otn := opt_map td_name (a_input e)).
      set (st1 := vstep st (Enter (NObject l), e)).
      assert (Hp1 : Pre sc dir (otn :: os) ds st1).
      { destruct Hp as (Hsc & Hdir & Hos & Hds). unfold Pre, st1, vstep, otn. cbn. repeat split; congruence. }
      set (fdecl := fun kv : name * value =>
                      opt_bind (lookup_named s (a_input_lit e)) (fun td => input_field_by_name td (fst kv))).
      set (fhd := fun kv : name * value =>
                    match fdecl kv with Some f => is_some (iv_default f) | None => false end).
      assert (Hin : Frame sc (flat_map (fun kv : name * value =>
                                          value_usages s (snd kv) (opt_map iv_type (fdecl kv)) (fhd kv)) l) []
                          st1 (vfold (flat_map (fun kv : name * value =>
                                 let e' := expecting s e (input_field_type s (a_input_lit e) (fst kv)) in
                                 (Enter (NObjectField kv), e') :: annot_value s (snd kv) e' ++ [(Leave (NObjectField kv), e')]) l) st1)).
      { apply (Frame_flat_map _ _ sc dir (otn :: os) ds); [|exact Hp1].
        eapply Forall_impl; [|exact IH]. intros kv Hkv st' Hp'. cbv zeta.
        set (e' := expecting s e (input_field_type s (a_input_lit e) (fst kv))).
        rewrite vfold_cons, vfold_app, vfold_one.
        set (sta := vstep st' (Enter (NObjectField kv), e')).
        assert (Hhd : vp_defaults sta = fhd kv :: ds).
        { destruct Hp' as (Hsc' & Hdir' & Hos' & Hds'). unfold sta, vstep. cbn [fst snd viap_collect vp_defaults].
          rewrite Hos', Hds'. f_equal. unfold otn, fhd, fdecl. rewrite Hc.
          destruct (lookup_named s (a_input_lit e)) as [td|] eqn:El; cbn [opt_map opt_bind]; [|reflexivity].
          unfold lookup_named in El. destruct (a_input_lit e) as [t|]; cbn [opt_bind] in El; [|discriminate].
          rewrite (type_by_name_self s _ td El). reflexivity. }
        assert (Hpa : Pre sc dir (otn :: os) (fhd kv :: ds) sta).
        { destruct Hp' as (Hsc' & Hdir' & Hos' & Hds'). unfold Pre. repeat split; [| | |exact Hhd]; unfold sta, vstep; cbn; congruence. }
        pose proof (Hkv e' sc dir (otn :: os) (fhd kv :: ds) sta Hpa (consistent_expecting _ _)) as Hv.
        cbn [hdb] in Hv. change (a_input_lit e') with (opt_map iv_type (fdecl kv)) in Hv.
        destruct Hp' as (Hsc' & Hdir' & Hos' & Hds'). destruct Hpa as (Hsca & Hdira & Hosa & Hdsa).
        set (stb := vfold _ sta) in *.
        eapply Frame_wrap; [| | |exact Hv| | | | | | | |]; try reflexivity.
        + vs. rewrite (fr_dir _ _ _ _ _ Hv). congruence.
        + vs. rewrite (fr_obj _ _ _ _ _ Hv). congruence.
        + vs. rewrite (fr_dfl _ _ _ _ _ Hv), Hdsa, Hds'. reflexivity. }
      destruct Hp as (Hsc & Hdir & Hos & Hds). destruct Hp1 as (Hsc1 & Hdir1 & Hos1 & Hds1).
      set (st2 := vfold _ st1) in *.
      eapply Frame_wrap; [| | |exact Hin| | | | | | | |]; try reflexivity.
      + vs. rewrite (fr_dir _ _ _ _ _ Hin). congruence.
      + vs. rewrite (fr_obj _ _ _ _ _ Hin), Hos1, Hos. reflexivity.
      + vs. rewrite (fr_dfl _ _ _ _ _ Hin). congruence.
  Qed.

  (* ---------------------------------------------------------------- arguments, directives *)
  (* the declaration list the rule consults at an argument *)
  Definition mdecls (dir : option name) (e : env) : option (list input_value_def) :=
    match dir with
    | Some dn => opt_map dd_args (directive_by_name s dn)
    | None => opt_map fd_args (a_field e)
    end.

  Lemma Frame_arguments decls args e sc dir os ds st :
    Pre sc dir os ds st -> mdecls dir e = decls ->
    Frame sc (args_usages s decls args) [] st (vfold (annot_arguments s decls args e) st).
  Proof.
    intros Hp Hd. unfold args_usages, annot_arguments.
    apply (Frame_flat_map _ _ sc dir os ds); [|exact Hp].
    apply Forall_forall. intros a _ st' Hp'. cbv zeta.
    set (decl := opt_bind decls (fun ds0 => find_first (fun x => name_eqb (iv_name x) (fst a)) ds0)).
    set (e' := expecting s e (declared_arg_type decls (fst a))).
    rewrite vfold_cons, vfold_app, vfold_one.
    set (sta := vstep st' (Enter (NArgument a), e')).
    set (hd := match decl with Some x => is_some (iv_default x) | None => false end).
    assert (Hhd : vp_defaults sta = hd :: ds).
    { destruct Hp' as (Hsc' & Hdir' & Hos' & Hds'). unfold sta. vs. rewrite Hdir', Hds'.
      change (has_default_in (mdecls dir e) (fst a) :: ds = hd :: ds). rewrite Hd. reflexivity. }
    assert (Hpa : Pre sc dir os (hd :: ds) sta).
    { destruct Hp' as (Hsc' & Hdir' & Hos' & Hds'). unfold Pre. repeat split; [| | |exact Hhd]; unfold sta; vs; congruence. }
    pose proof (Frame_value (snd a) e' sc dir os (hd :: ds) sta Hpa (consistent_expecting _ _)) as Hv.
    cbn [hdb] in Hv. change (a_input_lit e') with (opt_map iv_type decl) in Hv.
    destruct Hp' as (Hsc' & Hdir' & Hos' & Hds'). destruct Hpa as (Hsca & Hdira & Hosa & Hdsa).
    set (stb := vfold _ sta) in *.
    eapply Frame_wrap; [| | |exact Hv| | | | | | | |]; try reflexivity.
    + vs. rewrite (fr_dir _ _ _ _ _ Hv). congruence.
    + vs. rewrite (fr_obj _ _ _ _ _ Hv). congruence.
    + vs. rewrite (fr_dfl _ _ _ _ _ Hv), Hdsa, Hds'. reflexivity.
  Qed.

  Definition dir_usages (dr : directive) : list usage := args_usages s (directive_decls s dr) (d_args dr).

  Lemma Frame_directive dr e sc os ds st : Pre sc None os ds st ->
    Frame sc (dir_usages dr) [] st
          (vfold ((Enter (NDirective dr), e) ::
                  annot_arguments s (opt_map dd_args (directive_by_name s (d_name dr))) (d_args dr) e ++
                  [(Leave (NDirective dr), e)]) st).
  Proof.
    intro Hp. rewrite vfold_cons, vfold_app, vfold_one.
    set (st1 := vstep st (Enter (NDirective dr), e)).
    assert (Hp1 : Pre sc (Some (d_name dr)) os ds st1).
    { destruct Hp as (Hsc & Hdir & Hos & Hds). unfold Pre, st1. vs. repeat split; congruence. }
    pose proof (Frame_arguments (opt_map dd_args (directive_by_name s (d_name dr))) (d_args dr) e
                                sc (Some (d_name dr)) os ds st1 Hp1 eq_refl) as Hin.
    destruct Hp as (Hsc & Hdir & Hos & Hds). destruct Hp1 as (Hsc1 & Hdir1 & Hos1 & Hds1).
    set (st2 := vfold _ st1) in *.
    eapply Frame_wrap; [| | |exact Hin| | | | | | | |]; try reflexivity.
    + vs. symmetry. exact Hdir.
    + vs. rewrite (fr_obj _ _ _ _ _ Hin). congruence.
    + vs. rewrite (fr_dfl _ _ _ _ _ Hin). congruence.
  Qed.

  (* ---------------------------------------------------------------- usages read off an annotated event list *)
  Definition ev_usages (ea : aev) : list usage :=
    match fst ea with
    | Enter (NField f) => args_usages s (field_decls (f, snd ea)) (sel_args f)
    | Enter (NDirective dr) => args_usages s (directive_decls s dr) (d_args dr)
    | _ => []
    end.
  Definition evs_usages (evs : list aev) : list usage := flat_map ev_usages evs.

  Lemma definition_usages_eq x : definition_usages s x = evs_usages (annot_definition s x env0).
  Proof. reflexivity. Qed.

  Lemma evs_usages_app a b : evs_usages (a ++ b) = evs_usages a ++ evs_usages b.
  Proof. apply flat_map_app. Qed.

  Lemma evs_usages_flat_nil {A} (f : A -> list aev) l :
    Forall (fun x => evs_usages (f x) = []) l -> evs_usages (flat_map f l) = [].
  Proof.
    induction 1 as [|x r Hx Hr IH]; cbn [flat_map]; [reflexivity|]. rewrite evs_usages_app, Hx, IH. reflexivity.
  Qed.

  Lemma evs_usages_value v : forall e, evs_usages (annot_value s v e) = [].
  Proof.
    induction v as [n|z|b|str|b| |n|l IH|l IH] using value_ind'; intro e; try reflexivity.
    - cbn [annot_value]. change (evs_usages ([(Enter (NList l), e)] ++
          flat_map (fun x => annot_value s x (expecting s e (item_type (a_input_lit e)))) l ++ [(Leave (NList l), e)]) = []).
      rewrite !evs_usages_app, evs_usages_flat_nil; [reflexivity|].
      eapply Forall_impl; [|exact IH]. intros x Hx. apply Hx.
    - cbn [annot_value].
      match goal with |- evs_usages (?a :: ?m ++ ?z) = [] => change (evs_usages ([a] ++ m ++ z) = []) end.
      rewrite !evs_usages_app, evs_usages_flat_nil; [reflexivity|].
      eapply Forall_impl; [|exact IH]. intros kv Hkv. cbv zeta.
      match goal with |- evs_usages (?a :: ?m ++ ?z) = [] => change (evs_usages ([a] ++ m ++ z) = []) end.
      rewrite !evs_usages_app, Hkv. reflexivity.
  Qed.

  Lemma evs_usages_arguments decls args e : evs_usages (annot_arguments s decls args e) = [].
  Proof.
    unfold annot_arguments. apply evs_usages_flat_nil, Forall_forall. intros a _. cbv zeta.
    match goal with |- evs_usages (?a :: ?m ++ ?z) = [] => change (evs_usages ([a] ++ m ++ z) = []) end.
    rewrite !evs_usages_app, evs_usages_value. reflexivity.
  Qed.

  Lemma evs_usages_directives dirs e : evs_usages (annot_directives s dirs e) = flat_map dir_usages dirs.
  Proof.
    unfold annot_directives, evs_usages. rewrite flat_map_flat_map. apply flat_map_all_ext. intro dr.
    fold (evs_usages ((Enter (NDirective dr), e) ::
            annot_arguments s (opt_map dd_args (directive_by_name s (d_name dr))) (d_args dr) e ++ [(Leave (NDirective dr), e)])).
    match goal with |- evs_usages (?a :: ?m ++ ?z) = _ => change (evs_usages ([a] ++ m ++ z) = dir_usages dr) end.
    rewrite !evs_usages_app, evs_usages_arguments. unfold evs_usages. cbn [flat_map ev_usages fst app]. rewrite !app_nil_r. reflexivity.
  Qed.

  Lemma evs_usages_vardefs vars e : evs_usages (annot_vardefs s vars e) = [].
  Proof.
    unfold annot_vardefs. apply evs_usages_flat_nil, Forall_forall. intros v _. cbv zeta.
    match goal with |- evs_usages (?a :: ?m ++ ?z) = [] => change (evs_usages ([a] ++ m ++ z) = []) end.
    rewrite !evs_usages_app. destruct (v_default v); [rewrite evs_usages_value|]; reflexivity.
  Qed.

  (* ---------------------------------------------------------------- segments *)
  Definition SegU (dir : option name) (evs : list aev) : Prop :=
    forall sc os ds st, Pre sc dir os ds st -> Frame sc (evs_usages evs) [] st (vfold evs st).

  Lemma SegU_nil dir : SegU dir [].
  Proof. intros sc os ds st Hp. apply Frame_refl. Qed.

  Lemma SegU_app dir a b : SegU dir a -> SegU dir b -> SegU dir (a ++ b).
  Proof.
    intros Ha Hb sc os ds st Hp. rewrite vfold_app, evs_usages_app. change (@nil vardef) with (@nil vardef ++ []).
    eapply Frame_trans; [apply (Ha sc os ds), Hp|]. apply (Hb sc os ds).
    eapply Pre_Frame; [exact Hp|apply (Ha sc os ds), Hp].
  Qed.

  Lemma SegU_inert dir ea : (forall st, vstep st ea = st) -> ev_usages ea = [] -> SegU dir [ea].
  Proof.
    intros H1 H2 sc os ds st Hp. rewrite vfold_one, H1. unfold evs_usages. cbn [flat_map]. rewrite H2. apply Frame_refl.
  Qed.

  Lemma SegU_flat_map {A} dir (f : A -> list aev) l : Forall (fun x => SegU dir (f x)) l -> SegU dir (flat_map f l).
  Proof.
    induction 1 as [|x r Hx Hr IH]; cbn [flat_map]; [apply SegU_nil|]. apply SegU_app; assumption.
  Qed.

  Lemma SegU_directives dirs e : SegU None (annot_directives s dirs e).
  Proof.
    unfold annot_directives. apply SegU_flat_map, Forall_forall. intros dr _ sc os ds st Hp.
    eapply Frame_eq; [apply (Frame_directive dr e sc os ds st Hp)| |reflexivity].
    match goal with |- _ = evs_usages (?a :: ?m ++ ?z) => change (dir_usages dr = evs_usages ([a] ++ m ++ z)) end.
    rewrite !evs_usages_app, evs_usages_arguments. unfold evs_usages. cbn [flat_map ev_usages fst app]. rewrite !app_nil_r. reflexivity.
  Qed.

  Lemma SegU_field_head x e1 e2 :
    mdecls None e2 = field_decls (x, e1) ->
    SegU None ((Enter (NField x), e1) :: annot_arguments s (field_decls (x, e1)) (sel_args x) e2).
  Proof.
    intros Hd sc os ds st Hp. rewrite vfold_cons.
    assert (E : vstep st (Enter (NField x), e1) = st) by reflexivity. rewrite E.
    eapply Frame_eq; [apply (Frame_arguments _ _ e2 sc None os ds st Hp Hd)| |reflexivity].
    change (evs_usages ((Enter (NField x), e1) :: annot_arguments s (field_decls (x, e1)) (sel_args x) e2))
      with (evs_usages ([(Enter (NField x), e1)] ++ annot_arguments s (field_decls (x, e1)) (sel_args x) e2)).
    rewrite evs_usages_app, evs_usages_arguments. unfold evs_usages. cbn [flat_map ev_usages fst snd app]. rewrite !app_nil_r. reflexivity.
  Qed.

  Lemma SegU_selection x : forall e, SegU None (annot_selection s x e).
  Proof.
    induction x as [p al n args dirs sp sels IH|p n dirs|p tc dirs sp sels IH] using selection_ind'; intro e.
    - cbn [annot_selection]. cbv zeta.
      set (fdef := opt_bind (a_parent e) (fun t => field_by_name t n)).
      set (e1 := at_type s e (opt_map fd_type fdef)).
      set (e2 := in_field e1 fdef). set (e3 := in_selection_set e2).
      set (x := SField p al n args dirs sp sels).
      change (SegU None (((Enter (NField x), e1) :: annot_arguments s (field_decls (x, e1)) (sel_args x) e2) ++
                         annot_directives s dirs e2 ++ [(Enter (NSelectionSet sp sels), e3)] ++
                         flat_map (fun y => annot_selection s y e3) sels ++
                         [(Leave (NSelectionSet sp sels), e3)] ++ [(Leave (NField x), e1)])).
      apply SegU_app; [apply SegU_field_head; reflexivity|].
      apply SegU_app; [apply SegU_directives|].
      apply SegU_app; [apply SegU_inert; reflexivity|].
      apply SegU_app; [apply SegU_flat_map; eapply Forall_impl; [|exact IH]; intros y Hy; apply Hy|].
      apply SegU_app; apply SegU_inert; reflexivity.
    - cbn [annot_selection].
      change (SegU None ([(Enter (NSpread (SSpread p n dirs)), e)] ++ annot_directives s dirs e ++
                         [(Leave (NSpread (SSpread p n dirs)), e)])).
      apply SegU_app; [|apply SegU_app; [apply SegU_directives|apply SegU_inert; reflexivity]].
      (* entering a spread only touches the spread table *)
      intros sc os ds st Hp. rewrite vfold_one. unfold evs_usages. cbn [flat_map ev_usages fst app].
      destruct Hp as (Hsc & Hdir & Hos & Hds). unfold vstep. cbn [fst snd viap_collect]. rewrite Hsc.
      constructor; cbn [vp_scope vp_defs vp_directive vp_objects vp_defaults vp_usages]; try reflexivity; [congruence|].
      intro sc'. destruct (scope_eqb sc' sc); rewrite app_nil_r; reflexivity.
    - cbn [annot_selection]. cbv zeta.
      set (e1 := match tc with Some cond => at_type s e (Some (TNamed cond)) | None => e end).
      set (e3 := in_selection_set e1). set (x := SInline p tc dirs sp sels).
      change (SegU None ([(Enter (NInline x), e1)] ++ annot_directives s dirs e1 ++
                         [(Enter (NSelectionSet sp sels), e3)] ++
                         flat_map (fun y => annot_selection s y e3) sels ++
                         [(Leave (NSelectionSet sp sels), e3)] ++ [(Leave (NInline x), e1)])).
      apply SegU_app; [apply SegU_inert; reflexivity|].
      apply SegU_app; [apply SegU_directives|].
      apply SegU_app; [apply SegU_inert; reflexivity|].
      apply SegU_app; [apply SegU_flat_map; eapply Forall_impl; [|exact IH]; intros y Hy; apply Hy|].
      apply SegU_app; apply SegU_inert; reflexivity.
  Qed.

  Lemma SegU_selection_set sp sels e : SegU None (annot_selection_set s sp sels e).
  Proof.
    unfold annot_selection_set. cbv zeta. set (e3 := in_selection_set e).
    change (SegU None ([(Enter (NSelectionSet sp sels), e3)] ++ flat_map (fun y => annot_selection s y e3) sels ++
                       [(Leave (NSelectionSet sp sels), e3)])).
    apply SegU_app; [apply SegU_inert; reflexivity|].
    apply SegU_app; [|apply SegU_inert; reflexivity].
    apply SegU_flat_map, Forall_forall. intros y _. apply SegU_selection.
  Qed.

  (* ---------------------------------------------------------------- variable definitions *)
  Lemma flat_map_nil_inv {A B} (f : A -> list B) l : flat_map f l = [] -> Forall (fun x => f x = []) l.
  Proof.
    induction l as [|x r IH]; cbn [flat_map]; intro H; [constructor|].
    apply app_eq_nil in H. destruct H as [H1 H2]. constructor; [exact H1|apply IH, H2].
  Qed.
  Lemma flat_map_nil_of {A B} (f : A -> list B) l : Forall (fun x => f x = []) l -> flat_map f l = [].
  Proof. induction 1 as [|x r Hx Hr IH]; cbn [flat_map]; [reflexivity|]. rewrite Hx, IH. reflexivity. Qed.

  Lemma value_usages_const v : forall t b, var_leaves v = [] -> value_usages s v t b = [].
  Proof.
    induction v as [n|z|b0|str|b0| |n|l IH|l IH] using value_ind'; intros t b H; cbn [value_usages]; try reflexivity.
    - discriminate H.
    - cbn [var_leaves] in H. apply flat_map_nil_inv in H. apply flat_map_nil_of.
      rewrite Forall_forall in *. intros x Hx. apply (IH x Hx). apply (H x Hx).
    - cbn [var_leaves] in H. apply flat_map_nil_inv in H. apply flat_map_nil_of.
      rewrite Forall_forall in *. intros kv Hkv. apply (IH kv Hkv). apply (H kv Hkv).
  Qed.

  Definition vd_const (v : vardef) : Prop :=
    match v_default v with Some dv => var_leaves dv = [] | None => True end.

  Lemma Frame_vardef v e sc dir os ds st : Pre sc dir os ds st -> vd_const v ->
    Frame sc [] [v] st
          (vfold (let e' := expecting s e (Some (v_type v)) in
                  (Enter (NVarDef v), e') ::
                  match v_default v with Some dv => annot_value s dv e' | None => [] end ++
                  [(Leave (NVarDef v), e')]) st).
  Proof.
    intros Hp Hc. cbv zeta. set (e' := expecting s e (Some (v_type v))).
    rewrite vfold_cons, vfold_app, vfold_one.
    set (st1 := vstep st (Enter (NVarDef v), e')).
    assert (F1 : Frame sc [] [v] st st1).
    { destruct Hp as (Hsc & Hdir & Hos & Hds). unfold st1, vstep. cbn [fst snd viap_collect]. rewrite Hsc.
      constructor; cbn [vp_scope vp_defs vp_directive vp_objects vp_defaults vp_usages]; try reflexivity; [congruence|].
      intro sc'. destruct (scope_eqb sc' sc); rewrite app_nil_r; reflexivity. }
    pose proof (Pre_Frame _ _ _ _ _ _ _ _ Hp F1) as Hp1.
    set (mid := match v_default v with Some dv => annot_value s dv e' | None => [] end).
    assert (F2 : Frame sc [] [] st1 (vfold mid st1)).
    { unfold mid. unfold vd_const in Hc. destruct (v_default v) as [dv|]; [|apply Frame_refl].
      eapply Frame_eq; [apply (Frame_value dv e' sc dir os ds st1 Hp1 (consistent_expecting _ _))| |reflexivity].
      apply value_usages_const, Hc. }
    assert (E : forall st', vstep st' (Leave (NVarDef v), e') = st') by reflexivity. rewrite E.
    exact (Frame_trans _ _ _ _ _ _ _ _ F1 F2).
  Qed.

  Lemma Frame_vardefs vds e sc dir os ds : Forall vd_const vds ->
    forall st, Pre sc dir os ds st -> Frame sc [] vds st (vfold (annot_vardefs s vds e) st).
  Proof.
    unfold annot_vardefs. induction 1 as [|v r Hv Hr IH]; intros st Hp; cbn [flat_map]; [apply Frame_refl|].
    rewrite vfold_app. pose proof (Frame_vardef v e sc dir os ds st Hp Hv) as F1.
    pose proof (IH _ (Pre_Frame _ _ _ _ _ _ _ _ Hp F1)) as F2.
    exact (Frame_trans _ _ _ _ _ _ _ _ F1 F2).
  Qed.

  (* ---------------------------------------------------------------- definitions *)
  Lemma push_all_cons sc v r (m : list (scope * list vardef)) :
    push_all sc (v :: r) m = push_all sc r (as_push scope_eqb sc v m).
  Proof. reflexivity. Qed.

  Lemma push_all_last sc r : forall (m : list (scope * list vardef)) l, as_get scope_eqb sc m = None ->
    push_all sc r (m ++ [(sc, l)]) = m ++ [(sc, l ++ r)].
  Proof.
    induction r as [|v r IH]; intros m l H.
    - rewrite app_nil_r. reflexivity.
    - rewrite push_all_cons.
      assert (E : as_push scope_eqb sc v (m ++ [(sc, l)]) = m ++ [(sc, l ++ [v])]).
      { unfold as_push. rewrite as_get_app, H. cbn [as_get]. rewrite scope_eqb_refl.
        apply (as_set_app_last scope_eqb scope_eqb_eq). exact H. }
      rewrite E, (IH _ _ H), <- app_assoc. reflexivity.
  Qed.

  Lemma push_all_fresh sc df (m : list (scope * list vardef)) : as_get scope_eqb sc m = None ->
    push_all sc df m = m ++ match df with [] => [] | _ => [(sc, df)] end.
  Proof.
    intro H. destruct df as [|v r]; [rewrite app_nil_r; reflexivity|].
    rewrite push_all_cons. unfold as_push. rewrite H.
    apply (push_all_last sc r m [v] H).
  Qed.

  Definition defs_spec (ops : list (nat * operation)) : list (scope * list vardef) :=
    flat_map (fun io : nat * operation =>
                match op_variable_definitions (snd io) with
                | [] => []
                | l => [(ScOp (fst io) (op_node_name (snd io)), l)]
                end) ops.
  Definition usages_spec (ds : document) (sc : scope) : list usage :=
    flat_map (fun x => if scope_eqb sc (def_scope x) then definition_usages s (snd x) else []) (idefs 0 ds).

  (* the scope of the operation being entered is new: every scope of the table has a smaller index *)
  Lemma defs_spec_fresh i n ops :
    (forall io, In io ops -> fst io < i) -> as_get scope_eqb (ScOp i n) (defs_spec ops) = None.
  Proof.
    induction ops as [|[j o] r IH]; cbn [defs_spec flat_map]; intro H; [reflexivity|].
    fold (defs_spec r). rewrite as_get_app.
    assert (E : opkey_eqb (i, n) (j, op_node_name o) = false).
    { destruct (opkey_eqb (i, n) (j, op_node_name o)) eqn:E; [|reflexivity]. apply opkey_eqb_eq in E.
      inversion E. subst. specialize (H (j, o) (or_introl eq_refl)). cbn in H. lia. }
    cbn [fst snd].
    destruct (op_variable_definitions o); cbn [as_get scope_eqb]; rewrite ?E; apply IH; intros io Hio; apply H; right; exact Hio.
  Qed.

  Record VInv (pre : document) (st : viap_state) : Prop := mkVInv {
    vi_defs : vp_defs st = defs_spec (iops 0 pre);
    vi_us : forall sc, tg sc (vp_usages st) = usages_spec pre sc;
    vi_dir : vp_directive st = None;
    vi_seen : vp_seen st = nops pre }.

  Lemma VInv_step pre x st :
    VInv pre st ->
    (forall o, x = DOp o -> Forall vd_const (op_variable_definitions o)) ->
    VInv (pre ++ [x]) (vfold (annot_definition s x env0) st).
  Proof.
    intros [Hd Hu Hdir Hk] Hconst. destruct x as [o|f].
    - cbn [annot_definition]. cbv zeta.
      set (e1 := at_type s env0 (opt_map (fun t => TNamed (td_name t)) (root s (o_kind o)))).
      set (body := annot_directives s (op_directives o) e1 ++ annot_vardefs s (op_variable_definitions o) e1 ++
                   annot_selection_set s (o_span o) (o_sels o) e1 ++ [(Leave (NOperation o), e1)]).
      rewrite vfold_cons. set (n := op_node_name o). set (i := nops pre).
      set (st1 := vstep st (Enter (NOperation o), e1)).
      assert (Hp1 : Pre (ScOp i n) None (vp_objects st) (vp_defaults st) st1).
      { unfold Pre, st1. vs. rewrite Hk. repeat split. exact Hdir. }
      assert (Hb : Frame (ScOp i n) (evs_usages body) (op_variable_definitions o) st1 (vfold body st1)).
      { unfold body. rewrite !vfold_app.
        pose proof (SegU_directives (op_directives o) e1 _ _ _ _ Hp1) as F1.
        pose proof (Pre_Frame _ _ _ _ _ _ _ _ Hp1 F1) as Hp2.
        pose proof (Frame_vardefs (op_variable_definitions o) e1 _ _ _ _ (Hconst o eq_refl) _ Hp2) as F2.
        pose proof (Pre_Frame _ _ _ _ _ _ _ _ Hp2 F2) as Hp3.
        assert (S3 : SegU None (annot_selection_set s (o_span o) (o_sels o) e1 ++ [(Leave (NOperation o), e1)])).
        { apply SegU_app; [apply SegU_selection_set|apply SegU_inert; reflexivity]. }
        pose proof (S3 _ _ _ _ Hp3) as F3. rewrite vfold_app in F3.
        eapply Frame_eq; [exact (Frame_trans _ _ _ _ _ _ _ _ F1 (Frame_trans _ _ _ _ _ _ _ _ F2 F3))| |].
        - rewrite !evs_usages_app, evs_usages_vardefs. reflexivity.
        - cbn [app]. apply app_nil_r. }
      change (definition_usages s (DOp o)) with (evs_usages body) in *.
      constructor.
      + rewrite (fr_defs _ _ _ _ _ Hb). unfold st1. vs. rewrite Hd.
        rewrite push_all_fresh.
        2:{ apply defs_spec_fresh. intros [j o'] Hio. apply in_iops, idefs_op_lt in Hio. exact Hio. }
        rewrite iops_app. unfold defs_spec. rewrite flat_map_app.
        change (iops (0 + nops pre) [DOp o]) with [(i, o)]. cbn [flat_map app fst snd].
        fold n. destruct (op_variable_definitions o); rewrite ?app_nil_r; reflexivity.
      + intro sc. rewrite (fr_us _ _ _ _ _ Hb). unfold st1. vs. rewrite Hu. unfold usages_spec.
        rewrite idefs_snoc, flat_map_app. cbn [flat_map]. unfold def_scope at 3. cbn [fst snd].
        rewrite app_nil_r. reflexivity.
      + rewrite (fr_dir _ _ _ _ _ Hb). unfold st1. vs. exact Hdir.
      + rewrite (fr_seen _ _ _ _ _ Hb). unfold st1. vs. rewrite Hk, nops_app. unfold nops at 3. cbn. lia.
    - cbn [annot_definition]. cbv zeta.
      set (e1 := at_type s env0 (Some (TNamed (fr_tc f)))).
      set (body := annot_directives s (fr_dirs f) e1 ++ annot_selection_set s (fr_span f) (fr_sels f) e1 ++
                   [(Leave (NFragmentDef f), e1)]).
      rewrite vfold_cons. set (st1 := vstep st (Enter (NFragmentDef f), e1)).
      assert (Hp1 : Pre (ScFrag (fr_name f)) None (vp_objects st) (vp_defaults st) st1).
      { unfold Pre, st1. vs. repeat split. exact Hdir. }
      assert (S3 : SegU None body).
      { unfold body. apply SegU_app; [apply SegU_directives|].
        apply SegU_app; [apply SegU_selection_set|apply SegU_inert; reflexivity]. }
      pose proof (S3 _ _ _ _ Hp1) as Hb.
      change (definition_usages s (DFrag f)) with (evs_usages body) in *.
      constructor.
      + rewrite (fr_defs _ _ _ _ _ Hb). unfold st1. vs. unfold push_all. cbn [fold_left]. rewrite Hd.
        rewrite iops_app. change (iops (0 + nops pre) [DFrag f]) with (@nil (nat * operation)).
        rewrite app_nil_r. reflexivity.
      + intro sc. rewrite (fr_us _ _ _ _ _ Hb). unfold st1. vs. rewrite Hu. unfold usages_spec.
        rewrite idefs_snoc, flat_map_app. cbn [flat_map]. unfold def_scope at 3. cbn [fst snd].
        rewrite app_nil_r. reflexivity.
      + rewrite (fr_dir _ _ _ _ _ Hb). unfold st1. vs. exact Hdir.
      + rewrite (fr_seen _ _ _ _ _ Hb). unfold st1. vs. rewrite Hk, nops_app. unfold nops at 3. cbn. lia.
  Qed.

  Lemma VInv_defs ds : forall pre st,
    VInv pre st ->
    (forall o, In (DOp o) ds -> Forall vd_const (op_variable_definitions o)) ->
    VInv (pre ++ ds) (vfold (flat_map (fun x => annot_definition s x env0) ds) st).
  Proof.
    induction ds as [|x r IH]; intros pre st Hinv Hc; cbn [flat_map].
    - rewrite app_nil_r. exact Hinv.
    - rewrite vfold_app.
      replace (pre ++ x :: r) with ((pre ++ [x]) ++ r) by (rewrite <- app_assoc; reflexivity).
      apply IH; [|intros o Ho; apply Hc; right; exact Ho]. apply VInv_step; [exact Hinv|].
      intros o ->. apply Hc. left. reflexivity.
  Qed.

  Lemma VInv_document d :
    (forall o, In (DOp o) d -> Forall vd_const (op_variable_definitions o)) ->
    VInv d (vfold (annot s d) viap_init).
  Proof.
    intros Hc. unfold annot. rewrite vfold_cons, vfold_app, vfold_one.
    assert (E1 : vstep viap_init (Enter (NDocument d), env0) = viap_init) by reflexivity.
    assert (E2 : forall st, vstep st (Leave (NDocument d), env0) = st) by reflexivity.
    rewrite E1, E2. apply (VInv_defs d [] viap_init); [|exact Hc].
    constructor; reflexivity.
  Qed.
End Collect.

(* ================================================================== the spread table: simulation *)
(* the spread table of this rule (sets) has the same members as the one of the variable rules *)
Definition SimR (stv : vars_state) (stp : viap_state) : Prop :=
  vs_scope stv = vp_scope stp /\ vs_seen stv = vp_seen stp /\
  forall sc x, In x (tg sc (vs_spreads stv)) <-> In x (tg sc (vp_spreads stp)).

Lemma sim_step s stv stp ea : SimR stv stp -> SimR (vars_collect stv (fst ea)) (vstep s stp ea).
Proof.
  intros (H1 & Hk & H2). destruct ea as [e a]. unfold vstep. cbn [fst snd].
  assert (Hfin : forall stv' stp', vs_scope stv' = vp_scope stp' -> vs_seen stv' = vp_seen stp' ->
                                   vs_spreads stv' = vs_spreads stv ->
                                   vp_spreads stp' = vp_spreads stp -> SimR stv' stp').
  { intros stv' stp' A A' B C. split; [exact A|]. split; [exact A'|]. rewrite B, C. exact H2. }
  destruct e as [n|n]; destruct n; cbn [viap_collect vars_collect];
    try (apply Hfin; [assumption|assumption|reflexivity|reflexivity]);
    try (apply Hfin; cbn; congruence).
  - (* variable definition *)
    rewrite <- H1. destruct (vs_scope stv) as [[i m|m]|] eqn:Es; try (apply Hfin; cbn; congruence).
    destruct (as_get opkey_eqb (i, m) (vs_defined stv)); apply Hfin; cbn; congruence.
  - (* argument *)
    destruct (vs_scope stv) eqn:Es; apply Hfin; cbn; congruence.
  - (* spread *)
    destruct f as [p al n args dirs sp sels|p n dirs|p tc dirs sp sels];
      try (apply Hfin; [assumption|assumption|reflexivity|reflexivity]).
    rewrite <- H1. destruct (vs_scope stv) as [sc0|] eqn:Es; [|apply Hfin; cbn; congruence].
    split; [cbn; congruence|]. split; [cbn; congruence|]. intros sc x. cbn [vs_spreads vp_spreads].
    rewrite as_push_append, tg_append, tg_set_add, in_app_iff, H2.
    destruct (scope_eqb sc sc0) eqn:E.
    + apply scope_eqb_eq in E. subst. cbn [In]. intuition.
    + cbn [In]. split; [intros [H|[]]; left; exact H|].
      intros [H|[H _]]; [left; exact H|]. subst. rewrite scope_eqb_refl in E. discriminate.
  - (* variable *)
    destruct (vp_scope stp) eqn:Es; [|apply Hfin; cbn; congruence].
    destruct (current_input_type_literal (ctx_of a)); apply Hfin; cbn; congruence.
Qed.

Lemma sim_fold s evs : forall stv stp, SimR stv stp -> SimR (cfold (map fst evs) stv) (vfold s evs stp).
Proof.
  induction evs as [|ea r IH]; intros stv stp H; [exact H|].
  cbn [map]. rewrite cfold_cons, vfold_cons. apply IH, sim_step, H.
Qed.

Lemma sim_document s d : query_entry_ok s = true ->
  SimR (cfold (lin_document d) vars_init) (vfold s (annot s d) viap_init).
Proof.
  intro Hq. rewrite <- (annot_events s d Hq). apply sim_fold. split; [reflexivity|]. split; [reflexivity|]. intros sc x. reflexivity.
Qed.

(* ================================================================== (2) the reachability walk *)
Section VWalk.
  Variable s : sdocument.
  Variable st : viap_state.
  Variable vds : list vardef.
  Variable U : list name.
  Variable E0 : list verror.

  Definition vsuccs (sc : scope) : list name := tg sc (vp_spreads st).
  Definition vue (sc : scope) : list verror := usage_errors s vds (tg sc (vp_usages st)).
  Hypothesis HU : forall sc sp, In sp (vsuccs sc) -> In sp U.

  Definition vloop (fuel : nat) : list name -> list verror -> list scope -> option (list verror * list scope) :=
    fix loop (l : list name) (errs : list verror) (visited : list scope) :=
      match l with
      | [] => Some (errs, visited)
      | sp :: r =>
          match viap_walk fuel s st vds (ScFrag sp) errs visited with
          | Some (e', v') => loop r e' v'
          | None => None
          end
      end.

  Lemma viap_walk_S fuel from errs vis :
    viap_walk (S fuel) s st vds from errs vis =
    if existsb (scope_eqb from) vis then Some (errs, vis)
    else vloop fuel (vsuccs from) (errs ++ vue from) (vis ++ [from]).
  Proof. reflexivity. Qed.

  Variable root : scope.
  Inductive vreach : scope -> Prop :=
  | vreach_root : vreach root
  | vreach_step x sp : vreach x -> In sp (vsuccs x) -> vreach (ScFrag sp).

  Definition VWInv (S : list scope) (vis : list scope) (errs : list verror) : Prop :=
    (forall x, In x vis -> ~ In x S -> forall sp, In sp (vsuccs x) -> In (ScFrag sp) vis) /\
    (forall x, In x vis -> vreach x) /\
    (forall e, In e errs -> In e E0 \/ exists x, In x vis /\ In e (vue x)) /\
    (forall x e, In x vis -> In e (vue x) -> In e errs) /\
    (forall e, In e E0 -> In e errs).

  Definition VWalkOK (fuel : nat) : Prop :=
    forall from errs vis,
      vreach from -> (match from with ScFrag sp => In sp U | ScOp _ _ => True end) -> fuel_ok U fuel from vis ->
      exists errs' vis', viap_walk fuel s st vds from errs vis = Some (errs', vis') /\
        incl vis vis' /\ In from vis' /\ (forall S, VWInv S vis errs -> VWInv S vis' errs').

  Lemma vloop_correct fuel (IHf : VWalkOK fuel) : forall l errs vis,
    (forall sp, In sp l -> vreach (ScFrag sp) /\ In sp U) -> measure U vis < fuel ->
    exists errs' vis', vloop fuel l errs vis = Some (errs', vis') /\ incl vis vis' /\
      (forall sp, In sp l -> In (ScFrag sp) vis') /\ (forall S, VWInv S vis errs -> VWInv S vis' errs').
  Proof.
    induction l as [|sp r IH]; intros errs vis Hl Hm; cbn [vloop].
    - exists errs, vis. split; [reflexivity|]. split; [apply incl_refl|]. split; [intros sp []|auto].
    - destruct (Hl sp (or_introl eq_refl)) as [Hr HinU].
      destruct (IHf (ScFrag sp) errs vis Hr HinU) as (a1 & v1 & E1 & I1 & I2 & I3).
      { unfold fuel_ok. lia. }
      rewrite E1. fold (vloop fuel).
      destruct (IH a1 v1) as (a2 & v2 & E2 & J1 & J2 & J3).
      { intros sp' Hsp'. apply Hl. right. exact Hsp'. }
      { pose proof (measure_mono U vis v1 I1). lia. }
      exists a2, v2. split; [exact E2|]. split; [eapply incl_tran; eassumption|].
      split; [|intros S HS; apply J3, I3, HS].
      intros sp' [->|Hsp']; [apply J1, I2|apply J2, Hsp'].
  Qed.

  Lemma vwalk_correct fuel : VWalkOK fuel.
  Proof.
    induction fuel as [|fuel IHf]; intros from errs vis Hreach HinU Hfuel.
    - unfold fuel_ok in Hfuel. lia.
    - rewrite viap_walk_S. destruct (existsb (scope_eqb from) vis) eqn:E.
      + apply existsb_scope_In in E. exists errs, vis. split; [reflexivity|].
        split; [apply incl_refl|]. split; [exact E|auto].
      + assert (Hnot : ~ In from vis).
        { intro H. apply existsb_scope_In in H. congruence. }
        destruct (vloop_correct fuel IHf (vsuccs from) (errs ++ vue from) (vis ++ [from]))
          as (a' & v' & E' & I1 & I2 & I3).
        { intros sp Hsp. split; [eapply vreach_step; eassumption|eapply HU; eassumption]. }
        { unfold fuel_ok in Hfuel. destruct from as [i n|sp].
          - pose proof (measure_mono U vis (vis ++ [ScOp i n]) (incl_appl _ (incl_refl _))). lia.
          - pose proof (measure_lt U vis sp HinU Hnot). lia. }
        assert (Hfrom : In from v') by (apply I1, in_or_app; right; left; reflexivity).
        exists a', v'. split; [exact E'|]. split; [|split; [exact Hfrom|]].
        { intros x Hx. apply I1, in_or_app. left. exact Hx. }
        intros S (C1 & C2 & C3 & C4 & C5).
        assert (W1 : VWInv (from :: S) (vis ++ [from]) (errs ++ vue from)).
        { split; [|split; [|split; [|split]]].
          - intros x Hx HxS sp Hsp. apply in_app_or in Hx. destruct Hx as [Hx|[<-|[]]].
            + apply in_or_app. left. apply (C1 x Hx); [|exact Hsp]. intro HS. apply HxS. right. exact HS.
            + exfalso. apply HxS. left. reflexivity.
          - intros x Hx. apply in_app_or in Hx. destruct Hx as [Hx|[<-|[]]]; [apply C2, Hx|exact Hreach].
          - intros e He. apply in_app_or in He. destruct He as [He|He].
            + destruct (C3 e He) as [H0|(x & Hx & Hex)]; [left; exact H0|].
              right. exists x. split; [apply in_or_app; left; exact Hx|exact Hex].
            + right. exists from. split; [apply in_or_app; right; left; reflexivity|exact He].
          - intros x e Hx He. apply in_or_app. apply in_app_or in Hx. destruct Hx as [Hx|[<-|[]]].
            + left. eapply C4; eassumption.
            + right. exact He.
          - intros e He. apply in_or_app. left. apply C5, He. }
        destruct (I3 _ W1) as (D1 & D2 & D3 & D4 & D5).
        split; [|split; [|split; [|split]]]; try assumption.
        intros x Hx HxS sp Hsp. destruct (scope_eqb x from) eqn:Ex.
        * apply scope_eqb_eq in Ex. subst x. apply I2, Hsp.
        * apply (D1 x Hx); [|exact Hsp]. intros [Hh|Hh]; [|contradiction].
          subst x. rewrite scope_eqb_refl in Ex. discriminate.
  Qed.

  Lemma vwalk_top fuel :
    (match root with ScFrag sp => In sp U | ScOp _ _ => True end) ->
    List.length U + 1 < fuel ->
    exists errs vis, viap_walk fuel s st vds root E0 [] = Some (errs, vis) /\
      (forall x, In x vis <-> vreach x) /\
      (forall e, In e errs <-> In e E0 \/ exists x, vreach x /\ In e (vue x)).
  Proof.
    intros Hroot Hfuel.
    destruct (vwalk_correct fuel root E0 [] vreach_root Hroot) as (errs & vis & E & I1 & I2 & I3).
    { unfold fuel_ok, measure. pose proof (filter_len_all (fun sp => negb (existsb (scope_eqb (ScFrag sp)) [])) U).
      destruct root; lia. }
    destruct (I3 []) as (D1 & D2 & D3 & D4 & D5).
    { split; [|split; [|split; [|split]]]; intros; try contradiction; auto. }
    exists errs, vis. split; [exact E|].
    assert (Hvis : forall x, In x vis <-> vreach x).
    { intro x. split; [apply D2|]. induction 1 as [|x sp Hx IH Hsp]; [exact I2|].
      apply (D1 x IH); [intros []|exact Hsp]. }
    split; [exact Hvis|]. intro e. split.
    - intro He. destruct (D3 e He) as [H0|(x & Hx & Hex)]; [left; exact H0|].
      right. exists x. split; [apply Hvis, Hx|exact Hex].
    - intros [H0|(x & Hx & Hex)]; [apply D5, H0|]. apply (D4 x e); [apply Hvis, Hx|exact Hex].
  Qed.
End VWalk.

(* ================================================================== (3) location types of a well-formed schema *)
Lemma find_first_In {A} (p : A -> bool) (l : list A) x : find_first p l = Some x -> In x l.
Proof.
  induction l as [|y r IH]; cbn [find_first]; [discriminate|].
  destruct (p y); intro H; [inversion H; left; reflexivity|right; exact (IH H)].
Qed.

Lemma type_by_name_In s n t : type_by_name s n = Some t -> In t (type_defs s).
Proof.
  unfold type_defs. induction s as [|x r IH]; cbn [type_by_name flat_map]; [discriminate|].
  destruct x as [sd|t'|dd|tn]; cbn [app]; try exact IH.
  destruct (name_eqb (td_name t') n); intro H; [inversion H; left; reflexivity|right; exact (IH H)].
Qed.

Lemma directive_by_name_In s n dd : directive_by_name s n = Some dd -> In dd (directive_defs s).
Proof.
  unfold directive_defs. induction s as [|x r IH]; cbn [directive_by_name flat_map]; [discriminate|].
  destruct x as [sd|t'|dd'|tn]; cbn [app]; try exact IH.
  destruct (name_eqb (dd_name dd') n); intro H; [inversion H; left; reflexivity|right; exact (IH H)].
Qed.

Section Good.
  Variable s : sdocument.
  Hypothesis Hwf : wf_schema s = true.

  Definition good (t : ty) : Prop := is_input_named s (inner_type t) = true /\ ty_proper t = true.
  Definition goodo (t : option ty) : Prop := forall t', t = Some t' -> good t'.
  Definition good_decls (decls : option (list input_value_def)) : Prop :=
    forall ds iv, decls = Some ds -> In iv ds -> good (iv_type iv).

  Lemma good_ivs ivs : wf_input_values s ivs = true -> ivs_proper ivs = true ->
    forall iv, In iv ivs -> good (iv_type iv).
  Proof.
    unfold wf_input_values, ivs_proper. intros H1 H2 iv Hin.
    apply andb_prop in H1. destruct H1 as [_ H1]. rewrite forallb_forall in H1, H2.
    split; [apply H1, Hin|apply H2, Hin].
  Qed.

  Lemma type_def_wf t : In t (type_defs s) -> wf_type s t = true /\ type_proper t = true.
  Proof.
    intro Hin. pose proof (wf_types s Hwf) as H1. pose proof (wf_types_proper s Hwf) as H2.
    unfold schema_types_proper in H2. apply andb_prop in H2. destruct H2 as [H2 _].
    rewrite forallb_forall in H1, H2. split; [apply H1, Hin|apply H2, Hin].
  Qed.

  Lemma good_input_fields t k iv : In t (type_defs s) -> input_field_by_name t k = Some iv -> good (iv_type iv).
  Proof.
    intros Hin Hf. destruct (type_def_wf t Hin) as [H1 H2].
    destruct t as [n i fs|n i fs|n ts|n|n vs|n fs]; cbn [input_field_by_name] in Hf; try discriminate.
    cbn [wf_type type_proper] in H1, H2. apply (good_ivs fs H1 H2). eapply find_first_In. exact Hf.
  Qed.

  Lemma good_fields fs : wf_fields s fs = true -> fields_proper fs = true ->
    forall fd, In fd fs -> forall iv, In iv (fd_args fd) -> good (iv_type iv).
  Proof.
    unfold wf_fields, fields_proper. intros H1 H2 fd Hfd. apply andb_prop in H1. destruct H1 as [_ H1].
    rewrite forallb_forall in H1, H2. specialize (H1 fd Hfd). specialize (H2 fd Hfd).
    apply andb_prop in H1. destruct H1 as [_ H1]. apply andb_prop in H2. destruct H2 as [_ H2].
    apply good_ivs; assumption.
  Qed.

  Lemma good_field_args t n fd : In t (type_defs s) -> field_by_name t n = Some fd ->
    forall iv, In iv (fd_args fd) -> good (iv_type iv).
  Proof.
    intros Hin Hf. destruct (type_def_wf t Hin) as [H1 H2].
    destruct t as [m i fs|m i fs|m ts|m|m vs|m fs]; cbn [field_by_name] in Hf; try discriminate;
      cbn [wf_type type_proper] in H1, H2.
    - apply andb_prop in H1. destruct H1 as [H1 _]. apply (good_fields fs H1 H2). eapply find_first_In. exact Hf.
    - apply andb_prop in H1. destruct H1 as [H1 _]. apply andb_prop in H1. destruct H1 as [H1 _].
      apply (good_fields fs H1 H2). eapply find_first_In. exact Hf.
  Qed.

  Lemma good_directive_args dd : In dd (directive_defs s) -> forall iv, In iv (dd_args dd) -> good (iv_type iv).
  Proof.
    intro Hin. pose proof (wf_directive_args s Hwf) as H1. pose proof (wf_types_proper s Hwf) as H2.
    unfold schema_types_proper in H2. apply andb_prop in H2. destruct H2 as [_ H2].
    rewrite forallb_forall in H1, H2. apply good_ivs; [apply H1, Hin|apply H2, Hin].
  Qed.

  Lemma good_item t : goodo t -> goodo (item_type t).
  Proof.
    intros H t' Ht. destruct t as [[n|i|[n|i|i]]|]; cbn [item_type] in Ht; try discriminate; inversion Ht; subst.
    - exact (H _ eq_refl).
    - exact (H _ eq_refl).
  Qed.

  Lemma value_usages_good v : forall t b, goodo t ->
    forall u, In u (value_usages s v t b) -> good (snd (fst u)).
  Proof.
    induction v as [n|z|b0|str|b0| |n|l IH|l IH] using value_ind'; intros t b Ht u Hu;
      cbn [value_usages] in Hu; try (destruct Hu; fail).
    - destruct t as [t'|]; [|destruct Hu]. destruct Hu as [<-|[]]. cbn [fst snd]. exact (Ht _ eq_refl).
    - apply in_flat_map in Hu. destruct Hu as (x & Hx & Hu). rewrite Forall_forall in IH.
      exact (IH x Hx _ _ (good_item t Ht) u Hu).
    - apply in_flat_map in Hu. destruct Hu as (kv & Hkv & Hu). rewrite Forall_forall in IH.
      refine (IH kv Hkv _ _ _ u Hu). intros t' Ht'.
      destruct (lookup_named s t) as [td|] eqn:El; cbn [opt_bind opt_map] in Ht'; [|discriminate].
      destruct (input_field_by_name td (fst kv)) as [iv|] eqn:Ef; cbn [opt_map] in Ht'; [|discriminate].
      inversion Ht'. subst t'. apply (good_input_fields td (fst kv) iv); [|exact Ef].
      unfold lookup_named in El. destruct t as [t0|]; cbn [opt_bind] in El; [|discriminate].
      eapply type_by_name_In. exact El.
  Qed.

  Lemma args_usages_good decls args : good_decls decls ->
    forall u, In u (args_usages s decls args) -> good (snd (fst u)).
  Proof.
    intros Hd u Hu. unfold args_usages in Hu. apply in_flat_map in Hu. destruct Hu as (a & _ & Hu).
    refine (value_usages_good (snd a) _ _ _ u Hu). intros t' Ht'.
    destruct decls as [ds|]; cbn [opt_bind opt_map] in Ht'; [|discriminate].
    destruct (find_first (fun x => name_eqb (iv_name x) (fst a)) ds) as [iv|] eqn:Ef; cbn [opt_map] in Ht'; [|discriminate].
    inversion Ht'. subst t'. apply (Hd ds iv eq_refl). eapply find_first_In. exact Ef.
  Qed.

  Definition env_ok (e : env) : Prop :=
    (forall t, a_type e = Some t -> In t (type_defs s)) /\ (forall t, a_parent e = Some t -> In t (type_defs s)).

  Lemma env_ok_definition x : Forall (fun ea : aev => env_ok (snd ea)) (annot_definition s x env0).
  Proof.
    apply (inv_definition s env_ok).
    - intros e t [H1 H2]. split; [|exact H2]. cbn [at_type a_type]. intros td Htd.
      unfold lookup_named in Htd. destruct t as [t0|]; cbn [opt_bind] in Htd; [|discriminate].
      eapply type_by_name_In. exact Htd.
    - intros e [H1 H2]. split; cbn [in_selection_set a_type a_parent]; exact H1.
    - intros e f H. exact H.
    - intros e t H. exact H.
    - split; cbn [env0 a_type a_parent]; discriminate.
  Qed.

  Lemma definition_usages_good x u : In u (definition_usages s x) -> good (snd (fst u)).
  Proof.
    unfold definition_usages. intro Hu. apply in_flat_map in Hu. destruct Hu as (ea & Hea & Hu).
    pose proof (env_ok_definition x) as Hok. rewrite Forall_forall in Hok. specialize (Hok ea Hea).
    destruct ea as [ev e]. cbn [fst snd] in *. destruct ev as [nd|nd]; [|destruct Hu].
    destruct nd; try (destruct Hu; fail).
    - (* directive *)
      refine (args_usages_good _ _ _ u Hu). intros ds iv Hds Hiv. unfold directive_decls in Hds.
      destruct (directive_by_name s (d_name d)) as [dd|] eqn:Ed; cbn [opt_map] in Hds; [|discriminate].
      inversion Hds. subst ds. eapply good_directive_args; [eapply directive_by_name_In; exact Ed|exact Hiv].
    - (* field *)
      refine (args_usages_good _ _ _ u Hu). intros ds iv Hds Hiv. unfold field_decls in Hds. cbn [fst snd] in Hds.
      destruct (a_parent e) as [pt|] eqn:Ep; cbn [opt_bind opt_map] in Hds; [|discriminate].
      destruct (field_by_name pt (sel_name f)) as [fd|] eqn:Ef; cbn [opt_map] in Hds; [|discriminate].
      inversion Hds. subst ds. eapply good_field_args; [apply (proj2 Hok), Ep|exact Ef|exact Hiv].
  Qed.
End Good.

(* ================================================================== (4) the equivalence *)
Lemma nonnil_exists {A} (l : list A) : l <> [] <-> exists x, In x l.
Proof.
  destruct l as [|x r]; split.
  - congruence.
  - intros (x & []).
  - intros _. exists x. left. reflexivity.
  - discriminate.
Qed.

(* the verdict on one usage, model side and specification side *)
Definition bad_m (s : sdocument) (vds : list vardef) (u : usage) : bool :=
  match find_first (fun vd => name_eqb (v_name vd) (fst (fst u))) vds with
  | Some vd => negb (is_subtype s (effective_var_type vd) (effective_location_type (snd (fst u)) (snd u)))
  | None => false
  end.
Definition bad_s (vds : list vardef) (u : usage) : bool :=
  match find_first (fun vd => name_eqb (v_name vd) (fst (fst u))) vds with
  | Some vd => negb (is_variable_usage_allowed (v_type vd) (v_default vd) (snd (fst u)) (snd u))
  | None => false
  end.

Lemma usage_errors_exists s vds us :
  (exists e, In e (usage_errors s vds us)) <-> exists u, In u us /\ bad_m s vds u = true.
Proof.
  unfold usage_errors. split.
  - intros (e & He). apply in_flat_map in He. destruct He as (u & Hu & He). exists u. split; [exact Hu|].
    unfold bad_m. destruct u as [[vn vt] hd]. cbn [fst snd].
    destruct (find_first (fun vd => name_eqb (v_name vd) vn) vds) as [vd|]; [|destruct He].
    destruct (is_subtype s (effective_var_type vd) (effective_location_type vt hd)); [destruct He|reflexivity].
  - intros (u & Hu & Hb). unfold bad_m in Hb. destruct u as [[vn vt] hd]. cbn [fst snd] in Hb.
    destruct (find_first (fun vd => name_eqb (v_name vd) vn) vds) as [vd|] eqn:Ef; [|discriminate].
    exists (err R_VariablesInAllowedPosition [v_pos vd]). apply in_flat_map. exists (vn, vt, hd). split; [exact Hu|].
    cbn beta iota. rewrite Ef.
    destruct (is_subtype s (effective_var_type vd) (effective_location_type vt hd)); [discriminate|left; reflexivity].
Qed.

Lemma bad_agree s vds u : wf_schema s = true -> good s (snd (fst u)) -> bad_m s vds u = bad_s vds u.
Proof.
  intros Hwf [H1 H2]. unfold bad_m, bad_s.
  destruct (find_first (fun vd => name_eqb (v_name vd) (fst (fst u))) vds) as [vd|]; [|reflexivity].
  f_equal.
  rewrite C07_proofs.is_subtype_types_compatible by (rewrite C07_proofs.inner_effective_location_type; exact H1).
  apply C07_proofs.effective_compatible.
  rewrite (C07_proofs.ty_proper_not_double _ H2). apply andb_false_r.
Qed.

Section Finish.
  Variables (s : sdocument) (d : document) (st : viap_state).
  Hypothesis HU : forall sc sp, In sp (vsuccs st sc) -> In sp (all_spreads d).

  Definition fstep (res : rule_result) (entry : scope * list vardef) : rule_result :=
    match viap_walk (vars_fuel d) s st (snd entry) (fst entry) (r_errors res) [] with
    | Some (errs, _) => mkRes errs (r_oof res)
    | None => mkRes (r_errors res) true
    end.

  Lemma viap_finish_fold : viap_finish s d st = fold_left fstep (vp_defs st) (mkRes [] false).
  Proof. reflexivity. Qed.

  Lemma finish_spec entries :
    (forall entry, In entry entries -> exists i n, fst entry = ScOp i n) ->
    forall res0 e,
      In e (r_errors (fold_left fstep entries res0)) <->
      In e (r_errors res0) \/
      exists entry, In entry entries /\ exists x, vreach st (fst entry) x /\ In e (vue s st (snd entry) x).
  Proof.
    induction entries as [|a r IH]; intros Hroot res0 e; cbn [fold_left].
    - split; [intro H; left; exact H|]. intros [H|(entry & [] & _)]. exact H.
    - destruct (Hroot a (or_introl eq_refl)) as (i & n & Hn).
      destruct (vwalk_top s st (snd a) (all_spreads d) (r_errors res0) HU (fst a) (vars_fuel d))
        as (errs & vis & E & _ & Herrs).
      { rewrite Hn. exact I. }
      { rewrite all_spreads_length. unfold vars_fuel. lia. }
      rewrite IH by (intros entry He; apply Hroot; right; exact He).
      unfold fstep at 1. rewrite E. cbn [r_errors]. rewrite Herrs. split.
      + intros [[H|(x & Hx & He)]|(entry & Hent & H)].
        * left. exact H.
        * right. exists a. split; [left; reflexivity|]. exists x. split; assumption.
        * right. exists entry. split; [right; exact Hent|exact H].
      + intros [H|(entry & [<-|Hent] & H)].
        * left. left. exact H.
        * left. right. exact H.
        * right. exists entry. split; assumption.
  Qed.
End Finish.

Lemma in_defs_spec entry ops :
  In entry (defs_spec ops) <->
  exists i o, In (i, o) ops /\ op_variable_definitions o <> [] /\
            entry = (ScOp i (op_node_name o), op_variable_definitions o).
Proof.
  unfold defs_spec. rewrite in_flat_map. split.
  - intros ([i o] & Ho & He). exists i, o. split; [exact Ho|]. cbn [fst snd] in He.
    destruct (op_variable_definitions o) as [|v l]; [destruct He|]. destruct He as [<-|[]].
    split; [discriminate|reflexivity].
  - intros (i & o & Ho & Hne & ->). exists (i, o). split; [exact Ho|]. cbn [fst snd].
    destruct (op_variable_definitions o) as [|v l]; [congruence|]. left. reflexivity.
Qed.

Lemma usages_spec_frag_gen s d n :
  usages_spec s d (ScFrag n)
  = flat_map (fun f => if name_eqb (fr_name f) n then definition_usages s (DFrag f) else []) (fragments_of d).
Proof.
  unfold usages_spec, fragments_of. generalize 0 as k.
  induction d as [|x r IH]; intro k; cbn [idefs flat_map]; [reflexivity|].
  destruct x as [o|f]; cbn [idefs flat_map app]; unfold def_scope at 1; cbn [snd fst scope_eqb app].
  - apply IH.
  - rewrite name_eqb_sym. f_equal. apply IH.
Qed.

Section Connect2.
  Variables (s : sdocument) (d : document) (st : viap_state) (stv : vars_state).
  Hypothesis Hvinv : VInv s d st.
  Hypothesis Htinv : TInv d stv.
  Hypothesis Hsim : SimR stv st.

  Lemma vsuccs_succs sc x : In x (vsuccs st sc) <-> In x (succs stv sc).
  Proof. symmetry. exact (proj2 (proj2 Hsim) sc x). Qed.

  Lemma vreach_reach root x : vreach st root x <-> reach stv root x.
  Proof.
    split; induction 1 as [|y sp Hy IH Hsp].
    - apply reach_root.
    - eapply reach_step; [exact IH|]. apply vsuccs_succs, Hsp.
    - apply vreach_root.
    - eapply vreach_step; [exact IH|]. apply vsuccs_succs, Hsp.
  Qed.

  Lemma HU_all : forall sc sp, In sp (vsuccs st sc) -> In sp (all_spreads d).
  Proof. intros sc sp H. apply (succs_in_all d stv Htinv sc sp). apply vsuccs_succs, H. Qed.

  Lemma usages_spec_op i o u : In (i, DOp o) (idefs 0 d) ->
    (In u (usages_spec s d (ScOp i (op_node_name o))) <-> In u (definition_usages s (DOp o))).
  Proof.
    intro Ho. unfold usages_spec. rewrite in_flat_map. split.
    - intros (y & Hy & Hu). destruct (scope_eqb (ScOp i (op_node_name o)) (def_scope y)) eqn:E; [|destruct Hu].
      apply scope_eqb_eq in E. destruct y as [j [o'|f]]; unfold def_scope in E; cbn [fst snd] in E, Hu; [|discriminate].
      inversion E. subst j. rewrite (idefs_index_inj d 0 i o o' Ho Hy). exact Hu.
    - intro Hu. exists (i, DOp o). split; [exact Ho|].
      unfold def_scope. cbn [fst snd]. rewrite scope_eqb_refl. exact Hu.
  Qed.

  Lemma usages_spec_frag n :
    usages_spec s d (ScFrag n)
    = flat_map (fun f => if name_eqb (fr_name f) n then definition_usages s (DFrag f) else []) (fragments_of d).
  Proof. apply usages_spec_frag_gen. Qed.

  Lemma op_usages_iff i o u : In (i, DOp o) (idefs 0 d) ->
    (In u (op_usages s d o) <->
     exists x, reach stv (ScOp i (op_node_name o)) x /\ In u (usages_spec s d x)).
  Proof.
    intro Ho. unfold op_usages, op_reachable_fragments. rewrite in_app_iff, in_flat_map. split.
    - intros [H|(n & Hn & Hu)].
      + exists (ScOp i (op_node_name o)). split; [apply reach_root|apply (usages_spec_op i o u Ho); assumption].
      + exists (ScFrag n). split; [|rewrite usages_spec_frag; exact Hu].
        apply (reach_iff d stv i o Htinv Ho). right. exists n. split; [reflexivity|].
        exact (proj1 (reachN_dedup d _ n) (proj1 (closure_iff d _ n) Hn)).
    - intros (x & Hx & Hu). apply (reach_iff d stv i o Htinv Ho) in Hx. destruct Hx as [->|(n & -> & Hn)].
      + left. apply (usages_spec_op i o u Ho); assumption.
      + right. exists n. split; [exact (proj2 (closure_iff d _ n) (proj2 (reachN_dedup d _ n) Hn))|].
        rewrite usages_spec_frag in Hu. exact Hu.
  Qed.

  (* every usage of an operation sits in some definition of the document *)
  Lemma op_usages_in_definition o u : In u (op_usages s d o) -> exists x, In u (definition_usages s x).
  Proof.
    unfold op_usages. rewrite in_app_iff, in_flat_map. intros [H|(n & _ & Hu)]; [exists (DOp o); exact H|].
    apply in_flat_map in Hu. destruct Hu as (f & _ & Hu).
    destruct (name_eqb (fr_name f) n); [exists (DFrag f); exact Hu|destruct Hu].
  Qed.
End Connect2.

Lemma defaults_const_spec d : defaults_const d = true ->
  forall o, In (DOp o) d -> Forall vd_const (op_variable_definitions o).
Proof.
  unfold defaults_const. intros H o Ho. rewrite forallb_forall in H.
  specialize (H o (proj2 (in_operations_of d o) Ho)). rewrite forallb_forall in H.
  apply Forall_forall. intros v Hv. specialize (H v Hv). unfold vd_const.
  destruct (v_default v) as [dv|]; [|exact I]. destruct (var_leaves dv); [reflexivity|discriminate].
Qed.

(* the statement of the property with the additional hypothesis that default values are constants;
   [doc_types_proper d], [distinct_fragments d] and [negb (violated R_VariablesAreInputTypes s d)]
   are not used *)
(* the core: a well-formed schema and constant default values are all the proof uses (no side
   condition on the names of operations or fragments) *)
Theorem variables_in_allowed_position_core : forall s d,
  wf_schema s = true -> defaults_const d = true ->
  (run_alone R_VariablesInAllowedPosition s d <> [] <-> violated R_VariablesInAllowedPosition s d = true).
Proof.
  intros s d Hwf Hconst.
  pose proof (wf_query_entry_ok s Hwf) as Hq.
  set (st := vfold s (annot s d) viap_init).
  set (stv := cfold (lin_document d) vars_init).
  assert (Erun : run_alone R_VariablesInAllowedPosition s d = r_errors (viap_finish s d st)).
  { unfold run_alone. cbn [run_rule]. rewrite visit_fold, (collect_annot s d _ Hq). reflexivity. }
  pose proof (VInv_document s d (defaults_const_spec d Hconst)) as Hvinv. fold st in Hvinv.
  pose proof (TInv_document d) as Htinv. fold stv in Htinv.
  pose proof (sim_document s d Hq) as Hsim. fold st stv in Hsim.
  (* the model side *)
  assert (Hmodel : run_alone R_VariablesInAllowedPosition s d <> [] <->
                   exists o, In o (operations_of d) /\
                             exists u, In u (op_usages s d o) /\ bad_m s (op_variable_definitions o) u = true).
  { rewrite Erun, nonnil_exists, viap_finish_fold.
    assert (Hroots : forall entry, In entry (vp_defs st) -> exists i n, fst entry = ScOp i n).
    { intros entry He. rewrite (vi_defs _ _ _ Hvinv) in He. apply in_defs_spec in He.
      destruct He as (i & o & _ & _ & ->). eexists. eexists. reflexivity. }
    split.
    - intros (e & He).
      apply (finish_spec s d st (HU_all d st stv Htinv Hsim) (vp_defs st) Hroots) in He.
      cbn [r_errors] in He. destruct He as [[]|(entry & Hent & x & Hx & He)].
      rewrite (vi_defs _ _ _ Hvinv) in Hent. apply in_defs_spec in Hent. destruct Hent as (i & o & Ho & _ & ->).
      cbn [fst snd] in *. exists o. split; [apply operations_iops; exists i; exact Ho|].
      apply in_iops in Ho.
      assert (Hex : exists e0, In e0 (usage_errors s (op_variable_definitions o) (tg x (vp_usages st))))
        by (exists e; exact He).
      apply usage_errors_exists in Hex. destruct Hex as (u & Hu & Hb). exists u. split; [|exact Hb].
      apply (op_usages_iff s d stv Htinv i o u Ho). exists x.
      split; [apply (vreach_reach st stv Hsim), Hx|]. rewrite <- (vi_us _ _ _ Hvinv). exact Hu.
    - intros (o & Ho & u & Hu & Hb).
      apply operations_iops in Ho. destruct Ho as (i & Ho). pose proof (proj1 (in_iops 0 d i o) Ho) as Ho'.
      apply (op_usages_iff s d stv Htinv i o u Ho') in Hu. destruct Hu as (x & Hx & Hu).
      assert (Hne : op_variable_definitions o <> []).
      { intro E. unfold bad_m in Hb. rewrite E in Hb. cbn in Hb. discriminate. }
      assert (Hex : exists e0, In e0 (usage_errors s (op_variable_definitions o) (tg x (vp_usages st)))).
      { apply usage_errors_exists. exists u. split; [rewrite (vi_us _ _ _ Hvinv); exact Hu|exact Hb]. }
      destruct Hex as (e & He). exists e.
      apply (finish_spec s d st (HU_all d st stv Htinv Hsim) (vp_defs st) Hroots). right.
      exists (ScOp i (op_node_name o), op_variable_definitions o). split.
      + rewrite (vi_defs _ _ _ Hvinv). apply in_defs_spec. exists i, o. repeat split; assumption.
      + exists x. split; [apply (vreach_reach st stv Hsim), Hx|exact He]. }
  (* the specification side *)
  assert (Hspec : violated R_VariablesInAllowedPosition s d = true <->
                  exists o, In o (operations_of d) /\
                            exists u, In u (op_usages s d o) /\ bad_s (op_variable_definitions o) u = true).
  { cbn [violated]. unfold v_variables_in_allowed_position. rewrite existsb_exists. split.
    - intros (o & Ho & H). apply existsb_exists in H. destruct H as (u & Hu & Hb). exists o. split; [exact Ho|].
      exists u. split; [exact Hu|]. destruct u as [[x lt] ld]. exact Hb.
    - intros (o & Ho & u & Hu & Hb). exists o. split; [exact Ho|]. apply existsb_exists. exists u.
      split; [exact Hu|]. destruct u as [[x lt] ld]. exact Hb. }
  rewrite Hmodel, Hspec.
  assert (Hagree : forall o u, In u (op_usages s d o) ->
                               bad_m s (op_variable_definitions o) u = bad_s (op_variable_definitions o) u).
  { intros o u Hu. apply bad_agree; [exact Hwf|]. destruct (op_usages_in_definition s d o u Hu) as (x & Hx).
    exact (definition_usages_good s Hwf x u Hx). }
  split; intros (o & Ho & u & Hu & Hb); exists o; (split; [exact Ho|]); exists u; (split; [exact Hu|]).
  - rewrite <- (Hagree o u Hu). exact Hb.
  - rewrite (Hagree o u Hu). exact Hb.
Qed.

Theorem variables_in_allowed_position_iff : forall s d,
  wf_schema s = true -> doc_types_proper d = true ->
  distinct_fragments d = true ->
  negb (violated R_VariablesAreInputTypes s d) = true ->
  defaults_const d = true ->
  (run_alone R_VariablesInAllowedPosition s d <> [] <-> violated R_VariablesInAllowedPosition s d = true).
Proof. intros s d Hwf _ _ _ Hconst. apply variables_in_allowed_position_core; assumption. Qed.

Print Assumptions variables_in_allowed_position_iff.

(* the statement without the additional hypothesis is false: a variable inside a default value *)
Definition cex_schema : sdocument :=
  [SDType (TDObject "Query" [] [mkFD "f" [mkIV "x" (TNamed "Int") None] (TNamed "Int")]);
   SDType (TDScalar "Int"); SDType (TDScalar "String")].
Definition cex_doc : document :=
  [DOp (mkOperation OpQuery (0%N, 0%N) (Some "Q")
          [mkVardef (0%N, 0%N) "a" (TNamed "Int") (Some (VVar "b"));
           mkVardef (0%N, 0%N) "b" (TNamed "String") None]
          [] ((0%N, 0%N), (0%N, 0%N))
          [SField (0%N, 0%N) None "f" [] [] ((0%N, 0%N), (0%N, 0%N)) []])].

Lemma position_needs_const_defaults :
  wf_schema cex_schema = true /\ doc_types_proper cex_doc = true /\
  distinct_fragments cex_doc = true /\ distinct_operations cex_doc = true /\
  negb (violated R_VariablesAreInputTypes cex_schema cex_doc) = true /\
  run_alone R_VariablesInAllowedPosition cex_schema cex_doc <> [] /\
  violated R_VariablesInAllowedPosition cex_schema cex_doc = false.
Proof. vm_compute. repeat split; discriminate. Qed.

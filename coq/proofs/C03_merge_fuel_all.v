(* valid only once theories/Merge.v has merge_fuel d >= merge_fuel' d *)
From GT Require Import Visitor Validate Merge.
From GTS Require Import WfSchema.
From GTP Require Import C03_merge_fuel_proofs.

Lemma merge_fuel_ge d : merge_fuel' d <= merge_fuel d.
Proof.
  unfold merge_fuel', merge_fuel, merge_fuel_extra. cbv zeta.
  rewrite Nat.tail_add_spec, !Nat.tail_mul_spec. lia.
Qed.

Theorem merge_no_fuel_exhaustion : forall s d c,
  r_oof (snd (run_rule R_OverlappingFieldsCanBeMerged s d c)) = false.
Proof. intros s d c. apply merge_no_fuel_exhaustion_gen, merge_fuel_ge. Qed.

Theorem validate_terminates_all : forall s d plan, wf_schema s = true -> exists es, validate s d plan = Ok es.
Proof. intros s d plan H. apply validate_terminates_all_gen; [exact H|apply merge_fuel_ge]. Qed.

Print Assumptions merge_no_fuel_exhaustion.
Print Assumptions validate_terminates_all.

(* C14_wrap_proofs.v — C14 (e): wrapping contiguous, non-empty parts of selection lists in untyped
   inline fragments without directives ( a b c  ~>  a ... { b c } ), anywhere in the document, any
   number of times, nested ([wrap_doc d d']).
     - every rule's specification predicate is invariant, FieldsOnCorrectType included: its clause
       "a __typename at a subscription root" looks through inline fragments without a type
       condition ([root_typename_fields])                                        (violated_wrap);
     - hence accept / reject ([spec_valid]) is invariant                        (spec_valid_wrap);
     - and so is the verdict of each rule of the model                          (run_alone_wrap).
   Wrapping an EMPTY part is excluded: wrap_empty_cex. *)
From GT Require Import Visitor Validate Merge.
From Coq Require Import Permutation.
From GTS Require Import Annot WfSchema SpecCollect SpecRules SpecValues SpecMerge SpecValid.
From GTP Require Import VisitorFacts TraceFacts C14_proofs C14_more_proofs.

(* ------------------------------------------------------------------ a list embedded in another: related
   elements in the same order, with extra elements in between *)
Inductive emb {A B} (R : A -> B -> Prop) (E : B -> Prop) : list A -> list B -> Prop :=
| emb_nil : emb R E [] []
| emb_cons x y l l' : R x y -> emb R E l l' -> emb R E (x :: l) (y :: l')
| emb_extra y l l' : E y -> emb R E l l' -> emb R E l (y :: l').

Section Emb.
  Context {A B : Type}.
  Variables (R : A -> B -> Prop) (E : B -> Prop).

  Lemma emb_app a a' b b' : emb R E a a' -> emb R E b b' -> emb R E (a ++ b) (a' ++ b').
  Proof. induction 1; intro Hb; cbn [app]; [exact Hb|constructor; auto|apply emb_extra; auto]. Qed.
  Lemma emb_extras a : Forall E a -> emb R E [] a.
  Proof. induction 1; [constructor|apply emb_extra; assumption]. Qed.
  Lemma emb_one x y : R x y -> emb R E [x] [y].
  Proof. intro H. constructor; [exact H|constructor]. Qed.
  Lemma emb_F2 l l' : Forall2 R l l' -> emb R E l l'.
  Proof. induction 1; constructor; assumption. Qed.
  Lemma emb_wrapped a b l l' : Forall E a -> Forall E b -> emb R E l l' -> emb R E l (a ++ l' ++ b).
  Proof.
    intros Ha Hb H. change l with ([] ++ l). apply emb_app; [apply emb_extras, Ha|].
    rewrite <- (app_nil_r l). apply emb_app; [exact H|apply emb_extras, Hb].
  Qed.

  Lemma emb_in_l l l' x : emb R E l l' -> In x l -> exists y, In y l' /\ R x y.
  Proof.
    induction 1 as [|x0 y0 l l' Hxy _ IH|y0 l l' _ _ IH]; intro Hx.
    - destruct Hx.
    - destruct Hx as [->|Hx]; [exists y0; split; [left; reflexivity|exact Hxy]|].
      destruct (IH Hx) as (y & Hy & Hr). exists y. split; [right; exact Hy|exact Hr].
    - destruct (IH Hx) as (y & Hy & Hr). exists y. split; [right; exact Hy|exact Hr].
  Qed.
  Lemma emb_in_r l l' y : emb R E l l' -> In y l' -> (exists x, In x l /\ R x y) \/ E y.
  Proof.
    induction 1 as [|x0 y0 l l' Hxy _ IH|y0 l l' He _ IH]; intro Hy.
    - destruct Hy.
    - destruct Hy as [->|Hy]; [left; exists x0; split; [left; reflexivity|exact Hxy]|].
      destruct (IH Hy) as [(x & Hx & Hr)|H]; [left; exists x; split; [right; exact Hx|exact Hr]|right; exact H].
    - destruct Hy as [->|Hy]; [right; exact He|apply IH, Hy].
  Qed.

  Lemma emb_no_extras_nil l l' : emb R E l l' -> (forall y, ~ E y) ->
    match l with [] => false | _ :: _ => true end = match l' with [] => false | _ :: _ => true end.
  Proof. intros [|x y r r' _ _|y r r' Hy _] Hno; [reflexivity|reflexivity|destruct (Hno y Hy)]. Qed.

  Lemma emb_existsb (p : A -> bool) (p' : B -> bool) l l' :
    emb R E l l' -> (forall x y, R x y -> p x = p' y) -> (forall y, E y -> p' y = false) ->
    existsb p l = existsb p' l'.
  Proof.
    intros H Hr He. induction H as [|x y l l' Hxy _ IH|y l l' Hy _ IH]; cbn [existsb]; [reflexivity| |].
    - rewrite (Hr x y Hxy), IH. reflexivity.
    - rewrite (He y Hy), IH. reflexivity.
  Qed.
  Lemma emb_flat_map_eq {C} (g : A -> list C) (g' : B -> list C) l l' :
    emb R E l l' -> (forall x y, R x y -> g x = g' y) -> (forall y, E y -> g' y = []) ->
    flat_map g l = flat_map g' l'.
  Proof.
    intros H Hr He. induction H as [|x y l l' Hxy _ IH|y l l' Hy _ IH]; cbn [flat_map]; [reflexivity| |].
    - rewrite (Hr x y Hxy), IH. reflexivity.
    - rewrite (He y Hy), IH. reflexivity.
  Qed.
  Lemma emb_flat_map_F2 {C D} (R2 : C -> D -> Prop) (g : A -> list C) (g' : B -> list D) l l' :
    emb R E l l' -> (forall x y, R x y -> Forall2 R2 (g x) (g' y)) -> (forall y, E y -> g' y = []) ->
    Forall2 R2 (flat_map g l) (flat_map g' l').
  Proof.
    intros H Hr He. induction H as [|x y l l' Hxy _ IH|y l l' Hy _ IH]; cbn [flat_map]; [constructor| |].
    - apply Forall2_app; [apply Hr, Hxy|exact IH].
    - rewrite (He y Hy). exact IH.
  Qed.
End Emb.

Lemma emb_flat_map_emb {A B C D} (R : A -> B -> Prop) (E : B -> Prop) (R2 : C -> D -> Prop) (E2 : D -> Prop)
      (g : A -> list C) (g' : B -> list D) l l' :
  emb R E l l' -> (forall x y, R x y -> emb R2 E2 (g x) (g' y)) -> (forall y, E y -> Forall E2 (g' y)) ->
  emb R2 E2 (flat_map g l) (flat_map g' l').
Proof.
  intros H Hr He. induction H as [|x y l l' Hxy _ IH|y l l' Hy _ IH]; cbn [flat_map]; [constructor| |].
  - apply emb_app; [apply Hr, Hxy|exact IH].
  - change (flat_map g l) with ([] ++ flat_map g l). apply emb_app; [apply emb_extras, He, Hy|exact IH].
Qed.


Lemma emb_impl {A B} (R R' : A -> B -> Prop) (E E' : B -> Prop) l l' :
  (forall x y, R x y -> R' x y) -> (forall y, E y -> E' y) -> emb R E l l' -> emb R' E' l l'.
Proof. intros Hr He. induction 1; [constructor|constructor; auto|apply emb_extra; auto]. Qed.

Lemma F2_flat_map_emb {A B C D} (R : A -> B -> Prop) (R2 : C -> D -> Prop) (E2 : D -> Prop)
      (g : A -> list C) (g' : B -> list D) l l' :
  Forall2 (fun x y => emb R2 E2 (g x) (g' y)) l l' -> emb R2 E2 (flat_map g l) (flat_map g' l').
Proof. induction 1; cbn [flat_map]; [constructor|apply emb_app; assumption]. Qed.

(* ------------------------------------------------------------------ the rewrite *)
(* [wlist R l l']: l' is l with the elements rewritten by R and contiguous non-empty parts wrapped in
   an untyped inline fragment without directives (the wrapped part rewritten likewise) *)
Inductive wlist (R : selection -> selection -> Prop) : list selection -> list selection -> Prop :=
| WLnil : wlist R [] []
| WLcons x y l l' : R x y -> wlist R l l' -> wlist R (x :: l) (y :: l')
| WLwrap p sp mid mid' l l' : mid <> [] -> wlist R mid mid' -> wlist R l l' ->
    wlist R (mid ++ l) (SInline p None [] sp mid' :: l').
Inductive wsel : selection -> selection -> Prop :=
| WField p al n args dirs sp sels sels' : wlist wsel sels sels' ->
    wsel (SField p al n args dirs sp sels) (SField p al n args dirs sp sels')
| WSpread p n dirs : wsel (SSpread p n dirs) (SSpread p n dirs)
| WInline p tc dirs sp sels sels' : wlist wsel sels sels' ->
    wsel (SInline p tc dirs sp sels) (SInline p tc dirs sp sels').
Definition wsels : list selection -> list selection -> Prop := wlist wsel.
Inductive wop : operation -> operation -> Prop :=
| WOp k p n vars dirs sp sels sels' : wsels sels sels' ->
    wop (mkOperation k p n vars dirs sp sels) (mkOperation k p n vars dirs sp sels').
Inductive wfrag : fragment_def -> fragment_def -> Prop :=
| WFrag p n tc dirs sp sels sels' : wsels sels sels' ->
    wfrag (mkFragment p n tc dirs sp sels) (mkFragment p n tc dirs sp sels').
Inductive wdef : definition -> definition -> Prop :=
| WDOp o o' : wop o o' -> wdef (DOp o) (DOp o')
| WDFrag f f' : wfrag f f' -> wdef (DFrag f) (DFrag f').
Definition wrap_doc : document -> document -> Prop := Forall2 wdef.

Definition is_wrapper (y : selection) : Prop := exists p sp m, y = SInline p None [] sp m.

Lemma wlist_nil_iff R l l' : wlist R l l' -> (l = [] <-> l' = []).
Proof.
  intros [|x y r r' _ _|p sp mid mid' r r' Hne _ _]; split; try reflexivity; try discriminate.
  intro H. apply app_eq_nil in H. destruct H as [H _]. contradiction.
Qed.

(* structural lemmas over a rewritten list: g' of a wrapper is g' of its content between extras *)
Lemma wlist_emb {A B} (R : A -> B -> Prop) (E : B -> Prop) (g : selection -> list A) (g' : selection -> list B) :
  (forall p sp m, exists a b, g' (SInline p None [] sp m) = a ++ flat_map g' m ++ b /\ Forall E a /\ Forall E b) ->
  forall l l', wsels l l' -> Forall (fun x => forall y, wsel x y -> emb R E (g x) (g' y)) l ->
  emb R E (flat_map g l) (flat_map g' l').
Proof.
  intros Hw l l' H. induction H as [|x y l l' Hxy _ IH|p sp mid mid' l l' _ _ IHm _ IHl]; intro HF.
  - constructor.
  - inversion HF as [|? ? Hx Hl]; subst. cbn [flat_map]. apply emb_app; [apply Hx, Hxy|apply IH, Hl].
  - apply Forall_app in HF. destruct HF as [Hm Hl]. rewrite flat_map_app. cbn [flat_map].
    destruct (Hw p sp mid') as (a & b & -> & Ha & Hb). apply emb_app; [|apply IHl, Hl].
    apply emb_wrapped; [exact Ha|exact Hb|apply IHm, Hm].
Qed.

Lemma wsel_fields x y : wsel x y ->
  node_pos x = node_pos y /\ sel_name x = sel_name y /\ sel_args x = sel_args y /\ sel_dirs x = sel_dirs y /\
  field_response_key x = field_response_key y /\ is_field_sel x = is_field_sel y /\ wsels (sel_sels x) (sel_sels y).
Proof. intros []; cbn; repeat split; try assumption; constructor. Qed.

Lemma wop_fields o o' : wop o o' ->
  o_kind o = o_kind o' /\ o_pos o = o_pos o' /\ o_name o = o_name o' /\ o_vars o = o_vars o' /\
  o_dirs o = o_dirs o' /\ o_span o = o_span o' /\ wsels (o_sels o) (o_sels o').
Proof. intros []. cbn. repeat split. assumption. Qed.
Lemma wfrag_fields f f' : wfrag f f' ->
  fr_pos f = fr_pos f' /\ fr_name f = fr_name f' /\ fr_tc f = fr_tc f' /\ fr_dirs f = fr_dirs f' /\
  fr_span f = fr_span f' /\ wsels (fr_sels f) (fr_sels f').
Proof. intros []. cbn. repeat split. assumption. Qed.
Lemma wop_vardefs o o' : wop o o' -> op_variable_definitions o = op_variable_definitions o'.
Proof. intros []. reflexivity. Qed.
Lemma wop_directives o o' : wop o o' -> op_directives o = op_directives o'.
Proof. intros []. reflexivity. Qed.
Lemma wop_node_name o o' : wop o o' -> op_node_name o = op_node_name o'.
Proof. intros []. reflexivity. Qed.

Lemma wdoc_frags d d' : wrap_doc d d' -> Forall2 wfrag (fragments_of d) (fragments_of d').
Proof.
  induction 1 as [|x y d d' Hxy _ IH]; cbn [fragments_of flat_map]; [constructor|].
  destruct Hxy as [o o' H|f f' H]; cbn [app]; [exact IH|constructor; assumption].
Qed.
Lemma wdoc_ops d d' : wrap_doc d d' -> Forall2 wop (operations_of d) (operations_of d').
Proof.
  induction 1 as [|x y d d' Hxy _ IH]; cbn [operations_of flat_map]; [constructor|].
  destruct Hxy as [o o' H|f f' H]; cbn [app]; [constructor; assumption|exact IH].
Qed.
Lemma wdef_sels x y : wdef x y -> wsels (def_sels x) (def_sels y).
Proof. intros [o o' H|f f' H]; cbn [def_sels]; [apply (wop_fields _ _ H)|apply (wfrag_fields _ _ H)]. Qed.

(* ---- every selection below ---- *)
Lemma sel_all_emb x : forall y, wsel x y -> emb wsel is_wrapper (sel_all x) (sel_all y).
Proof.
  induction x as [p al n args dirs sp sels IH|p n dirs|p tc dirs sp sels IH] using selection_ind';
    intros y Hxy; inversion Hxy as [? ? ? ? ? ? ? sels' Hs|?|? ? ? ? ? sels' Hs]; subst; cbn [sel_all].
  - constructor; [exact Hxy|]. apply (wlist_emb wsel is_wrapper sel_all sel_all); [|exact Hs|exact IH].
    intros q sq m. exists [SInline q None [] sq m], []. cbn [sel_all app]. rewrite app_nil_r.
    repeat split; repeat constructor. exists q, sq, m. reflexivity.
  - constructor; [exact Hxy|constructor].
  - constructor; [exact Hxy|]. apply (wlist_emb wsel is_wrapper sel_all sel_all); [|exact Hs|exact IH].
    intros q sq m. exists [SInline q None [] sq m], []. cbn [sel_all app]. rewrite app_nil_r.
    repeat split; repeat constructor. exists q, sq, m. reflexivity.
Qed.
Lemma sels_all_emb l l' : wsels l l' -> emb wsel is_wrapper (sels_all l) (sels_all l').
Proof.
  intro H. unfold sels_all. apply (wlist_emb wsel is_wrapper sel_all sel_all); [|exact H|].
  - intros q sq m. exists [SInline q None [] sq m], []. cbn [sel_all app]. rewrite app_nil_r.
    repeat split; repeat constructor. exists q, sq, m. reflexivity.
  - apply Forall_forall. intros x _. apply sel_all_emb.
Qed.
Lemma doc_selections_emb d d' : wrap_doc d d' -> emb wsel is_wrapper (doc_selections d) (doc_selections d').
Proof.
  intro H. unfold doc_selections. apply (F2_flat_map_emb wdef). eapply Forall2_impl_in; [|exact H].
  intros x y _ Hxy. apply sels_all_emb, wdef_sels, Hxy.
Qed.

(* ---- the __typename fields at the root of a selection set: the same fields (up to the rewrite below
   them), no extras: a wrapper contributes exactly the root __typename fields of its content ---- *)
Notation remb := (emb wsel (fun _ : selection => False)).
Lemma root_typename_wrapper p sp m : exists a b : list selection,
  root_typename_fields_of (SInline p None [] sp m) = a ++ flat_map root_typename_fields_of m ++ b /\
  Forall (fun _ => False) a /\ Forall (fun _ => False) b.
Proof. exists [], []. cbn [root_typename_fields_of app]. rewrite app_nil_r. repeat split; constructor. Qed.

Lemma root_typename_fields_of_emb x : forall y, wsel x y ->
  remb (root_typename_fields_of x) (root_typename_fields_of y).
Proof.
  induction x as [p al n args dirs sp sels IH|p n dirs|p tc dirs sp sels IH] using selection_ind';
    intros y Hxy; inversion Hxy as [? ? ? ? ? ? ? sels' Hs|?|? ? ? ? ? sels' Hs]; subst;
    cbn [root_typename_fields_of].
  - destruct (name_eqb n "__typename"); [apply emb_one, Hxy|constructor].
  - constructor.
  - destruct tc as [tc|]; [constructor|].
    apply (wlist_emb wsel (fun _ => False) root_typename_fields_of root_typename_fields_of);
      [apply root_typename_wrapper|exact Hs|exact IH].
Qed.
Lemma root_typename_fields_emb l l' : wsels l l' -> remb (root_typename_fields l) (root_typename_fields l').
Proof.
  intro H. unfold root_typename_fields.
  apply (wlist_emb wsel (fun _ => False) root_typename_fields_of root_typename_fields_of);
    [apply root_typename_wrapper|exact H|].
  apply Forall_forall. intros x _. apply root_typename_fields_of_emb.
Qed.
Lemma root_typename_fields_wrap l l' : wsels l l' ->
  Forall2 wsel (root_typename_fields l) (root_typename_fields l').
Proof.
  intro H. apply root_typename_fields_emb in H.
  induction H as [|x y r r' Hxy _ IH|y r r' [] _ _]; constructor; assumption.
Qed.

(* ------------------------------------------------------------------ the annotation *)
Definition same_node (n : node) : bool :=
  match n with
  | NVarDef _ | NDirective _ | NArgument _ | NNull | NScalar _ | NEnum _ | NVariable _ | NList _ | NObject _
  | NObjectField _ => true
  | _ => false
  end.
Inductive wnode : node -> node -> Prop :=
| WNDocument d d' : wrap_doc d d' -> wnode (NDocument d) (NDocument d')
| WNOperation o o' : wop o o' -> wnode (NOperation o) (NOperation o')
| WNFragmentDef f f' : wfrag f f' -> wnode (NFragmentDef f) (NFragmentDef f')
| WNSelectionSet sp l l' : wsels l l' -> wnode (NSelectionSet sp l) (NSelectionSet sp l')
| WNField x x' : wsel x x' -> wnode (NField x) (NField x')
| WNSpread x x' : wsel x x' -> wnode (NSpread x) (NSpread x')
| WNInline x x' : wsel x x' -> wnode (NInline x) (NInline x')
| WNSame n : same_node n = true -> wnode n n.
Inductive wevent : event -> event -> Prop :=
| WEnter n n' : wnode n n' -> wevent (Enter n) (Enter n')
| WLeave n n' : wnode n n' -> wevent (Leave n) (Leave n').
Definition waev (x y : aev) : Prop := wevent (fst x) (fst y) /\ snd x = snd y.
(* the events of a wrapper: the inline fragment sits where parent type = current type *)
Definition extra_aev (y : aev) : Prop :=
  match fst y with
  | Enter (NInline _) | Leave (NInline _) => a_parent (snd y) = a_type (snd y)
  | Enter (NSelectionSet _ _) | Leave (NSelectionSet _ _) => True
  | _ => False
  end.
Notation aemb := (emb waev extra_aev).

Definition same_aev (x : aev) : Prop := match fst x with Enter n | Leave n => same_node n = true end.
Lemma same_aemb l : Forall same_aev l -> aemb l l.
Proof.
  induction 1 as [|x l Hx _ IH]; constructor; [|exact IH].
  destruct x as [[n|n] e]; (split; [|reflexivity]); constructor; apply WNSame, Hx.
Qed.
Lemma plain_same l : Forall plain_aev l -> Forall same_aev l.
Proof.
  apply Forall_impl. intros [[n|n] e]; unfold plain_aev, same_aev; cbn [fst]; destruct n; try discriminate; reflexivity.
Qed.
Lemma annot_directives_same s dirs e : Forall same_aev (annot_directives s dirs e).
Proof.
  unfold annot_directives. apply Forall_forall. intros x Hx. apply in_flat_map in Hx. destruct Hx as (dr & _ & Hx).
  destruct Hx as [<-|Hx]; [reflexivity|]. apply in_app_iff in Hx. destruct Hx as [Hx|[<-|[]]]; [|reflexivity].
  pose proof (plain_same _ (annot_arguments_plain s (opt_map dd_args (directive_by_name s (d_name dr))) (d_args dr) e)) as H.
  rewrite Forall_forall in H. apply H, Hx.
Qed.
Lemma annot_vardefs_same s vars e : Forall same_aev (annot_vardefs s vars e).
Proof.
  unfold annot_vardefs. apply Forall_forall. intros x Hx. apply in_flat_map in Hx. destruct Hx as (v & _ & Hx).
  cbv zeta in Hx. destruct Hx as [<-|Hx]; [reflexivity|]. apply in_app_iff in Hx. destruct Hx as [Hx|[<-|[]]]; [|reflexivity].
  destruct (v_default v) as [dv|]; [|destruct Hx].
  pose proof (plain_same _ (annot_value_plain s dv (expecting s e (Some (v_type v))))) as H.
  rewrite Forall_forall in H. apply H, Hx.
Qed.

Lemma in_selection_set_fix e : a_parent e = a_type e -> in_selection_set e = e.
Proof. destruct e. cbn. intros ->. reflexivity. Qed.
Lemma in_selection_set_sel e : a_parent (in_selection_set e) = a_type (in_selection_set e).
Proof. reflexivity. Qed.

Lemma waev_mk n n' e : wnode n n' -> waev (Enter n, e) (Enter n', e) /\ waev (Leave n, e) (Leave n', e).
Proof. intro H. split; (split; [constructor; exact H|reflexivity]). Qed.

(* the items of a selection set, annotated in the environment e of the set (parent type = current type) *)
Lemma annot_items_emb s e l l' : a_parent e = a_type e -> wsels l l' ->
  Forall (fun x => forall y e, wsel x y -> a_parent e = a_type e -> aemb (annot_selection s x e) (annot_selection s y e)) l ->
  aemb (flat_map (fun x => annot_selection s x e) l) (flat_map (fun x => annot_selection s x e) l').
Proof.
  intros He H HF.
  apply (wlist_emb waev extra_aev (fun x => annot_selection s x e) (fun x => annot_selection s x e)); [|exact H|].
  - intros p sp m. cbn [annot_selection]. cbv zeta. cbn [annot_directives flat_map app]. rewrite (in_selection_set_fix e He).
    exists [(Enter (NInline (SInline p None [] sp m)), e); (Enter (NSelectionSet sp m), e)],
           [(Leave (NSelectionSet sp m), e); (Leave (NInline (SInline p None [] sp m)), e)].
    split; [reflexivity|]. split; repeat constructor; exact He.
  - eapply Forall_impl; [|exact HF]. intros x Hx y Hxy. apply Hx; assumption.
Qed.

Lemma annot_selection_emb s x : forall y e, wsel x y -> a_parent e = a_type e ->
  aemb (annot_selection s x e) (annot_selection s y e).
Proof.
  induction x as [p al n args dirs sp sels IH|p n dirs|p tc dirs sp sels IH] using selection_ind';
    intros y e Hxy He; inversion Hxy as [? ? ? ? ? ? ? sels' Hs|?|? ? ? ? ? sels' Hs]; subst;
    cbn [annot_selection]; cbv zeta.
  - set (fdef := opt_bind (a_parent e) (fun t => field_by_name t n)).
    set (e1 := at_type s e (opt_map fd_type fdef)).
    destruct (waev_mk _ _ e1 (WNField _ _ Hxy)) as [H1 H2].
    destruct (waev_mk _ _ (in_selection_set (in_field e1 fdef)) (WNSelectionSet sp _ _ Hs)) as [H3 H4].
    constructor; [exact H1|]. apply emb_app; [apply same_aemb, plain_same, annot_arguments_plain|].
    apply emb_app; [apply same_aemb, annot_directives_same|]. constructor; [exact H3|].
    apply emb_app; [|constructor; [exact H4|apply emb_one, H2]].
    apply annot_items_emb; [reflexivity|exact Hs|exact IH].
  - destruct (waev_mk _ _ e (WNSpread _ _ Hxy)) as [H1 H2].
    constructor; [exact H1|]. apply emb_app; [apply same_aemb, annot_directives_same|apply emb_one, H2].
  - set (e1 := match tc with Some cond => at_type s e (Some (TNamed cond)) | None => e end).
    destruct (waev_mk _ _ e1 (WNInline _ _ Hxy)) as [H1 H2].
    destruct (waev_mk _ _ (in_selection_set e1) (WNSelectionSet sp _ _ Hs)) as [H3 H4].
    constructor; [exact H1|]. apply emb_app; [apply same_aemb, annot_directives_same|]. constructor; [exact H3|].
    apply emb_app; [|constructor; [exact H4|apply emb_one, H2]].
    apply annot_items_emb; [reflexivity|exact Hs|exact IH].
Qed.

Lemma annot_selection_set_emb s sp sels sels' e : wsels sels sels' ->
  aemb (annot_selection_set s sp sels e) (annot_selection_set s sp sels' e).
Proof.
  intro H. unfold annot_selection_set. cbv zeta.
  destruct (waev_mk _ _ (in_selection_set e) (WNSelectionSet sp _ _ H)) as [H3 H4].
  constructor; [exact H3|]. apply emb_app; [|apply emb_one, H4].
  apply annot_items_emb; [reflexivity|exact H|]. apply Forall_forall. intros x _. apply annot_selection_emb.
Qed.

Lemma annot_definition_emb s x y e : wdef x y -> aemb (annot_definition s x e) (annot_definition s y e).
Proof.
  intros [o o' H|f f' H]; cbn [annot_definition]; cbv zeta.
  - destruct (wop_fields _ _ H) as (Hk & _ & _ & _ & _ & Hsp & Hs).
    rewrite <- Hk, <- Hsp, <- (wop_vardefs _ _ H), <- (wop_directives _ _ H).
    set (e1 := at_type s e (opt_map (fun t => TNamed (td_name t)) (root s (o_kind o)))).
    destruct (waev_mk _ _ e1 (WNOperation _ _ H)) as [H1 H2].
    constructor; [exact H1|]. apply emb_app; [apply same_aemb, annot_directives_same|].
    apply emb_app; [apply same_aemb, annot_vardefs_same|].
    apply emb_app; [apply annot_selection_set_emb, Hs|apply emb_one, H2].
  - destruct (wfrag_fields _ _ H) as (_ & _ & Htc & Hdi & Hsp & Hs). rewrite <- Htc, <- Hsp, <- Hdi.
    set (e1 := at_type s e (Some (TNamed (fr_tc f)))).
    destruct (waev_mk _ _ e1 (WNFragmentDef _ _ H)) as [H1 H2].
    constructor; [exact H1|]. apply emb_app; [apply same_aemb, annot_directives_same|].
    apply emb_app; [apply annot_selection_set_emb, Hs|apply emb_one, H2].
Qed.

Lemma annot_emb s d d' : wrap_doc d d' -> aemb (annot s d) (annot s d').
Proof.
  intro H. unfold annot. destruct (waev_mk _ _ env0 (WNDocument _ _ H)) as [H1 H2].
  constructor; [exact H1|]. apply emb_app; [|apply emb_one, H2].
  apply (F2_flat_map_emb wdef). eapply Forall2_impl_in; [|exact H]. intros x y _ Hxy. apply annot_definition_emb, Hxy.
Qed.

(* ------------------------------------------------------------------ the lists the predicates range over *)
Lemma flat_sels_eq {C} (g : selection -> list C) l l' : wsels l l' ->
  (forall x y, wsel x y -> g x = g y) -> (forall y, is_wrapper y -> g y = []) ->
  flat_map g (sels_all l) = flat_map g (sels_all l').
Proof. intros H Hr He. apply (emb_flat_map_eq wsel is_wrapper); [apply sels_all_emb, H|exact Hr|exact He]. Qed.

Lemma spreads_in_wrap l l' : wsels l l' -> spreads_in l = spreads_in l'.
Proof.
  intro H. unfold spreads_in. apply flat_sels_eq; [exact H| |].
  - intros x y []; reflexivity.
  - intros y (p & sp & m & ->). reflexivity.
Qed.
Lemma sels_vars_wrap l l' : wsels l l' -> sels_vars l = sels_vars l'.
Proof.
  intro H. unfold sels_vars. apply flat_sels_eq; [exact H| |].
  - intros x y Hxy. destruct (wsel_fields _ _ Hxy) as (_ & _ & -> & -> & _). reflexivity.
  - intros y (p & sp & m & ->). reflexivity.
Qed.

Lemma spread_impossible_same s t : spread_impossible s t t = false.
Proof.
  destruct t as [t|]; [|reflexivity]. cbn [spread_impossible]. unfold types_can_overlap.
  rewrite name_eqb_refl. cbn [orb negb]. rewrite andb_false_r. reflexivity.
Qed.

Definition wsite_extra (y : dir_loc * list directive) : Prop := snd y = [].
Lemma sel_directive_sites_emb x : forall y, wsel x y -> emb eq wsite_extra (sel_directive_sites x) (sel_directive_sites y).
Proof.
  assert (Hw : forall p sp m, exists a b, sel_directive_sites (SInline p None [] sp m) = a ++ flat_map sel_directive_sites m ++ b /\
                                          Forall wsite_extra a /\ Forall wsite_extra b).
  { intros p sp m. exists [(LInlineFragment, [])], []. cbn [sel_directive_sites app]. rewrite app_nil_r.
    repeat split; repeat constructor. }
  induction x as [p al n args dirs sp sels IH|p n dirs|p tc dirs sp sels IH] using selection_ind';
    intros y Hxy; inversion Hxy as [? ? ? ? ? ? ? sels' Hs|?|? ? ? ? ? sels' Hs]; subst; cbn [sel_directive_sites].
  - constructor; [reflexivity|]. apply (wlist_emb eq wsite_extra sel_directive_sites sel_directive_sites Hw _ _ Hs IH).
  - constructor; [reflexivity|constructor].
  - constructor; [reflexivity|]. apply (wlist_emb eq wsite_extra sel_directive_sites sel_directive_sites Hw _ _ Hs IH).
Qed.
Lemma sels_directive_sites_emb l l' : wsels l l' ->
  emb eq wsite_extra (flat_map sel_directive_sites l) (flat_map sel_directive_sites l').
Proof.
  intro H. apply (wlist_emb eq wsite_extra sel_directive_sites sel_directive_sites); [|exact H|].
  - intros p sp m. exists [(LInlineFragment, [])], []. cbn [sel_directive_sites app]. rewrite app_nil_r.
    repeat split; repeat constructor.
  - apply Forall_forall. intros x _. apply sel_directive_sites_emb.
Qed.

Lemma doc_spreads_wrap0 d d' : wrap_doc d d' -> spreads_in (flat_map def_sels d) = spreads_in (flat_map def_sels d').
Proof.
  induction 1 as [|x y l l' Hxy _ IH]; [reflexivity|]. cbn [flat_map].
  rewrite !spreads_in_app, IH, (spreads_in_wrap _ _ (wdef_sels _ _ Hxy)). reflexivity.
Qed.

Section WRules.
  Variables (s : sdocument) (d d' : document).
  Hypothesis Hd : wrap_doc d d'.

  Lemma frag_names_wrap : frag_names d = frag_names d'.
  Proof.
    unfold frag_names. apply (Forall2_map_eq wfrag); [apply wdoc_frags, Hd|].
    intros f f' H. apply (wfrag_fields _ _ H).
  Qed.
  Lemma frags_length_wrap : List.length (fragments_of d) = List.length (fragments_of d').
  Proof. eapply F2_length, wdoc_frags, Hd. Qed.
  Lemma find_fragment_wrap n : orel wfrag (find_fragment d n) (find_fragment d' n).
  Proof.
    unfold find_fragment. pose proof (Forall2_rev' _ _ _ (wdoc_frags _ _ Hd)) as H.
    induction H as [|f f' l l' Hf _ IH]; cbn [find_first]; [constructor|].
    destruct (wfrag_fields _ _ Hf) as (_ & Hn & _). rewrite <- Hn.
    destruct (name_eqb (fr_name f) n); [constructor; exact Hf|exact IH].
  Qed.
  Lemma fragment_spreads_wrap n : fragment_spreads d n = fragment_spreads d' n.
  Proof.
    unfold fragment_spreads. apply (Forall2_flat_map_eq wfrag); [apply wdoc_frags, Hd|]. intros f f' Hf.
    destruct (wfrag_fields _ _ Hf) as (_ & Hn & _ & _ & _ & Hs). rewrite <- Hn, (spreads_in_wrap _ _ Hs). reflexivity.
  Qed.
  Lemma fragment_vars_wrap n : fragment_vars d n = fragment_vars d' n.
  Proof.
    unfold fragment_vars. apply (Forall2_flat_map_eq wfrag); [apply wdoc_frags, Hd|]. intros f f' Hf.
    destruct (wfrag_fields _ _ Hf) as (_ & Hn & _ & Hdi & _ & Hs). rewrite <- Hn, <- Hdi, (sels_vars_wrap _ _ Hs). reflexivity.
  Qed.
  Lemma spread_closure_wrap k : forall set, spread_closure k d set = spread_closure k d' set.
  Proof.
    induction k as [|k IH]; intro set; cbn [spread_closure]; [reflexivity|]. rewrite IH. do 3 f_equal.
    apply flat_map_all_ext, fragment_spreads_wrap.
  Qed.
  Lemma doc_spreads_wrap : spreads_in (flat_map def_sels d) = spreads_in (flat_map def_sels d').
  Proof. apply doc_spreads_wrap0, Hd. Qed.

  Lemma w_unique_operation_names : v_unique_operation_names d = v_unique_operation_names d'.
  Proof.
    unfold v_unique_operation_names, named_operation_names. do 2 f_equal.
    apply (Forall2_flat_map_eq wop); [apply wdoc_ops, Hd|]. intros o o' H. rewrite (wop_node_name _ _ H). reflexivity.
  Qed.
  Lemma w_lone_anonymous : v_lone_anonymous d = v_lone_anonymous d'.
  Proof.
    unfold v_lone_anonymous. rewrite (F2_length _ _ _ (wdoc_ops _ _ Hd)). f_equal.
    apply (F2_existsb wop). eapply Forall2_impl_in; [|apply wdoc_ops, Hd]. intros o o' _ H.
    rewrite (wop_node_name _ _ H). reflexivity.
  Qed.
  Lemma w_unique_fragment_names : v_unique_fragment_names d = v_unique_fragment_names d'.
  Proof. unfold v_unique_fragment_names. rewrite frag_names_wrap. reflexivity. Qed.
  Lemma w_known_fragment_names : v_known_fragment_names d = v_known_fragment_names d'.
  Proof. unfold v_known_fragment_names. rewrite frag_names_wrap, doc_spreads_wrap. reflexivity. Qed.
  Lemma ops_spreads_wrap :
    flat_map (fun o => spreads_in (o_sels o)) (operations_of d) = flat_map (fun o => spreads_in (o_sels o)) (operations_of d').
  Proof.
    apply (Forall2_flat_map_eq wop); [apply wdoc_ops, Hd|]. intros o o' H.
    apply spreads_in_wrap, (wop_fields _ _ H).
  Qed.
  Lemma w_no_unused_fragments : v_no_unused_fragments d = v_no_unused_fragments d'.
  Proof.
    unfold v_no_unused_fragments, reachable_from_operations.
    rewrite frag_names_wrap, frags_length_wrap, ops_spreads_wrap, spread_closure_wrap. reflexivity.
  Qed.
  Lemma w_no_fragment_cycles : v_no_fragment_cycles d = v_no_fragment_cycles d'.
  Proof.
    unfold v_no_fragment_cycles. rewrite frag_names_wrap, frags_length_wrap. apply existsb_eqset; [apply eqset_refl|].
    intros n _. rewrite fragment_spreads_wrap, spread_closure_wrap. reflexivity.
  Qed.

  Lemma type_conditions_wrap : type_conditions d = type_conditions d'.
  Proof.
    unfold type_conditions. f_equal.
    - apply (Forall2_map_eq wfrag); [apply wdoc_frags, Hd|]. intros f f' H. apply (wfrag_fields _ _ H).
    - apply (emb_flat_map_eq wsel is_wrapper); [apply doc_selections_emb, Hd| |].
      + intros x y []; reflexivity.
      + intros y (p & sp & m & ->). reflexivity.
  Qed.
  Lemma variable_types_wrap : variable_types d = variable_types d'.
  Proof.
    unfold variable_types. apply (Forall2_flat_map_eq wop); [apply wdoc_ops, Hd|]. intros o o' H.
    rewrite (wop_vardefs _ _ H). reflexivity.
  Qed.
  Lemma w_known_type_names : v_known_type_names s d = v_known_type_names s d'.
  Proof. unfold v_known_type_names. rewrite type_conditions_wrap, variable_types_wrap. reflexivity. Qed.
  Lemma w_fragments_on_composite : v_fragments_on_composite s d = v_fragments_on_composite s d'.
  Proof. unfold v_fragments_on_composite. rewrite type_conditions_wrap. reflexivity. Qed.
  Lemma w_variables_are_input_types : v_variables_are_input_types s d = v_variables_are_input_types s d'.
  Proof. unfold v_variables_are_input_types. rewrite variable_types_wrap. reflexivity. Qed.

  (* ---- variables ---- *)
  Lemma op_reachable_wrap o o' : wop o o' -> op_reachable_fragments d o = op_reachable_fragments d' o'.
  Proof.
    intro H. unfold op_reachable_fragments.
    rewrite frags_length_wrap, (spreads_in_wrap _ _ (proj2 (proj2 (proj2 (proj2 (proj2 (proj2 (wop_fields _ _ H)))))))).
    apply spread_closure_wrap.
  Qed.
  Lemma vars_used_wrap o o' : wop o o' -> vars_used_in_op d o = vars_used_in_op d' o'.
  Proof.
    intro H. unfold vars_used_in_op. rewrite (wop_directives _ _ H), (op_reachable_wrap _ _ H).
    rewrite (sels_vars_wrap _ _ (proj2 (proj2 (proj2 (proj2 (proj2 (proj2 (wop_fields _ _ H)))))))).
    do 2 f_equal. apply flat_map_all_ext, fragment_vars_wrap.
  Qed.
  Lemma w_unique_variable_names : v_unique_variable_names d = v_unique_variable_names d'.
  Proof.
    unfold v_unique_variable_names. apply (F2_existsb wop). eapply Forall2_impl_in; [|apply wdoc_ops, Hd].
    intros o o' _ H. unfold op_var_names. rewrite (wop_vardefs _ _ H). reflexivity.
  Qed.
  Lemma w_no_undefined_variables : v_no_undefined_variables d = v_no_undefined_variables d'.
  Proof.
    unfold v_no_undefined_variables. apply (F2_existsb wop). eapply Forall2_impl_in; [|apply wdoc_ops, Hd].
    intros o o' _ H. unfold op_var_names. rewrite (wop_vardefs _ _ H), (vars_used_wrap _ _ H). reflexivity.
  Qed.
  Lemma w_no_unused_variables : v_no_unused_variables d = v_no_unused_variables d'.
  Proof.
    unfold v_no_unused_variables. apply (F2_existsb wop). eapply Forall2_impl_in; [|apply wdoc_ops, Hd].
    intros o o' _ H. unfold op_var_names. rewrite (wop_vardefs _ _ H), (vars_used_wrap _ _ H). reflexivity.
  Qed.

  (* ---- directives ---- *)
  Lemma directive_sites_emb : emb eq wsite_extra (directive_sites d) (directive_sites d').
  Proof.
    unfold directive_sites. apply (F2_flat_map_emb wdef). eapply Forall2_impl_in; [|exact Hd].
    intros x y _ [o o' H|f f' H].
    - destruct (wop_fields _ _ H) as (Hk & _ & _ & _ & _ & _ & Hs). rewrite <- Hk, <- (wop_directives _ _ H).
      constructor; [reflexivity|]. apply sels_directive_sites_emb, Hs.
    - destruct (wfrag_fields _ _ H) as (_ & _ & _ & Hdi & _ & Hs). rewrite <- Hdi.
      constructor; [reflexivity|]. apply sels_directive_sites_emb, Hs.
  Qed.
  Lemma w_known_directives : v_known_directives s d = v_known_directives s d'.
  Proof.
    unfold v_known_directives. apply (emb_existsb eq wsite_extra); [apply directive_sites_emb| |].
    - intros x y ->. reflexivity.
    - intros [loc ds] Hy. unfold wsite_extra in Hy. cbn [snd] in *. subst ds. reflexivity.
  Qed.
  Lemma w_unique_directives_per_location : v_unique_directives_per_location s d = v_unique_directives_per_location s d'.
  Proof.
    unfold v_unique_directives_per_location. apply (emb_existsb eq wsite_extra); [apply directive_sites_emb| |].
    - intros x y ->. reflexivity.
    - intros [loc ds] Hy. unfold wsite_extra in Hy. cbn [snd] in *. subst ds. reflexivity.
  Qed.

  (* ---- the annotation ---- *)
  Definition wfe (x y : selection * env) : Prop := wsel (fst x) (fst y) /\ snd x = snd y.
  Lemma field_events_wrap : Forall2 wfe (field_events s d) (field_events s d').
  Proof.
    unfold field_events. apply (emb_flat_map_F2 waev extra_aev); [apply annot_emb, Hd| |].
    - intros [ev e] [ev' e'] [Hev He]. cbn [fst snd] in *. subst e'.
      destruct Hev as [n n' Hn|n n' Hn]; [|constructor]. destruct Hn; try constructor.
      + split; [assumption|reflexivity].
      + constructor.
      + destruct n; try discriminate; constructor.
    - intros [[n|n] e] Hy; [|reflexivity]. unfold extra_aev in Hy. cbn [fst snd] in *.
      destruct n; try contradiction; reflexivity.
  Qed.
  Lemma directive_events_wrap : directive_events s d = directive_events s d'.
  Proof.
    unfold directive_events. apply (emb_flat_map_eq waev extra_aev); [apply annot_emb, Hd| |].
    - intros [ev e] [ev' e'] [Hev He]. cbn [fst snd] in *. subst e'.
      destruct Hev as [n n' Hn|n n' Hn]; [|reflexivity]. destruct Hn; reflexivity.
    - intros [[n|n] e] Hy; [|reflexivity]. unfold extra_aev in Hy. cbn [fst snd] in *.
      destruct n; try contradiction; reflexivity.
  Qed.
  Lemma literal_positions_wrap : literal_positions s d = literal_positions s d'.
  Proof.
    unfold literal_positions. apply (emb_flat_map_eq waev extra_aev); [apply annot_emb, Hd| |].
    - intros [ev e] [ev' e'] [Hev He]. cbn [fst snd] in *. subst e'.
      destruct Hev as [n n' Hn|n n' Hn]; [|reflexivity]. destruct Hn; reflexivity.
    - intros [[n|n] e] Hy; [|reflexivity]. unfold extra_aev in Hy. cbn [fst snd] in *.
      destruct n; try contradiction; reflexivity.
  Qed.

  Lemma w_leaf_field_selections : v_leaf_field_selections s d = v_leaf_field_selections s d'.
  Proof.
    unfold v_leaf_field_selections. apply (F2_existsb wfe). eapply Forall2_impl_in; [|apply field_events_wrap].
    intros [f e] [f' e'] _ [Hf He]. cbn [fst snd] in *. subst e'.
    destruct (wsel_fields _ _ Hf) as (_ & Hn & _ & _ & _ & _ & Hs). rewrite Hn.
    assert (E : match sel_sels f with [] => true | _ => false end = match sel_sels f' with [] => true | _ => false end).
    { pose proof (wlist_nil_iff _ _ _ Hs) as [H1 H2]. destruct (sel_sels f), (sel_sels f'); try reflexivity.
      - discriminate (H1 eq_refl).
      - discriminate (H2 eq_refl). }
    rewrite E. reflexivity.
  Qed.

  (* FieldsOnCorrectType = [fields_undefined s d || subscription_typename d] (definitionally): the clause
     about the fields, and the clause "a __typename at a subscription root" *)
  Definition fields_undefined (s : sdocument) (d : document) : bool :=
    existsb (fun fe : selection * env =>
               let '(f, e) := fe in
               match a_parent e with
               | Some pt =>
                   let n := sel_name f in
                   negb (name_eqb n "__typename") &&
                   negb ((name_eqb n "__schema" || name_eqb n "__type") &&
                         match query_root_name s with Some q => name_eqb (td_name pt) q | None => false end) &&
                   is_none (field_by_name pt n)
               | None => false
               end) (field_events s d).
  Definition subscription_typename (d : document) : bool :=
    existsb (fun o => match o_kind o with
                      | OpSubscription =>
                          match root_typename_fields (o_sels o) with [] => false | _ :: _ => true end
                      | _ => false
                      end) (operations_of d).
  Lemma fields_on_correct_type_split s0 d0 :
    v_fields_on_correct_type s0 d0 = fields_undefined s0 d0 || subscription_typename d0.
  Proof. reflexivity. Qed.

  Lemma w_fields_undefined : fields_undefined s d = fields_undefined s d'.
  Proof.
    unfold fields_undefined. apply (F2_existsb wfe). eapply Forall2_impl_in; [|apply field_events_wrap].
    intros [f e] [f' e'] _ [Hf He]. cbn [fst snd] in *. subst e'.
    destruct (wsel_fields _ _ Hf) as (_ & Hn & _). rewrite Hn. reflexivity.
  Qed.
  Lemma subscription_typename_wrap : subscription_typename d = subscription_typename d'.
  Proof.
    unfold subscription_typename. apply (F2_existsb wop). eapply Forall2_impl_in; [|apply wdoc_ops, Hd].
    intros o o' _ H. destruct (wop_fields _ _ H) as (Hk & _ & _ & _ & _ & _ & Hs). rewrite <- Hk.
    destruct (o_kind o); try reflexivity.
    apply (emb_no_extras_nil wsel (fun _ => False)); [apply root_typename_fields_emb, Hs|intros _ []].
  Qed.
  Lemma w_fields_on_correct_type : v_fields_on_correct_type s d = v_fields_on_correct_type s d'.
  Proof. rewrite !fields_on_correct_type_split, w_fields_undefined, subscription_typename_wrap. reflexivity. Qed.

  Lemma w_possible_fragment_spreads : v_possible_fragment_spreads s d = v_possible_fragment_spreads s d'.
  Proof.
    unfold v_possible_fragment_spreads. apply (emb_existsb waev extra_aev); [apply annot_emb, Hd| |].
    - intros [ev e] [ev' e'] [Hev He]. cbn [fst snd] in *. subst e'.
      destruct Hev as [n n' Hn|n n' Hn]; [|reflexivity].
      destruct Hn as [| | | | |x x' Hx| |n Hn]; try reflexivity.
      + destruct Hx as [|p n dirs|]; try reflexivity.
        destruct (find_fragment_wrap n) as [f f' Hf|]; [|reflexivity].
        destruct (wfrag_fields _ _ Hf) as (_ & _ & Htc & _). rewrite Htc. reflexivity.
      + destruct n; try discriminate; reflexivity.
    - intros [[n|n] e] Hy; [|reflexivity]. unfold extra_aev in Hy. cbn [fst snd] in *.
      destruct n; try contradiction; try reflexivity. rewrite Hy. apply spread_impossible_same.
  Qed.

  (* ---- arguments ---- *)
  Lemma wfe_decls x y : wfe x y -> field_decls x = field_decls y.
  Proof. intros [Hf He]. unfold field_decls. destruct (wsel_fields _ _ Hf) as (_ & -> & _). rewrite He. reflexivity. Qed.
  Lemma wfe_args x y : wfe x y -> sel_args (fst x) = sel_args (fst y).
  Proof. intros [Hf _]. apply (wsel_fields _ _ Hf). Qed.

  Lemma w_known_argument_names : v_known_argument_names s d = v_known_argument_names s d'.
  Proof.
    unfold v_known_argument_names. rewrite directive_events_wrap. f_equal.
    apply (F2_existsb wfe). eapply Forall2_impl_in; [|apply field_events_wrap]. intros x y _ H.
    rewrite (wfe_decls _ _ H), (wfe_args _ _ H). reflexivity.
  Qed.
  Lemma w_unique_argument_names : v_unique_argument_names s d = v_unique_argument_names s d'.
  Proof.
    unfold v_unique_argument_names. rewrite directive_events_wrap. f_equal.
    apply (F2_existsb wfe). eapply Forall2_impl_in; [|apply field_events_wrap]. intros x y _ H.
    rewrite (wfe_args _ _ H). reflexivity.
  Qed.
  Lemma w_provided_required_arguments : v_provided_required_arguments s d = v_provided_required_arguments s d'.
  Proof.
    unfold v_provided_required_arguments. rewrite directive_events_wrap. f_equal.
    apply (F2_existsb wfe). eapply Forall2_impl_in; [|apply field_events_wrap]. intros x y _ H.
    rewrite (wfe_decls _ _ H), (wfe_args _ _ H). reflexivity.
  Qed.
  Lemma w_values_of_correct_type : v_values_of_correct_type s d = v_values_of_correct_type s d'.
  Proof. unfold v_values_of_correct_type. rewrite literal_positions_wrap. reflexivity. Qed.

  Lemma definition_usages_wrap x y : wdef x y -> definition_usages s x = definition_usages s y.
  Proof.
    intro H. unfold definition_usages. apply (emb_flat_map_eq waev extra_aev); [apply annot_definition_emb, H| |].
    - intros [ev e] [ev' e'] [Hev He]. cbn [fst snd] in *. subst e'.
      destruct Hev as [n n' Hn|n n' Hn]; [|reflexivity].
      destruct Hn as [| | | |a a' Hx| | |n Hn]; try reflexivity.
      assert (Hfe : wfe (a, e) (a', e)) by (split; [exact Hx|reflexivity]).
      destruct (wsel_fields _ _ Hx) as (_ & _ & Ha & _). rewrite (wfe_decls _ _ Hfe), Ha. reflexivity.
    - intros [[n|n] e] Hy; [|reflexivity]. unfold extra_aev in Hy. cbn [fst snd] in *.
      destruct n; try contradiction; reflexivity.
  Qed.
  Lemma op_usages_wrap o o' : wop o o' -> op_usages s d o = op_usages s d' o'.
  Proof.
    intro H. unfold op_usages. rewrite (op_reachable_wrap _ _ H). f_equal.
    - apply definition_usages_wrap. constructor. exact H.
    - apply flat_map_all_ext. intro n. apply (Forall2_flat_map_eq wfrag); [apply wdoc_frags, Hd|]. intros f f' Hf.
      destruct (wfrag_fields _ _ Hf) as (_ & Hn & _). rewrite <- Hn.
      destruct (name_eqb (fr_name f) n); [|reflexivity]. apply definition_usages_wrap. constructor. exact Hf.
  Qed.
  Lemma w_variables_in_allowed_position : v_variables_in_allowed_position s d = v_variables_in_allowed_position s d'.
  Proof.
    unfold v_variables_in_allowed_position. apply (F2_existsb wop). eapply Forall2_impl_in; [|apply wdoc_ops, Hd].
    intros o o' _ H. rewrite (op_usages_wrap _ _ H), (wop_vardefs _ _ H). reflexivity.
  Qed.
End WRules.

(* ------------------------------------------------------------------ CollectFields of the subscription rule *)
Lemma sm_app s d obj rec a b v :
  sm s d obj rec (a ++ b) v = let '(x, v1) := sm s d obj rec a v in
                              let '(y, v2) := sm s d obj rec b v1 in (x ++ y, v2).
Proof.
  revert v. induction a as [|z a IH]; intro v; cbn [app sm].
  - destruct (sm s d obj rec b v) as [y v2]. reflexivity.
  - destruct (so s d obj rec z v) as [i1 v1]. rewrite IH.
    destruct (sm s d obj rec a v1) as [i2 v2]. destruct (sm s d obj rec b v2) as [i3 v3].
    rewrite app_assoc. reflexivity.
Qed.

Definition resrel {X Y} (R : X -> Y -> Prop) (r : list X * list name) (r' : list Y * list name) : Prop :=
  Forall2 R (fst r) (fst r') /\ snd r = snd r'.

Section WCollectS.
  Variables (s : sdocument) (d d' : document) (obj : type_def).
  Hypothesis Hd : wrap_doc d d'.
  Variables rec rec' : list selection -> list name -> list selection * list name.
  Hypothesis Hrec : forall l l' v, wsels l l' -> resrel wsel (rec l v) (rec' l' v).

  Lemma sm_w l l' : wsels l l' ->
    Forall (fun x => forall y v, wsel x y -> resrel wsel (so s d obj rec x v) (so s d' obj rec' y v)) l ->
    forall v, resrel wsel (sm s d obj rec l v) (sm s d' obj rec' l' v).
  Proof.
    intro H. induction H as [|x y l l' Hxy _ IH|p sp mid mid' l l' _ _ IHm _ IHl]; intros HF v.
    - split; [constructor|reflexivity].
    - inversion HF as [|? ? Hx Hl]; subst. cbn [sm]. destruct (Hx y v Hxy) as [H1 H2].
      destruct (so s d obj rec x v) as [a v1], (so s d' obj rec' y v) as [a' v1']. cbn [fst snd] in *. subst v1'.
      destruct (IH Hl v1) as [H3 H4].
      destruct (sm s d obj rec l v1) as [b v2], (sm s d' obj rec' l' v1) as [b' v2']. cbn [fst snd] in *.
      split; [apply Forall2_app; assumption|exact H4].
    - apply Forall_app in HF. destruct HF as [Hm Hl]. rewrite sm_app. cbn [sm]. rewrite so_inline.
      destruct (IHm Hm v) as [H1 H2].
      destruct (sm s d obj rec mid v) as [a v1], (sm s d' obj rec' mid' v) as [a' v1']. cbn [fst snd] in *. subst v1'.
      destruct (IHl Hl v1) as [H3 H4].
      destruct (sm s d obj rec l v1) as [b v2], (sm s d' obj rec' l' v1) as [b' v2']. cbn [fst snd] in *.
      split; [apply Forall2_app; assumption|exact H4].
  Qed.
  Lemma so_w x : forall y v, wsel x y -> resrel wsel (so s d obj rec x v) (so s d' obj rec' y v).
  Proof.
    induction x as [p al n args dirs sp sels IH|p n dirs|p tc dirs sp sels IH] using selection_ind';
      intros y v Hxy; inversion Hxy as [? ? ? ? ? ? ? sels' Hs|?|? ? ? ? ? sels' Hs]; subst.
    - cbn [so]. split; [constructor; [exact Hxy|constructor]|reflexivity].
    - cbn [so]. destruct (mem_name n v); [split; [constructor|reflexivity]|].
      destruct (find_fragment_wrap d d' Hd n) as [f f' Hf|]; [|split; [constructor|reflexivity]].
      destruct (wfrag_fields _ _ Hf) as (_ & _ & Htc & _ & _ & Hfs). rewrite <- Htc.
      destruct (fragment_type_applies s obj (fr_tc f)); [|split; [constructor|reflexivity]].
      apply Hrec, Hfs.
    - rewrite !so_inline.
      destruct (match tc with None => true | Some c => fragment_type_applies s obj c end);
        [|split; [constructor|reflexivity]].
      apply sm_w; assumption.
  Qed.
End WCollectS.

Lemma spec_collect_list_w s d d' obj : wrap_doc d d' -> forall fuel l l' v, wsels l l' ->
  resrel wsel (spec_collect_list fuel s d obj l v) (spec_collect_list fuel s d' obj l' v).
Proof.
  intro Hd. induction fuel as [|fuel IH]; intros l l' v H; [split; [constructor|reflexivity]|].
  rewrite !spec_collect_list_S. apply (sm_w s d d' obj _ _ l l' H). apply Forall_forall. intros x _.
  apply so_w; assumption.
Qed.

Lemma sfs_bad_w l l' : Forall2 wsel l l' -> sfs_bad l = sfs_bad l'.
Proof.
  intro H. unfold sfs_bad. rewrite !group_introspection. unfold group_by_key. rewrite !map_length.
  rewrite (Forall2_map_eq wsel field_response_key field_response_key l l' H)
    by (intros x y Hxy; apply (wsel_fields _ _ Hxy)).
  f_equal. apply (F2_existsb wsel). eapply Forall2_impl_in; [|exact H]. intros x y _ []; reflexivity.
Qed.

Lemma w_single_field_subscriptions s d d' : wrap_doc d d' ->
  v_single_field_subscriptions s d = v_single_field_subscriptions s d'.
Proof.
  intro Hd. unfold v_single_field_subscriptions. apply (F2_existsb wop).
  eapply Forall2_impl_in; [|apply wdoc_ops, Hd]. intros o o' _ H.
  destruct (wop_fields _ _ H) as (Hk & _ & _ & _ & _ & _ & Hs). rewrite <- Hk.
  destruct (o_kind o); try reflexivity. destruct (root s OpSubscription) as [t|]; [|reflexivity].
  unfold spec_collect. rewrite <- (frags_length_wrap d d' Hd).
  apply sfs_bad_w, (spec_collect_list_w s d d' t Hd _ _ _ [] Hs).
Qed.

(* ------------------------------------------------------------------ field merging *)
Lemma cm_app s d rec p a b v :
  cm s d rec p (a ++ b) v = let '(x, v1) := cm s d rec p a v in
                            let '(y, v2) := cm s d rec p b v1 in (x ++ y, v2).
Proof.
  revert v. induction a as [|z a IH]; intro v; cbn [app].
  - change (cm s d rec p [] v) with (@nil cfield, v). cbv beta iota. destruct (cm s d rec p b v) as [y v2]. reflexivity.
  - rewrite !cm_cons. destruct (co s d rec p z v) as [i1 v1]. rewrite IH.
    destruct (cm s d rec p a v1) as [i2 v2]. destruct (cm s d rec p b v2) as [i3 v3].
    rewrite app_assoc. reflexivity.
Qed.

Definition wcf (c c' : cfield) : Prop := cf_parent c = cf_parent c' /\ wsel (cf_field c) (cf_field c').

Section WCollectC.
  Variables (s : sdocument) (d d' : document).
  Hypothesis Hd : wrap_doc d d'.
  Variables rec rec' : option type_def -> list selection -> list name -> list cfield * list name.
  Hypothesis Hrec : forall p l l' v, wsels l l' -> resrel wcf (rec p l v) (rec' p l' v).

  Lemma cm_w l l' : wsels l l' ->
    Forall (fun x => forall y p v, wsel x y -> resrel wcf (co s d rec p x v) (co s d' rec' p y v)) l ->
    forall p v, resrel wcf (cm s d rec p l v) (cm s d' rec' p l' v).
  Proof.
    intro H. induction H as [|x y l l' Hxy _ IH|q sp mid mid' l l' _ _ IHm _ IHl]; intros HF p v.
    - split; [constructor|reflexivity].
    - inversion HF as [|? ? Hx Hl]; subst. rewrite !cm_cons. destruct (Hx y p v Hxy) as [H1 H2].
      destruct (co s d rec p x v) as [a v1], (co s d' rec' p y v) as [a' v1']. cbn [fst snd] in *. subst v1'.
      destruct (IH Hl p v1) as [H3 H4].
      destruct (cm s d rec p l v1) as [b v2], (cm s d' rec' p l' v1) as [b' v2']. cbn [fst snd] in *.
      split; [apply Forall2_app; assumption|exact H4].
    - apply Forall_app in HF. destruct HF as [Hm Hl]. rewrite cm_app, cm_cons, co_inline. cbn [opt_bind].
      destruct (IHm Hm p v) as [H1 H2].
      destruct (cm s d rec p mid v) as [a v1], (cm s d' rec' p mid' v) as [a' v1']. cbn [fst snd] in *. subst v1'.
      destruct (IHl Hl p v1) as [H3 H4].
      destruct (cm s d rec p l v1) as [b v2], (cm s d' rec' p l' v1) as [b' v2']. cbn [fst snd] in *.
      split; [apply Forall2_app; assumption|exact H4].
  Qed.
  Lemma co_w x : forall y p v, wsel x y -> resrel wcf (co s d rec p x v) (co s d' rec' p y v).
  Proof.
    induction x as [q al n args dirs sp sels IH|q n dirs|q tc dirs sp sels IH] using selection_ind';
      intros y p v Hxy; inversion Hxy as [? ? ? ? ? ? ? sels' Hs|?|? ? ? ? ? sels' Hs]; subst.
    - cbn [co]. split; [constructor; [split; [reflexivity|exact Hxy]|constructor]|reflexivity].
    - cbn [co]. destruct (mem_name n v); [split; [constructor|reflexivity]|].
      destruct (find_fragment_wrap d d' Hd n) as [f f' Hf|]; [|split; [constructor|reflexivity]].
      destruct (wfrag_fields _ _ Hf) as (_ & _ & Htc & _ & _ & Hfs). rewrite <- Htc. apply Hrec, Hfs.
    - rewrite !co_inline. apply cm_w; assumption.
  Qed.
End WCollectC.

Lemma collect_set_w s d d' : wrap_doc d d' -> forall fuel p l l' v, wsels l l' ->
  resrel wcf (collect_set fuel s d p l v) (collect_set fuel s d' p l' v).
Proof.
  intro Hd. induction fuel as [|fuel IH]; intros p l l' v H; [split; [constructor|reflexivity]|].
  rewrite !collect_set_S. apply (cm_w s d d' _ _ l l' H). apply Forall_forall. intros x _.
  apply co_w; assumption.
Qed.

Section WMerge.
  Variables (s : sdocument) (d d' : document).
  Hypothesis Hd : wrap_doc d d'.

  Lemma collected_w p l l' : wsels l l' -> Forall2 wcf (collected s d p l) (collected s d' p l').
  Proof.
    intro H. unfold collected, set_fuel. rewrite <- (frags_length_wrap d d' Hd).
    apply (collect_set_w s d d' Hd _ p l l' [] H).
  Qed.
  Lemma wcf_def c c' : wcf c c' -> cf_def c = cf_def c'.
  Proof. intros [Hp Hf]. unfold cf_def. destruct (wsel_fields _ _ Hf) as (_ & -> & _). rewrite Hp. reflexivity. Qed.
  Lemma wcf_key c c' : wcf c c' -> cf_key c = cf_key c'.
  Proof. intros [_ Hf]. unfold cf_key. apply (wsel_fields _ _ Hf). Qed.
  Lemma sub_set_w c c' : wcf c c' -> Forall2 wcf (sub_set s d c) (sub_set s d' c').
  Proof.
    intro H. unfold sub_set. rewrite (wcf_def _ _ H). apply collected_w. apply (wsel_fields _ _ (proj2 H)).
  Qed.
  Lemma fcm_w : forall f m a a' b b', wcf a a' -> wcf b b' ->
    fields_can_merge f s d m a b = fields_can_merge f s d' m a' b'.
  Proof.
    induction f as [|f IH]; intros m a a' b b' Ha Hb; [reflexivity|]. rewrite !fcm_unfold.
    assert (Epe : parents_exclusive a b = parents_exclusive a' b').
    { unfold parents_exclusive. rewrite (proj1 Ha), (proj1 Hb). reflexivity. }
    rewrite Epe, (wcf_def _ _ Ha), (wcf_def _ _ Hb).
    destruct (wsel_fields _ _ (proj2 Ha)) as (_ & -> & -> & _).
    destruct (wsel_fields _ _ (proj2 Hb)) as (_ & -> & -> & _). f_equal.
    unfold cross_all. apply F2_forallb. eapply Forall2_impl_in; [|apply sub_set_w, Ha]. intros x x' _ Hx.
    apply F2_forallb. eapply Forall2_impl_in; [|apply sub_set_w, Hb]. intros y y' _ Hy.
    rewrite (wcf_key _ _ Hx), (wcf_key _ _ Hy), (IH _ _ _ _ _ Hx Hy). reflexivity.
  Qed.

  Lemma fold_count_w l l' : wsels l l' -> Forall (fun x => forall y, wsel x y -> count_fields x = count_fields y) l ->
    forall a, fold_left (fun n y => n + count_fields y) l a = fold_left (fun n y => n + count_fields y) l' a.
  Proof.
    intro H. induction H as [|x y l l' Hxy _ IH|q sp mid mid' l l' _ _ IHm _ IHl]; intros HF a.
    - reflexivity.
    - inversion HF as [|? ? Hx Hl]; subst. cbn [fold_left]. rewrite (Hx y Hxy). apply IH, Hl.
    - apply Forall_app in HF. destruct HF as [Hm Hl]. rewrite fold_left_app. cbn [fold_left count_fields].
      rewrite (IHm Hm a), <- (IHl Hl). rewrite (fold_add_shift count_fields mid' a). reflexivity.
  Qed.
  Lemma count_fields_w x : forall y, wsel x y -> count_fields x = count_fields y.
  Proof.
    induction x as [q al n args dirs sp sels IH|q n dirs|q tc dirs sp sels IH] using selection_ind';
      intros y Hxy; inversion Hxy as [? ? ? ? ? ? ? sels' Hs|?|? ? ? ? ? sels' Hs]; subst; cbn [count_fields];
      try reflexivity; [f_equal|]; apply fold_count_w; assumption.
  Qed.
  Lemma doc_fields_w : doc_fields d = doc_fields d'.
  Proof.
    unfold doc_fields. apply (fold_add_F2 wdef); [exact Hd|]. intros x y _ Hxy.
    pose proof (wdef_sels _ _ Hxy) as H. destruct Hxy; cbn [def_sels] in H;
      (apply fold_count_w; [exact H|]; apply Forall_forall; intros z _; apply count_fields_w).
  Qed.

  Lemma fisc_w set set' : Forall2 wcf set set' ->
    fields_in_set_can_merge s d set = fields_in_set_can_merge s d' set'.
  Proof.
    intro Hf. unfold fields_in_set_can_merge, same_key_pairs, merge_fuel_spec. rewrite <- doc_fields_w.
    rewrite !forallb_filter.
    rewrite (pairs_within_forallb (fun a b => negb (name_eqb (cf_key a) (cf_key b)) || fields_can_merge (S (S (doc_fields d))) s d false a b)).
    rewrite (pairs_within_forallb (fun a b => negb (name_eqb (cf_key a) (cf_key b)) || fields_can_merge (S (S (doc_fields d))) s d' false a b)).
    apply (pw_all_F2 wcf); [exact Hf|]. intros x x' y y' Hx Hy.
    rewrite (wcf_key _ _ Hx), (wcf_key _ _ Hy), (fcm_w _ _ _ _ _ _ Hx Hy). reflexivity.
  Qed.
End WMerge.

(* ------------------------------------------------------------------ the fields collected from a part of a
   selection list are among the fields collected from the whole list *)
Lemma NoDup_incl_split {A} (a b : list A) : NoDup a -> incl a b -> exists rest, Permutation b (a ++ rest).
Proof.
  revert b. induction a as [|x a IH]; intros b Ha Hi; [exists b; apply Permutation_refl|].
  inversion Ha as [|? ? Hx Ha']; subst.
  destruct (in_split x b (Hi x (or_introl eq_refl))) as (b1 & b2 & ->).
  destruct (IH (b1 ++ b2) Ha') as (rest & Hp).
  - intros y Hy. specialize (Hi y (or_intror Hy)). apply in_app_iff in Hi. apply in_app_iff.
    destruct Hi as [Hi|[->|Hi]]; [left; exact Hi|contradiction|right; exact Hi].
  - exists rest. cbn [app]. eapply Permutation_trans; [apply Permutation_sym, Permutation_middle|].
    constructor. exact Hp.
Qed.

Lemma pw_all_app_l {A} (g : A -> A -> bool) a b : pw_all g (a ++ b) = true -> pw_all g a = true.
Proof.
  induction a as [|x a IH]; [reflexivity|]. cbn [app pw_all]. rewrite forallb_app, !andb_true_iff.
  intros [[H1 _] H2]. split; [exact H1|apply IH, H2].
Qed.

Section Mono.
  Variables (s : sdocument) (d : document).

  Lemma fisc_pw set :
    fields_in_set_can_merge s d set =
    pw_all (fun a b => negb (name_eqb (cf_key a) (cf_key b)) || fields_can_merge (merge_fuel_spec d) s d false a b) set.
  Proof.
    unfold fields_in_set_can_merge, same_key_pairs. rewrite forallb_filter.
    apply (pairs_within_forallb (fun a b => negb (name_eqb (cf_key a) (cf_key b)) || fields_can_merge (merge_fuel_spec d) s d false a b)).
  Qed.
  Lemma fisc_perm set set' : Permutation set set' ->
    fields_in_set_can_merge s d set = fields_in_set_can_merge s d set'.
  Proof.
    intro H. rewrite !fisc_pw. apply pw_all_perm; [|exact H]. intros x y. rewrite name_eqb_sym, fcm_sym. reflexivity.
  Qed.

  Lemma collected_part p pre l post : exists rest,
    Permutation (collected s d p (pre ++ l ++ post)) (collected s d p l ++ rest).
  Proof.
    unfold collected. rewrite !collect_set_flat, !flat_map_app.
    set (A := flat_map (flatC s p) pre). set (X := flat_map (flatC s p) l). set (B := flat_map (flatC s p) post).
    assert (Hfuel : unvisited (frag_names d) [] < set_fuel d).
    { unfold set_fuel, unvisited. pose proof (filter_length_all (fun k => negb (mem_name k [])) (frag_names d)) as H.
      unfold frag_names in *. rewrite map_length in H. lia. }
    destruct (dfs_spec (bodyC s d) (frag_names d) (bodyC_U s d) (set_fuel d) X [] Hfuel)
      as (news1 & _ & Hnd1 & _ & Hreach1 & Hitems1).
    destruct (dfs_spec (bodyC s d) (frag_names d) (bodyC_U s d) (set_fuel d) (A ++ X ++ B) [] Hfuel)
      as (news2 & _ & Hnd2 & _ & Hreach2 & Hitems2).
    assert (Hincl : incl news1 news2).
    { intros m Hm. apply Hreach2. apply Hreach1 in Hm. eapply reach_mono_L; [|exact Hm].
      intros n Hn. unfold succs in *. rewrite !flat_map_app, !in_app_iff. right. left. exact Hn. }
    destruct (NoDup_incl_split news1 news2 Hnd1 Hincl) as (rest & Hrest).
    exists (afields A ++ afields B ++ flat_map (fun n => afields (nbody (bodyC s d) n)) rest).
    eapply Permutation_trans; [exact Hitems2|].
    eapply Permutation_trans; [|apply Permutation_app_tail, Permutation_sym, Hitems1].
    unfold afields at 1. rewrite !flat_map_app. fold (afields A) (afields X) (afields B).
    eapply Permutation_trans.
    { apply Permutation_app_head. apply (perm_flat_map (fun n => afields (nbody (bodyC s d) n))), Hrest. }
    rewrite flat_map_app.
    set (a := afields A). set (x := afields X). set (b := afields B).
    set (n1 := flat_map (fun n => afields (nbody (bodyC s d) n)) news1).
    set (n2 := flat_map (fun n => afields (nbody (bodyC s d) n)) rest).
    (* (a ++ x ++ b) ++ n1 ++ n2  ~  (x ++ n1) ++ a ++ b ++ n2 *)
    rewrite <- !app_assoc.
    eapply Permutation_trans; [apply Permutation_app_comm|]. rewrite <- !app_assoc.
    apply Permutation_app_head.
    (* b ++ n1 ++ n2 ++ a ~ n1 ++ a ++ b ++ n2 *)
    eapply Permutation_trans; [apply Permutation_app_comm|]. rewrite <- !app_assoc.
    (* n1 ++ n2 ++ a ++ b *)
    apply Permutation_app_head. eapply Permutation_trans; [apply Permutation_app_comm|]. rewrite <- !app_assoc.
    reflexivity.
  Qed.

  Lemma fisc_part p pre l post :
    fields_in_set_can_merge s d (collected s d p (pre ++ l ++ post)) = true ->
    fields_in_set_can_merge s d (collected s d p l) = true.
  Proof.
    destruct (collected_part p pre l post) as (rest & Hp). rewrite (fisc_perm _ _ Hp), !fisc_pw.
    apply pw_all_app_l.
  Qed.
End Mono.

(* ------------------------------------------------------------------ the selection sets of the rewritten
   document: rewritten selection sets of d and parts of them *)
Definition pick_ss (ea : aev) : list (option type_def * list selection) :=
  match fst ea with Enter (NSelectionSet _ sels) => [(a_parent (snd ea), sels)] | _ => [] end.
Definition ssets_of (l : list aev) : list (option type_def * list selection) := flat_map pick_ss l.
Lemma selection_sets_ssets s d : selection_sets s d = ssets_of (annot s d).
Proof. reflexivity. Qed.
Lemma ssets_app a b : ssets_of (a ++ b) = ssets_of a ++ ssets_of b.
Proof. apply flat_map_app. Qed.
Lemma ssets_same l : Forall same_aev l -> ssets_of l = [].
Proof.
  induction 1 as [|x l Hx _ IH]; [reflexivity|]. unfold ssets_of in *. cbn [flat_map]. rewrite IH, app_nil_r.
  destruct x as [[n|n] e]; [|reflexivity]. unfold same_aev in Hx. cbn [fst] in Hx. destruct n; try discriminate; reflexivity.
Qed.

(* ps' (of d') is covered by ps (of d): same parent type, a part of the selections of ps rewritten *)
Definition covers (ps ps' : option type_def * list selection) : Prop :=
  fst ps = fst ps' /\ exists pre m post, snd ps = pre ++ m ++ post /\ wsels m (snd ps').
Definition part_of (e : env) (l : list selection) (ps' : option type_def * list selection) : Prop :=
  fst ps' = a_parent e /\ exists pre m post, l = pre ++ m ++ post /\ wsels m (snd ps').

Section Cover.
  Variable s : sdocument.
  Notation items e l := (flat_map (fun x => annot_selection s x e) l).

  Lemma cover_items e l l' : a_parent e = a_type e -> wsels l l' ->
    Forall (fun x => forall y e, wsel x y -> a_parent e = a_type e ->
                     forall ps', In ps' (ssets_of (annot_selection s y e)) ->
                     exists ps, In ps (ssets_of (annot_selection s x e)) /\ covers ps ps') l ->
    forall ps', In ps' (ssets_of (items e l')) ->
    (exists ps, In ps (ssets_of (items e l)) /\ covers ps ps') \/ part_of e l ps'.
  Proof.
    intros He H. induction H as [|x y l l' Hxy _ IH|q sp mid mid' l l' _ Hmid IHm _ IHl]; intros HF ps' Hin.
    - destruct Hin.
    - inversion HF as [|? ? Hx Hl]; subst. cbn [flat_map] in *. rewrite ssets_app in *. apply in_app_iff in Hin.
      destruct Hin as [Hin|Hin].
      + destruct (Hx y e Hxy He ps' Hin) as (ps & Hps & Hc). left. exists ps. split; [apply in_app_iff; left; exact Hps|exact Hc].
      + destruct (IH Hl ps' Hin) as [(ps & Hps & Hc)|(Hp & pre & m & post & -> & Hm)].
        * left. exists ps. split; [apply in_app_iff; right; exact Hps|exact Hc].
        * right. split; [exact Hp|]. exists (x :: pre), m, post. split; [reflexivity|exact Hm].
    - apply Forall_app in HF. destruct HF as [Hm Hl]. rewrite flat_map_app, ssets_app. cbn [flat_map] in Hin.
      rewrite ssets_app in Hin. apply in_app_iff in Hin. destruct Hin as [Hin|Hin].
      + (* inside the wrapper *)
        cbn [annot_selection] in Hin. cbv zeta in Hin. cbn [annot_directives flat_map app] in Hin.
        rewrite (in_selection_set_fix e He) in Hin.
        change (?a :: ?b :: ?c ++ ?t) with ([a; b] ++ c ++ t) in Hin. rewrite !ssets_app in Hin.
        apply in_app_iff in Hin. destruct Hin as [Hin|Hin].
        * cbn in Hin. destruct Hin as [<-|[]]. right. split; [reflexivity|].
          exists [], mid, l. split; [reflexivity|exact Hmid].
        * apply in_app_iff in Hin. destruct Hin as [Hin|Hin]; [|cbn in Hin; destruct Hin].
          destruct (IHm Hm ps' Hin) as [(ps & Hps & Hc)|(Hp & pre & m & post & -> & Hmm)].
          -- left. exists ps. split; [apply in_app_iff; left; exact Hps|exact Hc].
          -- right. split; [exact Hp|]. exists pre, m, (post ++ l). split; [rewrite <- !app_assoc; reflexivity|exact Hmm].
      + destruct (IHl Hl ps' Hin) as [(ps & Hps & Hc)|(Hp & pre & m & post & -> & Hmm)].
        * left. exists ps. split; [apply in_app_iff; right; exact Hps|exact Hc].
        * right. split; [exact Hp|]. exists (mid ++ pre), m, post. split; [rewrite <- !app_assoc; reflexivity|exact Hmm].
  Qed.

  (* a selection set with its items *)
  Lemma cover_set sp sels sels' e3 (pre post pre' post' : list aev) :
    a_parent e3 = a_type e3 -> wsels sels sels' ->
    Forall (fun x => forall y e, wsel x y -> a_parent e = a_type e ->
                     forall ps', In ps' (ssets_of (annot_selection s y e)) ->
                     exists ps, In ps (ssets_of (annot_selection s x e)) /\ covers ps ps') sels ->
    ssets_of pre = [] -> ssets_of pre' = [] -> ssets_of post' = [] ->
    forall ps', In ps' (ssets_of (pre' ++ (Enter (NSelectionSet sp sels'), e3) :: items e3 sels' ++ post')) ->
    exists ps, In ps (ssets_of (pre ++ (Enter (NSelectionSet sp sels), e3) :: items e3 sels ++ post)) /\ covers ps ps'.
  Proof.
    intros He Hs HF Hpre Hpre' Hpost' ps' Hin.
    rewrite ssets_app in *. rewrite Hpre' in Hin. rewrite Hpre. cbn [app] in *.
    change (?a :: ?c ++ ?t) with ([a] ++ c ++ t) in *. rewrite !ssets_app in *. rewrite Hpost', app_nil_r in Hin.
    apply in_app_iff in Hin. destruct Hin as [Hin|Hin].
    - cbn in Hin. destruct Hin as [<-|[]]. exists (a_parent e3, sels). split; [left; reflexivity|].
      split; [reflexivity|]. exists [], sels, []. cbn [snd]. rewrite app_nil_r. split; [reflexivity|exact Hs].
    - destruct (cover_items e3 sels sels' He Hs HF ps' Hin) as [(ps & Hps & Hc)|(Hp & pr & m & po & -> & Hm)].
      + exists ps. split; [|exact Hc]. apply in_app_iff. right. apply in_app_iff. left. exact Hps.
      + exists (a_parent e3, pr ++ m ++ po). split; [left; reflexivity|]. split; [symmetry; exact Hp|].
        exists pr, m, po. split; [reflexivity|exact Hm].
  Qed.

  Lemma ssets_one_other ev e : (forall sp l, ev <> Enter (NSelectionSet sp l)) -> ssets_of [(ev, e)] = [].
  Proof.
    intro H. unfold ssets_of, pick_ss. cbn [flat_map fst app]. destruct ev as [n|n]; [|reflexivity].
    destruct n; try reflexivity. exfalso. eapply H. reflexivity.
  Qed.

  Lemma cover_selection x : forall y e, wsel x y -> a_parent e = a_type e ->
    forall ps', In ps' (ssets_of (annot_selection s y e)) ->
    exists ps, In ps (ssets_of (annot_selection s x e)) /\ covers ps ps'.
  Proof.
    induction x as [p al n args dirs sp sels IH|p n dirs|p tc dirs sp sels IH] using selection_ind';
      intros y e Hxy He ps' Hin; inversion Hxy as [? ? ? ? ? ? ? sels' Hs|?|? ? ? ? ? sels' Hs]; subst;
      cbn [annot_selection] in *; cbv zeta in *.
    - set (fdef := opt_bind (a_parent e) (fun t => field_by_name t n)) in *.
      set (e1 := at_type s e (opt_map fd_type fdef)) in *.
      set (e3 := in_selection_set (in_field e1 fdef)) in *.
      set (ad := annot_arguments s (opt_map fd_args fdef) args (in_field e1 fdef) ++ annot_directives s dirs (in_field e1 fdef)) in *.
      assert (Had : ssets_of ad = []).
      { apply ssets_same. apply Forall_app. split; [apply plain_same, annot_arguments_plain|apply annot_directives_same]. }
      rewrite app_assoc in Hin. fold ad in Hin. rewrite app_assoc. fold ad.
      apply (cover_set sp sels sels' e3 ((Enter (NField (SField p al n args dirs sp sels)), e1) :: ad)
                       [(Leave (NSelectionSet sp sels), e3); (Leave (NField (SField p al n args dirs sp sels)), e1)]
                       ((Enter (NField (SField p al n args dirs sp sels')), e1) :: ad)
                       [(Leave (NSelectionSet sp sels'), e3); (Leave (NField (SField p al n args dirs sp sels')), e1)]);
        try assumption; try reflexivity.
    - exists ps'. split; [exact Hin|]. exfalso.
      change (?a :: ?c ++ ?t) with ([a] ++ c ++ t) in Hin. rewrite !ssets_app in Hin.
      rewrite (ssets_same _ (annot_directives_same s dirs e)) in Hin. cbn in Hin. exact Hin.
    - set (e1 := match tc with Some cond => at_type s e (Some (TNamed cond)) | None => e end) in *.
      set (e3 := in_selection_set e1) in *.
      set (ad := annot_directives s dirs e1) in *.
      assert (Had : ssets_of ad = []) by (apply ssets_same, annot_directives_same).
      apply (cover_set sp sels sels' e3 ((Enter (NInline (SInline p tc dirs sp sels)), e1) :: ad)
                       [(Leave (NSelectionSet sp sels), e3); (Leave (NInline (SInline p tc dirs sp sels)), e1)]
                       ((Enter (NInline (SInline p tc dirs sp sels')), e1) :: ad)
                       [(Leave (NSelectionSet sp sels'), e3); (Leave (NInline (SInline p tc dirs sp sels')), e1)]);
        try assumption; try reflexivity.
  Qed.

  Lemma cover_definition x y e : wdef x y ->
    forall ps', In ps' (ssets_of (annot_definition s y e)) ->
    exists ps, In ps (ssets_of (annot_definition s x e)) /\ covers ps ps'.
  Proof.
    assert (HF : forall l, Forall (fun x => forall y e, wsel x y -> a_parent e = a_type e ->
                     forall ps', In ps' (ssets_of (annot_selection s y e)) ->
                     exists ps, In ps (ssets_of (annot_selection s x e)) /\ covers ps ps') l).
    { intro l. apply Forall_forall. intros z _. apply cover_selection. }
    intros [o o' H|f f' H] ps' Hin; cbn [annot_definition] in *; cbv zeta in *; unfold annot_selection_set in *; cbv zeta in *.
    - destruct (wop_fields _ _ H) as (Hk & _ & _ & _ & _ & Hsp & Hs).
      rewrite <- Hk, <- Hsp, <- (wop_vardefs _ _ H), <- (wop_directives _ _ H) in Hin.
      set (e1 := at_type s e (opt_map (fun t => TNamed (td_name t)) (root s (o_kind o)))) in *.
      set (ad := annot_directives s (op_directives o) e1 ++ annot_vardefs s (op_variable_definitions o) e1) in *.
      assert (Had : ssets_of ad = []).
      { apply ssets_same. apply Forall_app. split; [apply annot_directives_same|apply annot_vardefs_same]. }
      rewrite app_assoc in Hin. fold ad in Hin. rewrite app_assoc. fold ad.
      cbn [app] in *. rewrite <- app_assoc in Hin. rewrite <- app_assoc.
      apply (cover_set (o_span o) (o_sels o) (o_sels o') (in_selection_set e1) ((Enter (NOperation o), e1) :: ad)
                       ([(Leave (NSelectionSet (o_span o) (o_sels o)), in_selection_set e1)] ++ [(Leave (NOperation o), e1)])
                       ((Enter (NOperation o'), e1) :: ad)
                       ([(Leave (NSelectionSet (o_span o) (o_sels o')), in_selection_set e1)] ++ [(Leave (NOperation o'), e1)]));
        try assumption; try reflexivity; try apply HF.
    - destruct (wfrag_fields _ _ H) as (_ & _ & Htc & Hdi & Hsp & Hs). rewrite <- Htc, <- Hsp, <- Hdi in Hin.
      set (e1 := at_type s e (Some (TNamed (fr_tc f)))) in *.
      set (ad := annot_directives s (fr_dirs f) e1) in *.
      assert (Had : ssets_of ad = []) by (apply ssets_same, annot_directives_same).
      cbn [app] in *. rewrite <- app_assoc in Hin. rewrite <- app_assoc.
      apply (cover_set (fr_span f) (fr_sels f) (fr_sels f') (in_selection_set e1) ((Enter (NFragmentDef f), e1) :: ad)
                       ([(Leave (NSelectionSet (fr_span f) (fr_sels f)), in_selection_set e1)] ++ [(Leave (NFragmentDef f), e1)])
                       ((Enter (NFragmentDef f'), e1) :: ad)
                       ([(Leave (NSelectionSet (fr_span f) (fr_sels f')), in_selection_set e1)] ++ [(Leave (NFragmentDef f'), e1)]));
        try assumption; try reflexivity; try apply HF.
  Qed.

  Lemma cover_document d d' : wrap_doc d d' ->
    forall ps', In ps' (selection_sets s d') -> exists ps, In ps (selection_sets s d) /\ covers ps ps'.
  Proof.
    intros Hd ps' Hin. rewrite selection_sets_ssets in *. unfold annot in *.
    change (?a :: ?c ++ ?t) with ([a] ++ c ++ t) in *. rewrite !ssets_app in *.
    apply in_app_iff in Hin. destruct Hin as [Hin|Hin]; [cbn in Hin; destruct Hin|].
    apply in_app_iff in Hin. destruct Hin as [Hin|Hin]; [|cbn in Hin; destruct Hin].
    assert (H : exists ps, In ps (ssets_of (flat_map (fun x => annot_definition s x env0) d)) /\ covers ps ps').
    { clear -Hd Hin. induction Hd as [|x y l l' Hxy _ IH]; [destruct Hin|]. cbn [flat_map] in *.
      rewrite ssets_app in *. apply in_app_iff in Hin. destruct Hin as [Hin|Hin].
      - destruct (cover_definition x y env0 Hxy ps' Hin) as (ps & Hps & Hc). exists ps.
        split; [apply in_app_iff; left; exact Hps|exact Hc].
      - destruct (IH Hin) as (ps & Hps & Hc). exists ps. split; [apply in_app_iff; right; exact Hps|exact Hc]. }
    destruct H as (ps & Hps & Hc). exists ps. split; [|exact Hc].
    apply in_app_iff. right. apply in_app_iff. left. exact Hps.
  Qed.
End Cover.

Lemma selection_sets_wrap_l s d d' ps : wrap_doc d d' -> In ps (selection_sets s d) ->
  exists ps', In ps' (selection_sets s d') /\ fst ps = fst ps' /\ wsels (snd ps) (snd ps').
Proof.
  intros Hd Hin. unfold selection_sets in *. apply in_flat_map in Hin. destruct Hin as ([ev e] & Hea & Hin).
  destruct (emb_in_l waev extra_aev _ _ _ (annot_emb s d d' Hd) Hea) as ([ev' e'] & Hy & [Hev He]).
  cbn [fst snd] in *. subst e'. destruct ev as [n|n]; [|destruct Hin]. destruct n; try destruct Hin as [Hin|[]]; try destruct Hin.
  inversion Hev as [n n' Hn|]; subst. inversion Hn as [| | |? l l' Hl| | | |? Hs]; subst; [|discriminate].
  exists (a_parent e, l'). split; [|split; [reflexivity|exact Hl]].
  apply in_flat_map. exists (Enter (NSelectionSet sp l'), e). split; [exact Hy|left; reflexivity].
Qed.

Lemma w_overlapping_fields s d d' : wrap_doc d d' -> v_overlapping_fields s d = v_overlapping_fields s d'.
Proof.
  intro Hd. unfold v_overlapping_fields. apply bool_iff_eq. rewrite !existsb_exists. split.
  - intros (ps & Hin & Hbad). destruct (selection_sets_wrap_l s d d' ps Hd Hin) as (ps' & Hin' & Hp & Hl).
    exists ps'. split; [exact Hin'|]. rewrite <- Hp, <- (fisc_w s d d' Hd _ _ (collected_w s d d' Hd (fst ps) _ _ Hl)).
    exact Hbad.
  - intros (ps' & Hin' & Hbad). destruct (cover_document s d d' Hd ps' Hin') as (ps & Hin & Hp & pre & m & post & Hsplit & Hm).
    exists ps. split; [exact Hin|]. rewrite Hsplit.
    destruct (fields_in_set_can_merge s d (collected s d (fst ps) (pre ++ m ++ post))) eqn:E; [|reflexivity].
    apply fisc_part in E. rewrite (fisc_w s d d' Hd _ _ (collected_w s d d' Hd (fst ps) _ _ Hm)), Hp in E.
    rewrite E in Hbad. discriminate.
Qed.

(* ------------------------------------------------------------------ all rules *)
Theorem violated_wrap : forall r s d d', wrap_doc d d' -> violated r s d = violated r s d'.
Proof.
  intros r s d d' Hd. destruct r; cbn [violated].
  - apply w_unique_operation_names, Hd.
  - apply w_lone_anonymous, Hd.
  - apply w_single_field_subscriptions, Hd.
  - apply w_known_type_names, Hd.
  - apply w_fragments_on_composite, Hd.
  - apply w_variables_are_input_types, Hd.
  - apply w_leaf_field_selections, Hd.
  - apply w_fields_on_correct_type, Hd.
  - apply w_unique_fragment_names, Hd.
  - apply w_known_fragment_names, Hd.
  - apply w_no_unused_fragments, Hd.
  - rewrite (w_no_fragment_cycles d d' Hd), (w_overlapping_fields s d d' Hd). reflexivity.
  - apply w_no_fragment_cycles, Hd.
  - apply w_possible_fragment_spreads, Hd.
  - apply w_no_unused_variables, Hd.
  - apply w_no_undefined_variables, Hd.
  - apply w_known_argument_names, Hd.
  - apply w_unique_argument_names, Hd.
  - apply w_unique_variable_names, Hd.
  - apply w_provided_required_arguments, Hd.
  - apply w_known_directives, Hd.
  - apply w_variables_in_allowed_position, Hd.
  - apply w_values_of_correct_type, Hd.
  - apply w_unique_directives_per_location, Hd.
Qed.

(* FieldsOnCorrectType, the rule that used to be the exception: both of its clauses are invariant, the
   clause "a __typename at a subscription root" because it looks through the wrappers *)
Theorem violated_wrap_fields_on_correct_type : forall s d d', wrap_doc d d' ->
  fields_undefined s d = fields_undefined s d' /\
  subscription_typename d = subscription_typename d' /\
  violated R_FieldsOnCorrectType s d = violated R_FieldsOnCorrectType s d'.
Proof.
  intros s d d' Hd. split; [apply w_fields_undefined, Hd|]. split; [apply subscription_typename_wrap, Hd|].
  apply violated_wrap, Hd.
Qed.

(* ------------------------------------------------------------------ accept / reject *)
Theorem spec_valid_wrap : forall s d d', wrap_doc d d' -> spec_valid s d = spec_valid s d'.
Proof.
  intros s d d' Hd. unfold spec_valid. apply forallb_ext_in. intros r _. f_equal. apply violated_wrap, Hd.
Qed.

(* ------------------------------------------------------------------ the model's verdicts *)
Section SideW.
  Variables (s : sdocument) (d d' : document).
  Hypothesis Hd : wrap_doc d d'.

  Lemma doc_types_proper_wrap : doc_types_proper d = doc_types_proper d'.
  Proof.
    unfold doc_types_proper. apply F2_forallb. eapply Forall2_impl_in; [|apply wdoc_ops, Hd].
    intros o o' _ H. rewrite (wop_vardefs _ _ H). reflexivity.
  Qed.
  Lemma defaults_const_wrap : defaults_const d = defaults_const d'.
  Proof.
    unfold C07_position_proofs.defaults_const. apply F2_forallb. eapply Forall2_impl_in; [|apply wdoc_ops, Hd].
    intros o o' _ H. rewrite (wop_vardefs _ _ H). reflexivity.
  Qed.
  Lemma distinct_fragments_wrap : distinct_fragments d = distinct_fragments d'.
  Proof. unfold distinct_fragments. rewrite (w_unique_fragment_names d d' Hd). reflexivity. Qed.
  Lemma rule_in_scope_wrap r : rule_in_scope r s d = rule_in_scope r s d'.
  Proof.
    destruct r; cbn [rule_in_scope]; try reflexivity;
      rewrite ?distinct_fragments_wrap, ?(w_no_fragment_cycles d d' Hd), ?(w_unique_argument_names s d d' Hd),
              ?(w_variables_are_input_types s d d' Hd); reflexivity.
  Qed.
  Lemma side_wrap r : side r s d -> side r s d'.
  Proof.
    intros (Hwf & Hty & Hdc & Hdf & Hsc). unfold side.
    rewrite <- doc_types_proper_wrap, <- defaults_const_wrap, <- distinct_fragments_wrap, <- rule_in_scope_wrap.
    repeat split; assumption.
  Qed.
End SideW.

Theorem run_alone_wrap : forall r s d d',
  r <> R_OverlappingFieldsCanBeMerged ->
  wf_schema s = true -> doc_types_proper d = true -> defaults_const d = true ->
  distinct_fragments d = true -> rule_in_scope r s d = true ->
  wrap_doc d d' ->
  (run_alone r s d = [] <-> run_alone r s d' = []).
Proof.
  intros r s d d' Hr Hwf Hty Hdc Hdf Hsc Hd.
  assert (Hside : side r s d) by (repeat split; assumption).
  rewrite (nil_iff_false _ _ (rule_iff r s d Hr Hside)).
  rewrite (nil_iff_false _ _ (rule_iff r s d' Hr (side_wrap s d d' Hd r Hside))).
  rewrite (violated_wrap r s d d' Hd). reflexivity.
Qed.

(* ------------------------------------------------------------------ examples and counterexamples *)
Lemma wsel_refl x : wsel x x.
Proof.
  induction x as [p al n args dirs sp sels IH|p n dirs|p tc dirs sp sels IH] using selection_ind';
    constructor; induction IH; constructor; assumption.
Qed.
Lemma wsels_refl l : wsels l l.
Proof. induction l; constructor; [apply wsel_refl|assumption]. Qed.

Definition wx_wrap (l : list selection) : selection := SInline cx_z None [] (cx_z, cx_z) l.
Definition wx_sub (sels : list selection) : document :=
  [DOp (mkOperation OpSubscription cx_z (Some "S") [] [] (cx_z, cx_z) sels)].
Definition wx_schema_sub : sdocument :=
  [SDType (TDObject "Query" [] [mkFD "a" [] (TNamed "String")]);
   SDType (TDObject "Subscription" [] [mkFD "a" [] (TNamed "String")]); SDType (TDScalar "String")].

Lemma wx_sub_wrap x : wrap_doc (wx_sub [x]) (wx_sub [wx_wrap [x]]).
Proof.
  constructor; [|constructor]. constructor. constructor.
  apply (WLwrap wsel cx_z (cx_z, cx_z) [x] [x] [] []); [discriminate|apply wsels_refl|constructor].
Qed.

(* FieldsOnCorrectType on the documents that used to separate it:  subscription S { __typename }  and
   subscription S { ... { __typename } }  get the same verdict, from the specification and from the model *)
Example wrap_fields_on_correct_type_example :
  wf_schema wx_schema_sub = true /\
  wrap_doc (wx_sub [cx_field "__typename"]) (wx_sub [wx_wrap [cx_field "__typename"]]) /\
  violated R_FieldsOnCorrectType wx_schema_sub (wx_sub [cx_field "__typename"]) = true /\
  violated R_FieldsOnCorrectType wx_schema_sub (wx_sub [wx_wrap [cx_field "__typename"]]) = true /\
  run_alone R_FieldsOnCorrectType wx_schema_sub (wx_sub [cx_field "__typename"]) =
    [err R_FieldsOnCorrectType [cx_z]] /\
  run_alone R_FieldsOnCorrectType wx_schema_sub (wx_sub [wx_wrap [cx_field "__typename"]]) =
    [err R_FieldsOnCorrectType [cx_z]] /\
  spec_valid wx_schema_sub (wx_sub [cx_field "__typename"]) = false /\
  spec_valid wx_schema_sub (wx_sub [wx_wrap [cx_field "__typename"]]) = false.
Proof. split; [vm_compute; reflexivity|]. split; [apply wx_sub_wrap|]. repeat split; vm_compute; reflexivity. Qed.

(* and where the schema has no subscription root type (only FieldsOnCorrectType objects to the
   document), accept / reject no longer changes: both documents are rejected *)
Example wrap_spec_valid_example :
  wf_schema cx_schema = true /\
  root cx_schema OpSubscription = None /\
  wrap_doc (wx_sub [cx_field "__typename"]) (wx_sub [wx_wrap [cx_field "__typename"]]) /\
  spec_valid cx_schema (wx_sub [cx_field "__typename"]) = false /\
  spec_valid cx_schema (wx_sub [wx_wrap [cx_field "__typename"]]) = false /\
  run_alone R_FieldsOnCorrectType cx_schema (wx_sub [cx_field "__typename"]) =
    [err R_FieldsOnCorrectType [cx_z]] /\
  run_alone R_FieldsOnCorrectType cx_schema (wx_sub [wx_wrap [cx_field "__typename"]]) =
    [err R_FieldsOnCorrectType [cx_z]].
Proof.
  split; [vm_compute; reflexivity|]. split; [vm_compute; reflexivity|]. split; [apply wx_sub_wrap|].
  repeat split; vm_compute; reflexivity.
Qed.

(* wrapping an empty part is excluded: it would give a leaf field a selection set *)
Lemma wrap_empty_cex :
  violated R_LeafFieldSelections cx_schema
           [DOp (mkOperation OpQuery cx_z (Some "Q") [] [] (cx_z, cx_z) [cx_field "a"])] = false /\
  violated R_LeafFieldSelections cx_schema
           [DOp (mkOperation OpQuery cx_z (Some "Q") [] [] (cx_z, cx_z)
                   [SField cx_z None "a" [] [] (cx_z, cx_z) [wx_wrap []]])] = true.
Proof. split; vm_compute; reflexivity. Qed.

(* the relation is not degenerate:  { a ...F t { a } }  ~>  { a ... { ...F t { ... { a } } } } *)
Example wrap_example :
  wrap_doc [DOp (mkOperation OpQuery cx_z None [] [] (cx_z, cx_z)
                   [cx_field "a"; SSpread cx_z "F" []; SField cx_z None "t" [] [] (cx_z, cx_z) [cx_field "a"]])]
           [DOp (mkOperation OpQuery cx_z None [] [] (cx_z, cx_z)
                   [cx_field "a"; wx_wrap [SSpread cx_z "F" []; SField cx_z None "t" [] [] (cx_z, cx_z) [wx_wrap [cx_field "a"]]]])].
Proof.
  constructor; [|constructor]. constructor. constructor. constructor; [apply wsel_refl|].
  apply (WLwrap wsel cx_z (cx_z, cx_z) [SSpread cx_z "F" []; SField cx_z None "t" [] [] (cx_z, cx_z) [cx_field "a"]] _ [] []);
    [discriminate| |constructor].
  constructor; [apply wsel_refl|]. constructor; [|constructor]. constructor.
  apply (WLwrap wsel cx_z (cx_z, cx_z) [cx_field "a"] _ [] []); [discriminate|apply wsels_refl|constructor].
Qed.

Print Assumptions violated_wrap.
Print Assumptions violated_wrap_fields_on_correct_type.
Print Assumptions spec_valid_wrap.
Print Assumptions run_alone_wrap.
Print Assumptions wrap_fields_on_correct_type_example.
Print Assumptions wrap_spec_valid_example.

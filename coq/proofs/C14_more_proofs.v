(* C14_more_proofs.v — further invariance theorems for C14, for every rule's specification predicate
   [violated r s d] and (through the per-rule equivalences) for the model's rules:
     (b) the selections of selection sets permuted               perm_sels_doc
     (c) the argument lists of fields and directives permuted    perm_args_doc
     (c) the variable definitions of operations permuted         perm_vars_doc  (the variable-position rule
         needs unique variable names: perm_vars_needs_unique_variable_names)
     (d) operations renamed injectively                          rename_ops_doc fo
     (d) aliases rewritten, response-key equalities preserved    rename_aliases_doc h
   All are instances of ONE relation [rdoc ren hk pa pv ps d d'] (Section Rel): d' is d where
     - every operation name n is replaced by ren n,
     - every field's alias is replaced such that its response key k becomes h k (hk = Some h; None: unchanged),
     - argument lists (pa), variable definitions (pv), selection lists (ps) are permuted where the flag
       is true and equal where it is false ([lperm]);
   and of ONE theorem, [violated_rel].  Field merging and single-field subscriptions go through
   [dfs_rel]: a depth-first collection that expands every named fragment at most once returns the
   same fields and visits the same fragments, whatever the order of the selections. *)
From GT Require Import Visitor Validate Merge.
From Coq Require Import Permutation.
From GTS Require Import Annot WfSchema SpecCollect SpecRules SpecValues SpecMerge SpecValid.
From GTP Require Import VisitorFacts TraceFacts C14_proofs.

(* ------------------------------------------------------------------ lists equal up to a permutation
   and an element relation *)
Definition PermR {A B} (R : A -> B -> Prop) (l : list A) (l' : list B) : Prop :=
  exists m, Permutation l m /\ Forall2 R m l'.

Lemma PermR_nil {A B} (R : A -> B -> Prop) : PermR R [] [].
Proof. exists []. split; constructor. Qed.

Lemma PermR_F2 {A B} (R : A -> B -> Prop) l l' : Forall2 R l l' -> PermR R l l'.
Proof. intro H. exists l. split; [apply Permutation_refl|exact H]. Qed.

Lemma Forall2_eq_refl {A} (l : list A) : Forall2 eq l l.
Proof. induction l; constructor; [reflexivity|assumption]. Qed.

Lemma Forall2_eq {A} (l l' : list A) : Forall2 eq l l' -> l = l'.
Proof. induction 1; [reflexivity|]. subst. reflexivity. Qed.

Lemma PermR_perm {A} (l l' : list A) : Permutation l l' -> PermR eq l l'.
Proof. intro H. exists l'. split; [exact H|apply Forall2_eq_refl]. Qed.

Lemma PermR_eq_perm {A} (l l' : list A) : PermR eq l l' -> Permutation l l'.
Proof. intros (m & Hp & Hf). apply Forall2_eq in Hf. subst. exact Hp. Qed.

Lemma PermR_perm_l {A B} (R : A -> B -> Prop) l0 l l' : Permutation l0 l -> PermR R l l' -> PermR R l0 l'.
Proof. intros H (m & Hp & Hf). exists m. split; [eapply Permutation_trans; eassumption|exact Hf]. Qed.

Lemma PermR_app {A B} (R : A -> B -> Prop) a a' b b' :
  PermR R a a' -> PermR R b b' -> PermR R (a ++ b) (a' ++ b').
Proof.
  intros (m & Hp & Hf) (n & Hq & Hg). exists (m ++ n). split.
  - apply Permutation_app; assumption.
  - apply Forall2_app; assumption.
Qed.

Lemma PermR_cons {A B} (R : A -> B -> Prop) x y l l' : R x y -> PermR R l l' -> PermR R (x :: l) (y :: l').
Proof.
  intros Hxy (m & Hp & Hf). exists (x :: m). split; [constructor; exact Hp|constructor; assumption].
Qed.

Lemma PermR_one {A B} (R : A -> B -> Prop) x y : R x y -> PermR R [x] [y].
Proof. intro H. apply PermR_cons; [exact H|apply PermR_nil]. Qed.

Lemma F2_flat_map {A B C D} (R : A -> B -> Prop) (R' : C -> D -> Prop) (g : A -> list C) (g' : B -> list D) l l' :
  Forall2 (fun x y => PermR R' (g x) (g' y)) l l' -> PermR R' (flat_map g l) (flat_map g' l').
Proof.
  induction 1 as [|x y l l' Hxy _ IH]; cbn [flat_map]; [apply PermR_nil|].
  apply PermR_app; assumption.
Qed.

Lemma Forall2_impl_in {A B} (R R' : A -> B -> Prop) l l' :
  (forall x y, In x l -> R x y -> R' x y) -> Forall2 R l l' -> Forall2 R' l l'.
Proof.
  intros H HF. induction HF as [|x y l l' Hxy _ IH]; constructor.
  - apply H; [left; reflexivity|exact Hxy].
  - apply IH. intros a b Ha. apply H. right. exact Ha.
Qed.

Lemma PermR_flat_map {A B C D} (R : A -> B -> Prop) (R' : C -> D -> Prop) (g : A -> list C) (g' : B -> list D) l l' :
  PermR R l l' -> (forall x y, In x l -> R x y -> PermR R' (g x) (g' y)) ->
  PermR R' (flat_map g l) (flat_map g' l').
Proof.
  intros (m & Hp & Hf) H. apply (PermR_perm_l _ _ (flat_map g m)); [apply perm_flat_map, Hp|].
  apply (F2_flat_map R). eapply Forall2_impl_in; [|exact Hf].
  intros x y Hx Hxy. apply H; [|exact Hxy]. eapply Permutation_in; [apply Permutation_sym, Hp|exact Hx].
Qed.

Lemma PermR_impl {A B} (R R' : A -> B -> Prop) l l' :
  (forall x y, In x l -> R x y -> R' x y) -> PermR R l l' -> PermR R' l l'.
Proof.
  intros H (m & Hp & Hf). exists m. split; [exact Hp|]. eapply Forall2_impl_in; [|exact Hf].
  intros x y Hx. apply H. eapply Permutation_in; [apply Permutation_sym, Hp|exact Hx].
Qed.

Lemma PermR_map {A B C D} (R : A -> B -> Prop) (R' : C -> D -> Prop) (g : A -> C) (g' : B -> D) l l' :
  PermR R l l' -> (forall x y, In x l -> R x y -> R' (g x) (g' y)) -> PermR R' (map g l) (map g' l').
Proof.
  intros HP H.
  assert (E : forall X Y (h : X -> Y) k, map h k = flat_map (fun x => [h x]) k).
  { intros X Y h k. induction k as [|x k IH]; cbn [map flat_map app]; [reflexivity|]. rewrite IH. reflexivity. }
  rewrite !E.
  apply (PermR_flat_map R); [exact HP|]. intros x y Hx Hxy. apply PermR_one, H; assumption.
Qed.

Lemma F2_existsb {A B} (R : A -> B -> Prop) (p : A -> bool) (p' : B -> bool) l l' :
  Forall2 (fun x y => p x = p' y) l l' -> existsb p l = existsb p' l'.
Proof. induction 1 as [|x y l l' Hxy _ IH]; cbn [existsb]; [reflexivity|]. rewrite Hxy, IH. reflexivity. Qed.

Lemma PermR_existsb {A B} (R : A -> B -> Prop) (p : A -> bool) (p' : B -> bool) l l' :
  PermR R l l' -> (forall x y, In x l -> R x y -> p x = p' y) -> existsb p l = existsb p' l'.
Proof.
  intros (m & Hp & Hf) H. rewrite (existsb_perm p l m Hp). apply (F2_existsb R).
  eapply Forall2_impl_in; [|exact Hf]. intros x y Hx Hxy. apply H; [|exact Hxy].
  eapply Permutation_in; [apply Permutation_sym, Hp|exact Hx].
Qed.

Lemma F2_forallb {A B} (p : A -> bool) (p' : B -> bool) (l : list A) (l' : list B) :
  Forall2 (fun x y => p x = p' y) l l' -> forallb p l = forallb p' l'.
Proof. induction 1 as [|x y l l' Hxy _ IH]; cbn [forallb]; [reflexivity|]. rewrite Hxy, IH. reflexivity. Qed.

Lemma forallb_perm {A} (p : A -> bool) l l' : Permutation l l' -> forallb p l = forallb p l'.
Proof. intro H. apply forallb_eqset; [apply perm_eqset, H|reflexivity]. Qed.

Lemma PermR_forallb {A B} (R : A -> B -> Prop) (p : A -> bool) (p' : B -> bool) l l' :
  PermR R l l' -> (forall x y, In x l -> R x y -> p x = p' y) -> forallb p l = forallb p' l'.
Proof.
  intros (m & Hp & Hf) H. rewrite (forallb_perm p l m Hp). apply F2_forallb.
  eapply Forall2_impl_in; [|exact Hf]. intros x y Hx Hxy. apply H; [|exact Hxy].
  eapply Permutation_in; [apply Permutation_sym, Hp|exact Hx].
Qed.

Lemma PermR_length {A B} (R : A -> B -> Prop) l l' : PermR R l l' -> List.length l = List.length l'.
Proof.
  intros (m & Hp & Hf). rewrite (Permutation_length Hp). clear Hp.
  induction Hf as [|x y m l' _ _ IH]; [reflexivity|]. cbn [List.length]. rewrite IH. reflexivity.
Qed.

(* ------------------------------------------------------------------ the rewrites *)
Definition lperm {A} (b : bool) (l l' : list A) : Prop := if b then Permutation l l' else l = l'.

Lemma lperm_perm {A} b (l l' : list A) : lperm b l l' -> Permutation l l'.
Proof. destruct b; cbn [lperm]; [exact (fun H => H)|intros ->; apply Permutation_refl]. Qed.
Lemma lperm_refl {A} b (l : list A) : lperm b l l.
Proof. destruct b; cbn [lperm]; [apply Permutation_refl|reflexivity]. Qed.

Definition is_field_sel (x : selection) : bool := match x with SField _ _ _ _ _ _ _ => true | _ => false end.
(* the response key of a field with alias al and name n *)
Definition field_key (al : option name) (n : name) : name := match al with Some a => a | None => n end.
Definition kmap (hk : option (name -> name)) (k : name) : name := match hk with Some h => h k | None => k end.
Definition key_injective (hk : option (name -> name)) : Prop := forall a b, kmap hk a = kmap hk b -> a = b.
Lemma key_injective_none : key_injective None.
Proof. intros a b H. exact H. Qed.
Lemma name_eqb_kmap hk a b : key_injective hk -> name_eqb (kmap hk a) (kmap hk b) = name_eqb a b.
Proof.
  intro Hi. apply bool_iff_eq. rewrite !name_eqb_eq. split; [apply Hi|intros ->; reflexivity].
Qed.

Section Rel.
  (* how operation names are rewritten (the identity for the permutations) *)
  Variable ren : option name -> option name.
  (* how response keys are rewritten: None = aliases unchanged, Some h = the field with response key k
     gets an alias such that its response key is h k *)
  Variable hk : option (name -> name).
  (* which lists may be permuted: argument lists, variable definitions, selections *)
  Variables pa pv ps : bool.

  Inductive rdir : directive -> directive -> Prop :=
  | RDir p n args args' : lperm pa args args' -> rdir (mkDirective p n args) (mkDirective p n args').
  Definition rdirs : list directive -> list directive -> Prop := Forall2 rdir.

  Definition ralias (al al' : option name) (n : name) : Prop :=
    match hk with
    | None => al' = al
    | Some h => field_key al' n = h (field_key al n)
    end.
  Inductive rsel : selection -> selection -> Prop :=
  | RField p al al' n args args' dirs dirs' sp sels m sels' :
      ralias al al' n ->
      lperm pa args args' -> rdirs dirs dirs' -> lperm ps sels m -> Forall2 rsel m sels' ->
      rsel (SField p al n args dirs sp sels) (SField p al' n args' dirs' sp sels')
  | RSpread p n dirs dirs' : rdirs dirs dirs' -> rsel (SSpread p n dirs) (SSpread p n dirs')
  | RInline p tc dirs dirs' sp sels m sels' :
      rdirs dirs dirs' -> lperm ps sels m -> Forall2 rsel m sels' ->
      rsel (SInline p tc dirs sp sels) (SInline p tc dirs' sp sels').
  Definition rsels (l l' : list selection) : Prop := exists m, lperm ps l m /\ Forall2 rsel m l'.

  Inductive rop : operation -> operation -> Prop :=
  | ROp k p n vars vars' dirs dirs' sp sels sels' :
      lperm pv vars vars' -> rdirs dirs dirs' -> rsels sels sels' ->
      rop (mkOperation k p n vars dirs sp sels) (mkOperation k p (ren n) vars' dirs' sp sels').
  Inductive rfrag : fragment_def -> fragment_def -> Prop :=
  | RFrag p n tc dirs dirs' sp sels sels' :
      rdirs dirs dirs' -> rsels sels sels' ->
      rfrag (mkFragment p n tc dirs sp sels) (mkFragment p n tc dirs' sp sels').
  Inductive rdef : definition -> definition -> Prop :=
  | RDOp o o' : rop o o' -> rdef (DOp o) (DOp o')
  | RDFrag f f' : rfrag f f' -> rdef (DFrag f) (DFrag f').
  Definition rdoc : document -> document -> Prop := Forall2 rdef.

  Lemma rsels_PermR l l' : rsels l l' -> PermR rsel l l'.
  Proof. intros (m & Hp & Hf). exists m. split; [apply (lperm_perm ps), Hp|exact Hf]. Qed.

  (* ---------------------------------------------------------------- events *)
  Definition plain_node (n : node) : bool :=
    match n with
    | NVarDef _ | NArgument _ | NNull | NScalar _ | NEnum _ | NVariable _ | NList _ | NObject _
    | NObjectField _ => true
    | _ => false
    end.
  Inductive rnode : node -> node -> Prop :=
  | RNDocument d d' : rdoc d d' -> rnode (NDocument d) (NDocument d')
  | RNOperation o o' : rop o o' -> rnode (NOperation o) (NOperation o')
  | RNFragmentDef f f' : rfrag f f' -> rnode (NFragmentDef f) (NFragmentDef f')
  | RNDirective x x' : rdir x x' -> rnode (NDirective x) (NDirective x')
  | RNSelectionSet sp l l' : rsels l l' -> rnode (NSelectionSet sp l) (NSelectionSet sp l')
  | RNField x x' : rsel x x' -> rnode (NField x) (NField x')
  | RNSpread x x' : rsel x x' -> rnode (NSpread x) (NSpread x')
  | RNInline x x' : rsel x x' -> rnode (NInline x) (NInline x')
  | RNPlain n : plain_node n = true -> rnode n n.
  Inductive revent : event -> event -> Prop :=
  | REnter n n' : rnode n n' -> revent (Enter n) (Enter n')
  | RLeave n n' : rnode n n' -> revent (Leave n) (Leave n').
  Definition raev (x y : aev) : Prop := revent (fst x) (fst y) /\ snd x = snd y.

  Definition plain_aev (x : aev) : Prop :=
    match fst x with Enter n | Leave n => plain_node n = true end.

  Lemma raev_plain x : plain_aev x -> raev x x.
  Proof.
    destruct x as [[n|n] e]; unfold plain_aev; cbn [fst]; intro H; (split; [|reflexivity]);
      constructor; apply RNPlain, H.
  Qed.

  Lemma PermR_plain l l' : Forall plain_aev l -> Permutation l l' -> PermR raev l l'.
  Proof.
    intros Hpl Hp. exists l'. split; [exact Hp|].
    assert (Hpl' : Forall plain_aev l').
    { rewrite Forall_forall in *. intros x Hx. apply Hpl. eapply Permutation_in; [apply Permutation_sym, Hp|exact Hx]. }
    clear Hp Hpl. induction Hpl' as [|x r Hx _ IH]; constructor; [apply raev_plain, Hx|exact IH].
  Qed.

  Lemma annot_value_plain s v : forall e, Forall plain_aev (annot_value s v e).
  Proof.
    induction v as [n|z|b|str|b| |n|l IH|l IH] using value_ind'; intro e; cbn [annot_value];
      try (repeat constructor).
    - apply Forall_app. split; [|repeat constructor].
      apply Forall_forall. intros x Hx. apply in_flat_map in Hx. destruct Hx as (y & Hy & Hx).
      rewrite Forall_forall in IH. specialize (IH y Hy (expecting s e (item_type (a_input_lit e)))).
      rewrite Forall_forall in IH. apply IH, Hx.
    - apply Forall_app. split; [|repeat constructor].
      apply Forall_forall. intros x Hx. apply in_flat_map in Hx. destruct Hx as (kv & Hkv & Hx).
      rewrite Forall_forall in IH. specialize (IH kv Hkv). cbv beta zeta in Hx.
      destruct Hx as [<-|Hx]; [reflexivity|]. apply in_app_iff in Hx. destruct Hx as [Hx|[<-|[]]]; [|reflexivity].
      specialize (IH (expecting s e (input_field_type s (a_input_lit e) (fst kv)))).
      rewrite Forall_forall in IH. apply IH, Hx.
  Qed.

  Lemma annot_arguments_plain s decls args e : Forall plain_aev (annot_arguments s decls args e).
  Proof.
    unfold annot_arguments. apply Forall_forall. intros x Hx. apply in_flat_map in Hx.
    destruct Hx as (a & _ & Hx). cbv beta zeta in Hx.
    destruct Hx as [<-|Hx]; [reflexivity|]. apply in_app_iff in Hx. destruct Hx as [Hx|[<-|[]]]; [|reflexivity].
    pose proof (annot_value_plain s (snd a) (expecting s e (declared_arg_type decls (fst a)))) as H.
    rewrite Forall_forall in H. apply H, Hx.
  Qed.

  Lemma annot_arguments_rel s decls args args' e : lperm pa args args' ->
    PermR raev (annot_arguments s decls args e) (annot_arguments s decls args' e).
  Proof.
    intro H. apply PermR_plain; [apply annot_arguments_plain|].
    unfold annot_arguments. apply perm_flat_map, (lperm_perm pa), H.
  Qed.

  Lemma raev_mk n n' e : rnode n n' -> raev (Enter n, e) (Enter n', e) /\ raev (Leave n, e) (Leave n', e).
  Proof. intro H. split; (split; [constructor; exact H|reflexivity]). Qed.

  Lemma annot_directives_rel s dirs dirs' e : rdirs dirs dirs' ->
    PermR raev (annot_directives s dirs e) (annot_directives s dirs' e).
  Proof.
    intro H. unfold annot_directives. apply (F2_flat_map rdir). eapply Forall2_impl_in; [|exact H].
    intros x y _ Hxy. destruct (raev_mk _ _ e (RNDirective _ _ Hxy)) as [H1 H2].
    apply PermR_cons; [exact H1|]. apply PermR_app; [|apply PermR_one, H2].
    destruct Hxy as [p n args args' Ha]. cbn [d_name d_args]. apply annot_arguments_rel, Ha.
  Qed.

  Lemma annot_vardefs_rel s vars vars' e : lperm pv vars vars' ->
    PermR raev (annot_vardefs s vars e) (annot_vardefs s vars' e).
  Proof.
    intro H. apply PermR_plain; [|unfold annot_vardefs; apply perm_flat_map, (lperm_perm pv), H].
    unfold annot_vardefs. apply Forall_forall. intros x Hx. apply in_flat_map in Hx.
    destruct Hx as (v & _ & Hx). cbv beta zeta in Hx.
    destruct Hx as [<-|Hx]; [reflexivity|]. apply in_app_iff in Hx. destruct Hx as [Hx|[<-|[]]]; [|reflexivity].
    destruct (v_default v) as [dv|]; [|destruct Hx].
    pose proof (annot_value_plain s dv (expecting s e (Some (v_type v)))) as Hv.
    rewrite Forall_forall in Hv. apply Hv, Hx.
  Qed.

  Lemma rsel_sels_rsels x y : rsel x y -> rsels (sel_sels x) (sel_sels y).
  Proof.
    intro H. destruct H as [p al al' n args args' dirs dirs' sp sels m sels' Hal Ha Hd Hp Hf|p n dirs dirs' Hd
                           |p tc dirs dirs' sp sels m sels' Hd Hp Hf]; cbn [sel_sels].
    - exists m. split; assumption.
    - exists []. split; [apply lperm_refl|constructor].
    - exists m. split; assumption.
  Qed.

  Lemma annot_selection_rel s x : forall y e, rsel x y ->
    PermR raev (annot_selection s x e) (annot_selection s y e).
  Proof.
    induction x as [p al n args dirs sp sels IH|p n dirs|p tc dirs sp sels IH] using selection_ind';
      intros y e Hxy.
    - pose proof (rsel_sels_rsels _ _ Hxy) as Hss. cbn [sel_sels] in Hss.
      inversion Hxy as [p0 al0 al' n0 args0 args' dirs0 dirs' sp0 sels0 m sels' Hal Ha Hd Hp Hf| |]; subst.
      cbn [annot_selection]. cbv zeta.
      set (fdef := opt_bind (a_parent e) (fun t => field_by_name t n)).
      set (e1 := at_type s e (opt_map fd_type fdef)).
      destruct (raev_mk _ _ e1 (RNField _ _ Hxy)) as [H1 H2].
      destruct (raev_mk _ _ (in_selection_set (in_field e1 fdef)) (RNSelectionSet sp _ _ Hss)) as [H3 H4].
      apply PermR_cons; [exact H1|]. apply PermR_app; [apply annot_arguments_rel, Ha|].
      apply PermR_app; [apply annot_directives_rel, Hd|]. apply PermR_cons; [exact H3|].
      apply PermR_app; [|apply PermR_cons; [exact H4|apply PermR_one, H2]].
      apply (PermR_flat_map rsel); [apply rsels_PermR, Hss|].
      intros a b Ha' Hab. rewrite Forall_forall in IH. apply IH; assumption.
    - inversion Hxy as [|p0 n0 dirs0 dirs' Hd|]; subst. cbn [annot_selection].
      destruct (raev_mk _ _ e (RNSpread _ _ Hxy)) as [H1 H2].
      apply PermR_cons; [exact H1|]. apply PermR_app; [apply annot_directives_rel, Hd|apply PermR_one, H2].
    - pose proof (rsel_sels_rsels _ _ Hxy) as Hss. cbn [sel_sels] in Hss.
      inversion Hxy as [| |p0 tc0 dirs0 dirs' sp0 sels0 m sels' Hd Hp Hf]; subst.
      cbn [annot_selection]. cbv zeta.
      set (e1 := match tc with Some cond => at_type s e (Some (TNamed cond)) | None => e end).
      destruct (raev_mk _ _ e1 (RNInline _ _ Hxy)) as [H1 H2].
      destruct (raev_mk _ _ (in_selection_set e1) (RNSelectionSet sp _ _ Hss)) as [H3 H4].
      apply PermR_cons; [exact H1|].
      apply PermR_app; [apply annot_directives_rel, Hd|]. apply PermR_cons; [exact H3|].
      apply PermR_app; [|apply PermR_cons; [exact H4|apply PermR_one, H2]].
      apply (PermR_flat_map rsel); [apply rsels_PermR, Hss|].
      intros a b Ha' Hab. rewrite Forall_forall in IH. apply IH; assumption.
  Qed.

  Lemma annot_selection_set_rel s sp sels sels' e : rsels sels sels' ->
    PermR raev (annot_selection_set s sp sels e) (annot_selection_set s sp sels' e).
  Proof.
    intro H. unfold annot_selection_set.
    destruct (raev_mk _ _ (in_selection_set e) (RNSelectionSet sp _ _ H)) as [H3 H4].
    apply PermR_cons; [exact H3|]. apply PermR_app; [|apply PermR_one, H4].
    apply (PermR_flat_map rsel); [apply rsels_PermR, H|].
    intros a b _ Hab. apply annot_selection_rel, Hab.
  Qed.

  Lemma rop_fields o o' : rop o o' ->
    o_kind o = o_kind o' /\ o_pos o = o_pos o' /\ ren (o_name o) = o_name o' /\ o_span o = o_span o' /\
    lperm pv (o_vars o) (o_vars o') /\ rdirs (o_dirs o) (o_dirs o') /\ rsels (o_sels o) (o_sels o').
  Proof. intros []. cbn. repeat split; assumption. Qed.
  Lemma rfrag_fields f f' : rfrag f f' ->
    fr_pos f = fr_pos f' /\ fr_name f = fr_name f' /\ fr_tc f = fr_tc f' /\ fr_span f = fr_span f' /\
    rdirs (fr_dirs f) (fr_dirs f') /\ rsels (fr_sels f) (fr_sels f').
  Proof. intros []. cbn. repeat split; assumption. Qed.

  Lemma rop_vardefs o o' : rop o o' -> lperm pv (op_variable_definitions o) (op_variable_definitions o').
  Proof.
    intro H. destruct (rop_fields _ _ H) as (Hk & _ & _ & _ & Hv & _). unfold op_variable_definitions.
    rewrite <- Hk. destruct (o_kind o); [apply lperm_refl|exact Hv..].
  Qed.
  Lemma rop_directives o o' : rop o o' -> rdirs (op_directives o) (op_directives o').
  Proof.
    intro H. destruct (rop_fields _ _ H) as (Hk & _ & _ & _ & _ & Hd & _). unfold op_directives.
    rewrite <- Hk. destruct (o_kind o); [constructor|exact Hd..].
  Qed.
  Lemma rop_node_name o o' : ren None = None -> rop o o' -> ren (op_node_name o) = op_node_name o'.
  Proof.
    intros Hnone H. destruct (rop_fields _ _ H) as (Hk & _ & Hn & _). unfold op_node_name.
    rewrite <- Hk, <- Hn. destruct (o_kind o); [exact Hnone|reflexivity..].
  Qed.

  Lemma annot_definition_rel s x y e : rdef x y ->
    PermR raev (annot_definition s x e) (annot_definition s y e).
  Proof.
    intros [o o' H|f f' H]; cbn [annot_definition]; cbv zeta.
    - destruct (rop_fields _ _ H) as (Hk & _ & _ & Hsp & _ & _ & Hs). rewrite <- Hk, <- Hsp.
      set (e1 := at_type s e (opt_map (fun t => TNamed (td_name t)) (root s (o_kind o)))).
      destruct (raev_mk _ _ e1 (RNOperation _ _ H)) as [H1 H2].
      apply PermR_cons; [exact H1|]. apply PermR_app; [apply annot_directives_rel, rop_directives, H|].
      apply PermR_app; [apply annot_vardefs_rel, rop_vardefs, H|].
      apply PermR_app; [apply annot_selection_set_rel, Hs|apply PermR_one, H2].
    - destruct (rfrag_fields _ _ H) as (_ & _ & Htc & Hsp & Hd & Hs). rewrite <- Htc, <- Hsp.
      set (e1 := at_type s e (Some (TNamed (fr_tc f)))).
      destruct (raev_mk _ _ e1 (RNFragmentDef _ _ H)) as [H1 H2].
      apply PermR_cons; [exact H1|]. apply PermR_app; [apply annot_directives_rel, Hd|].
      apply PermR_app; [apply annot_selection_set_rel, Hs|apply PermR_one, H2].
  Qed.

  Lemma annot_rel s d d' : rdoc d d' -> PermR raev (annot s d) (annot s d').
  Proof.
    intro H. unfold annot. destruct (raev_mk _ _ env0 (RNDocument _ _ H)) as [H1 H2].
    apply PermR_cons; [exact H1|]. apply PermR_app; [|apply PermR_one, H2].
    apply (F2_flat_map rdef). eapply Forall2_impl_in; [|exact H].
    intros x y _ Hxy. apply annot_definition_rel, Hxy.
  Qed.
End Rel.

Inductive orel {A B} (R : A -> B -> Prop) : option A -> option B -> Prop :=
| ORSome x y : R x y -> orel R (Some x) (Some y)
| ORNone : orel R None None.

Lemma Forall2_rev' {A B} (R : A -> B -> Prop) l l' : Forall2 R l l' -> Forall2 R (rev l) (rev l').
Proof.
  induction 1 as [|x y l l' Hxy _ IH]; cbn [rev]; [constructor|].
  apply Forall2_app; [exact IH|constructor; [exact Hxy|constructor]].
Qed.

Lemma Forall2_map_eq {A B C} (R : A -> B -> Prop) (g : A -> C) (g' : B -> C) l l' :
  Forall2 R l l' -> (forall x y, R x y -> g x = g' y) -> map g l = map g' l'.
Proof.
  intros H Hg. induction H as [|x y l l' Hxy _ IH]; cbn [map]; [reflexivity|].
  rewrite (Hg x y Hxy), IH. reflexivity.
Qed.

Lemma Forall2_flat_map_eq {A B C} (R : A -> B -> Prop) (g : A -> list C) (g' : B -> list C) l l' :
  Forall2 R l l' -> (forall x y, R x y -> g x = g' y) -> flat_map g l = flat_map g' l'.
Proof.
  intros H Hg. induction H as [|x y l l' Hxy _ IH]; cbn [flat_map]; [reflexivity|].
  rewrite (Hg x y Hxy), IH. reflexivity.
Qed.

Lemma F2_length {A B} (R : A -> B -> Prop) l l' : Forall2 R l l' -> List.length l = List.length l'.
Proof. induction 1 as [|x y l l' _ _ IH]; [reflexivity|]. cbn [List.length]. rewrite IH. reflexivity. Qed.

Lemma PermR_eq_refl {A} (l : list A) : PermR eq l l.
Proof. apply PermR_perm, Permutation_refl. Qed.

Lemma nodup_names_map_inj (fo : name -> name) l :
  (forall a b, In a l -> In b l -> fo a = fo b -> a = b) -> nodup_names (map fo l) = nodup_names l.
Proof.
  intro Hinj. apply bool_iff_eq. rewrite !nodup_names_iff. split.
  - apply NoDup_map_inv.
  - intro H. induction H as [|x l Hx Hl IH]; cbn [map]; constructor.
    + intro Hin. apply in_map_iff in Hin. destruct Hin as (y & Hy & Hyl).
      assert (y = x) by (apply Hinj; [right; exact Hyl|left; reflexivity|exact Hy]). subst y. contradiction.
    + apply IH. intros a b Ha Hb. apply Hinj; right; assumption.
Qed.

Section DocRel.
  Variable ren : option name -> option name.
  Variable hk : option (name -> name).
  Variables pa pv ps : bool.
  Notation rdir := (rdir pa).
  Notation rdirs := (rdirs pa).
  Notation rsel := (rsel hk pa ps).
  Notation rsels := (rsels hk pa ps).
  Notation rop := (rop ren hk pa pv ps).
  Notation rfrag := (rfrag hk pa ps).
  Notation rdef := (rdef ren hk pa pv ps).
  Notation rdoc := (rdoc ren hk pa pv ps).
  Notation raev := (raev ren hk pa pv ps).

  (* ---------------------------------------------------------------- structure *)
  Lemma rdoc_frags d d' : rdoc d d' -> Forall2 rfrag (fragments_of d) (fragments_of d').
  Proof.
    induction 1 as [|x y d d' Hxy _ IH]; cbn [fragments_of flat_map]; [constructor|].
    destruct Hxy as [o o' H|f f' H]; cbn [app]; [exact IH|constructor; assumption].
  Qed.
  Lemma rdoc_ops d d' : rdoc d d' -> Forall2 rop (operations_of d) (operations_of d').
  Proof.
    induction 1 as [|x y d d' Hxy _ IH]; cbn [operations_of flat_map]; [constructor|].
    destruct Hxy as [o o' H|f f' H]; cbn [app]; [constructor; assumption|exact IH].
  Qed.

  Lemma rsel_name x y : rsel x y -> sel_name x = sel_name y.
  Proof. intros []; reflexivity. Qed.
  Lemma rsel_args x y : rsel x y -> Permutation (sel_args x) (sel_args y).
  Proof. intros []; cbn [sel_args]; try apply Permutation_refl. eapply lperm_perm; eassumption. Qed.
  Lemma rsel_dirs x y : rsel x y -> rdirs (sel_dirs x) (sel_dirs y).
  Proof. intros []; cbn [sel_dirs]; assumption. Qed.
  Lemma rsel_key x y : rsel x y -> is_field_sel x = true ->
    field_response_key y = kmap hk (field_response_key x).
  Proof.
    intros [p al al' n args args' dirs dirs' sp sels m sels' Hal Ha Hd Hp Hf| |] Hx; try discriminate.
    unfold ralias in Hal. destruct hk as [h|]; cbn [kmap].
    - exact Hal.
    - subst al'. reflexivity.
  Qed.
  Lemma rsel_is_field x y : rsel x y -> is_field_sel x = is_field_sel y.
  Proof. intros []; reflexivity. Qed.
  Lemma rsel_pos x y : rsel x y -> node_pos x = node_pos y.
  Proof. intros []; reflexivity. Qed.

  Lemma sel_all_rel x : forall y, rsel x y -> PermR rsel (sel_all x) (sel_all y).
  Proof.
    induction x as [p al n args dirs sp sels IH|p n dirs|p tc dirs sp sels IH] using selection_ind';
      intros y Hxy; pose proof (rsel_sels_rsels _ _ _ _ _ Hxy) as Hss; cbn [sel_sels] in Hss;
      inversion Hxy; subst; cbn [sel_all sel_sels] in *; (apply PermR_cons; [exact Hxy|]);
      try apply PermR_nil;
      (apply (PermR_flat_map rsel); [apply rsels_PermR, Hss|]);
      intros a b Ha Hab; rewrite Forall_forall in IH; apply IH; assumption.
  Qed.
  Lemma sels_all_rel l l' : rsels l l' -> PermR rsel (sels_all l) (sels_all l').
  Proof.
    intro H. unfold sels_all. apply (PermR_flat_map rsel); [apply rsels_PermR, H|].
    intros a b _ Hab. apply sel_all_rel, Hab.
  Qed.

  Lemma rdef_sels x y : rdef x y -> rsels (def_sels x) (def_sels y).
  Proof.
    intros [o o' H|f f' H]; cbn [def_sels].
    - apply (rop_fields _ _ _ _ _ _ _ H).
    - apply (rfrag_fields _ _ _ _ _ H).
  Qed.

  Lemma doc_selections_rel d d' : rdoc d d' -> PermR rsel (doc_selections d) (doc_selections d').
  Proof.
    intro H. unfold doc_selections. apply (F2_flat_map rdef). eapply Forall2_impl_in; [|exact H].
    intros x y _ Hxy. apply sels_all_rel, rdef_sels, Hxy.
  Qed.

  Lemma spreads_in_rel l l' : rsels l l' -> Permutation (spreads_in l) (spreads_in l').
  Proof.
    intro H. apply PermR_eq_perm. unfold spreads_in.
    apply (PermR_flat_map rsel); [apply sels_all_rel, H|].
    intros x y _ []; apply PermR_eq_refl.
  Qed.

  Lemma spreads_in_app a b : spreads_in (a ++ b) = spreads_in a ++ spreads_in b.
  Proof. unfold spreads_in, sels_all. rewrite !flat_map_app. reflexivity. Qed.

  Lemma doc_spreads_rel d d' : rdoc d d' ->
    Permutation (spreads_in (flat_map def_sels d)) (spreads_in (flat_map def_sels d')).
  Proof.
    induction 1 as [|x y d d' Hxy _ IH]; cbn [flat_map]; [apply Permutation_refl|].
    rewrite !spreads_in_app. apply Permutation_app; [apply spreads_in_rel, rdef_sels, Hxy|exact IH].
  Qed.

  Lemma args_vars_perm (a a' : list argument) : Permutation a a' ->
    Permutation (flat_map (fun x : argument => var_leaves (snd x)) a) (flat_map (fun x : argument => var_leaves (snd x)) a').
  Proof. apply perm_flat_map. Qed.

  Lemma rdir_fields x y : rdir x y -> d_pos x = d_pos y /\ d_name x = d_name y /\ Permutation (d_args x) (d_args y).
  Proof. intros [p n a a' H]. cbn. repeat split. eapply lperm_perm, H. Qed.

  Lemma dirs_vars_rel dirs dirs' : rdirs dirs dirs' -> Permutation (dirs_vars dirs) (dirs_vars dirs').
  Proof.
    induction 1 as [|x y l l' Hxy _ IH]; cbn [dirs_vars flat_map]; [apply Permutation_refl|].
    apply Permutation_app; [|exact IH]. apply args_vars_perm, (rdir_fields _ _ Hxy).
  Qed.

  Lemma sels_vars_rel l l' : rsels l l' -> Permutation (sels_vars l) (sels_vars l').
  Proof.
    intro H. apply PermR_eq_perm. unfold sels_vars.
    apply (PermR_flat_map rsel); [apply sels_all_rel, H|].
    intros x y _ Hxy. apply PermR_perm, Permutation_app.
    - apply args_vars_perm, rsel_args, Hxy.
    - apply dirs_vars_rel, rsel_dirs, Hxy.
  Qed.

  Section Doc.
    Variables (s : sdocument) (d d' : document).
    Hypothesis Hd : rdoc d d'.

    Lemma frag_names_rel : frag_names d = frag_names d'.
    Proof.
      unfold frag_names. apply (Forall2_map_eq rfrag); [apply rdoc_frags, Hd|].
      intros f f' H. apply (rfrag_fields _ _ _ _ _ H).
    Qed.
    Lemma frags_length_rel : List.length (fragments_of d) = List.length (fragments_of d').
    Proof. eapply F2_length, rdoc_frags, Hd. Qed.

    Lemma find_fragment_rel n : orel rfrag (find_fragment d n) (find_fragment d' n).
    Proof.
      unfold find_fragment. pose proof (Forall2_rev' _ _ _ (rdoc_frags _ _ Hd)) as H.
      induction H as [|f f' l l' Hf _ IH]; cbn [find_first]; [constructor|].
      destruct (rfrag_fields _ _ _ _ _ Hf) as (_ & Hn & _). rewrite <- Hn.
      destruct (name_eqb (fr_name f) n); [constructor; exact Hf|exact IH].
    Qed.

    Lemma fragment_spreads_rel n : Permutation (fragment_spreads d n) (fragment_spreads d' n).
    Proof.
      apply PermR_eq_perm. unfold fragment_spreads. apply (F2_flat_map rfrag).
      eapply Forall2_impl_in; [|apply rdoc_frags, Hd]. intros f f' _ Hf.
      destruct (rfrag_fields _ _ _ _ _ Hf) as (_ & Hn & _ & _ & _ & Hs). rewrite <- Hn.
      destruct (name_eqb (fr_name f) n); [|apply PermR_nil]. apply PermR_perm, spreads_in_rel, Hs.
    Qed.
    Lemma fragment_vars_rel n : Permutation (fragment_vars d n) (fragment_vars d' n).
    Proof.
      apply PermR_eq_perm. unfold fragment_vars. apply (F2_flat_map rfrag).
      eapply Forall2_impl_in; [|apply rdoc_frags, Hd]. intros f f' _ Hf.
      destruct (rfrag_fields _ _ _ _ _ Hf) as (_ & Hn & _ & _ & Hdi & Hs). rewrite <- Hn.
      destruct (name_eqb (fr_name f) n); [|apply PermR_nil].
      apply PermR_perm, Permutation_app; [apply dirs_vars_rel, Hdi|apply sels_vars_rel, Hs].
    Qed.

    Lemma spread_closure_rel k : forall set set', eqset set set' ->
      eqset (spread_closure k d set) (spread_closure k d' set').
    Proof.
      induction k as [|k IH]; intros set set' H; cbn [spread_closure]; [exact H|].
      apply IH, dedup_eqset_congr, eqset_app; [exact H|].
      apply eqset_flat_map; [exact H|]. intros n _. apply perm_eqset, fragment_spreads_rel.
    Qed.

    (* operation names are rewritten by fo, injective on the operation names of d *)
    Variable fo : name -> name.
    Hypothesis Hren : forall n, ren n = opt_map fo n.
    Hypothesis Hinj : forall a b, In a (named_operation_names d) -> In b (named_operation_names d) ->
                                  fo a = fo b -> a = b.

    Lemma rop_node_name_fo o o' : rop o o' -> op_node_name o' = opt_map fo (op_node_name o).
    Proof. intro H. rewrite <- Hren. symmetry. apply (rop_node_name ren hk pa pv ps); [apply (Hren None)|exact H]. Qed.

    Lemma named_operation_names_rel : named_operation_names d' = map fo (named_operation_names d).
    Proof.
      unfold named_operation_names. pose proof (rdoc_ops _ _ Hd) as H.
      induction H as [|o o' l l' Ho _ IH]; [reflexivity|]. cbn [flat_map]. rewrite map_app, IH. f_equal.
      rewrite (rop_node_name_fo _ _ Ho). destruct (op_node_name o); reflexivity.
    Qed.

    Lemma r_unique_operation_names : v_unique_operation_names d = v_unique_operation_names d'.
    Proof.
      unfold v_unique_operation_names. rewrite named_operation_names_rel. f_equal. symmetry.
      apply nodup_names_map_inj, Hinj.
    Qed.
    Lemma r_lone_anonymous : v_lone_anonymous d = v_lone_anonymous d'.
    Proof.
      unfold v_lone_anonymous. rewrite (F2_length _ _ _ (rdoc_ops _ _ Hd)). f_equal.
      apply (F2_existsb rop). eapply Forall2_impl_in; [|apply rdoc_ops, Hd].
      intros o o' _ H. rewrite (rop_node_name_fo _ _ H). destruct (op_node_name o); reflexivity.
    Qed.
    Lemma r_unique_fragment_names : v_unique_fragment_names d = v_unique_fragment_names d'.
    Proof. unfold v_unique_fragment_names. rewrite frag_names_rel. reflexivity. Qed.
    Lemma r_known_fragment_names : v_known_fragment_names d = v_known_fragment_names d'.
    Proof.
      unfold v_known_fragment_names. rewrite frag_names_rel. apply existsb_perm, doc_spreads_rel, Hd.
    Qed.

    Lemma ops_spreads_rel :
      Permutation (flat_map (fun o => spreads_in (o_sels o)) (operations_of d))
                  (flat_map (fun o => spreads_in (o_sels o)) (operations_of d')).
    Proof.
      apply PermR_eq_perm. apply (F2_flat_map rop). eapply Forall2_impl_in; [|apply rdoc_ops, Hd].
      intros o o' _ H. apply PermR_perm, spreads_in_rel, (rop_fields _ _ _ _ _ _ _ H).
    Qed.

    Lemma r_no_unused_fragments : v_no_unused_fragments d = v_no_unused_fragments d'.
    Proof.
      unfold v_no_unused_fragments. rewrite frag_names_rel. apply existsb_eqset; [apply eqset_refl|].
      intros n _. f_equal. apply mem_name_eqset. unfold reachable_from_operations. rewrite frags_length_rel.
      apply spread_closure_rel, dedup_eqset_congr, perm_eqset, ops_spreads_rel.
    Qed.
    Lemma r_no_fragment_cycles : v_no_fragment_cycles d = v_no_fragment_cycles d'.
    Proof.
      unfold v_no_fragment_cycles. rewrite frag_names_rel. apply existsb_eqset; [apply eqset_refl|].
      intros n _. rewrite frags_length_rel. apply mem_name_eqset, spread_closure_rel, dedup_eqset_congr.
      apply perm_eqset, fragment_spreads_rel.
    Qed.

    (* ---- type names ---- *)
    Lemma type_conditions_rel : Permutation (type_conditions d) (type_conditions d').
    Proof.
      unfold type_conditions. apply Permutation_app.
      - rewrite (Forall2_map_eq rfrag fr_tc fr_tc _ _ (rdoc_frags _ _ Hd)); [apply Permutation_refl|].
        intros f f' H. apply (rfrag_fields _ _ _ _ _ H).
      - apply PermR_eq_perm. apply (PermR_flat_map rsel); [apply doc_selections_rel, Hd|].
        intros x y _ []; apply PermR_eq_refl.
    Qed.
    Lemma variable_types_rel : Permutation (variable_types d) (variable_types d').
    Proof.
      apply PermR_eq_perm. unfold variable_types. apply (F2_flat_map rop).
      eapply Forall2_impl_in; [|apply rdoc_ops, Hd]. intros o o' _ H.
      apply PermR_perm, Permutation_map, (lperm_perm pv), (rop_vardefs ren hk pa pv ps), H.
    Qed.
    Lemma r_known_type_names : v_known_type_names s d = v_known_type_names s d'.
    Proof.
      unfold v_known_type_names. apply existsb_perm, Permutation_app; [apply type_conditions_rel|].
      apply Permutation_map, variable_types_rel.
    Qed.
    Lemma r_fragments_on_composite : v_fragments_on_composite s d = v_fragments_on_composite s d'.
    Proof. unfold v_fragments_on_composite. apply existsb_perm, type_conditions_rel. Qed.
    Lemma r_variables_are_input_types : v_variables_are_input_types s d = v_variables_are_input_types s d'.
    Proof. unfold v_variables_are_input_types. apply existsb_perm, variable_types_rel. Qed.

    (* ---- variables ---- *)
    Lemma op_var_names_rel o o' : rop o o' -> Permutation (op_var_names o) (op_var_names o').
    Proof. intro H. unfold op_var_names. apply Permutation_map, (lperm_perm pv), (rop_vardefs ren hk pa pv ps), H. Qed.

    Lemma op_reachable_rel o o' : rop o o' ->
      eqset (op_reachable_fragments d o) (op_reachable_fragments d' o').
    Proof.
      intro H. unfold op_reachable_fragments. rewrite frags_length_rel.
      apply spread_closure_rel, dedup_eqset_congr, perm_eqset, spreads_in_rel, (rop_fields _ _ _ _ _ _ _ H).
    Qed.
    Lemma vars_used_rel o o' : rop o o' -> eqset (vars_used_in_op d o) (vars_used_in_op d' o').
    Proof.
      intro H. unfold vars_used_in_op. apply eqset_app; [|apply eqset_app].
      - apply perm_eqset, dirs_vars_rel, (rop_directives ren hk pa pv ps), H.
      - apply perm_eqset, sels_vars_rel, (rop_fields _ _ _ _ _ _ _ H).
      - apply eqset_flat_map; [apply op_reachable_rel, H|]. intros n _. apply perm_eqset, fragment_vars_rel.
    Qed.

    Lemma r_unique_variable_names : v_unique_variable_names d = v_unique_variable_names d'.
    Proof.
      unfold v_unique_variable_names. apply (F2_existsb rop). eapply Forall2_impl_in; [|apply rdoc_ops, Hd].
      intros o o' _ H. rewrite (nodup_names_perm _ _ (op_var_names_rel _ _ H)). reflexivity.
    Qed.
    Lemma r_no_undefined_variables : v_no_undefined_variables d = v_no_undefined_variables d'.
    Proof.
      unfold v_no_undefined_variables. apply (F2_existsb rop). eapply Forall2_impl_in; [|apply rdoc_ops, Hd].
      intros o o' _ H. apply existsb_eqset; [apply vars_used_rel, H|].
      intros x _. rewrite (mem_name_eqset x _ _ (perm_eqset _ _ (op_var_names_rel _ _ H))). reflexivity.
    Qed.
    Lemma r_no_unused_variables : v_no_unused_variables d = v_no_unused_variables d'.
    Proof.
      unfold v_no_unused_variables. apply (F2_existsb rop). eapply Forall2_impl_in; [|apply rdoc_ops, Hd].
      intros o o' _ H. apply existsb_eqset; [apply perm_eqset, op_var_names_rel, H|].
      intros x _. rewrite (mem_name_eqset x _ _ (vars_used_rel _ _ H)). reflexivity.
    Qed.
      (* ---- the annotation ---- *)
    Definition rfe (x y : selection * env) : Prop := rsel (fst x) (fst y) /\ snd x = snd y.

    Lemma field_events_rel : PermR rfe (field_events s d) (field_events s d').
    Proof.
      unfold field_events. apply (PermR_flat_map raev); [apply annot_rel, Hd|].
      intros [ev e] [ev' e'] _ [Hev He]. cbn [fst snd] in *. subst e'.
      destruct Hev as [n n' Hn|n n' Hn]; [|apply PermR_nil].
      destruct Hn; try apply PermR_nil.
      - apply PermR_one. split; [assumption|reflexivity].
      - destruct n; try discriminate; apply PermR_nil.
    Qed.
    Lemma directive_events_rel : PermR rdir (directive_events s d) (directive_events s d').
    Proof.
      unfold directive_events. apply (PermR_flat_map raev); [apply annot_rel, Hd|].
      intros [ev e] [ev' e'] _ [Hev He]. cbn [fst snd] in *. subst e'.
      destruct Hev as [n n' Hn|n n' Hn]; [|apply PermR_nil].
      destruct Hn; try apply PermR_nil.
      - apply PermR_one. assumption.
      - destruct n; try discriminate; apply PermR_nil.
    Qed.
    Lemma literal_positions_rel : Permutation (literal_positions s d) (literal_positions s d').
    Proof.
      apply PermR_eq_perm. unfold literal_positions. apply (PermR_flat_map raev); [apply annot_rel, Hd|].
      intros [ev e] [ev' e'] _ [Hev He]. cbn [fst snd] in *. subst e'.
      destruct Hev as [n n' Hn|n n' Hn]; [|apply PermR_nil].
      destruct Hn; try apply PermR_nil. apply PermR_eq_refl.
    Qed.
    Definition rss (x y : option type_def * list selection) : Prop := fst x = fst y /\ rsels (snd x) (snd y).
    Lemma selection_sets_rel : PermR rss (selection_sets s d) (selection_sets s d').
    Proof.
      unfold selection_sets. apply (PermR_flat_map raev); [apply annot_rel, Hd|].
      intros [ev e] [ev' e'] _ [Hev He]. cbn [fst snd] in *. subst e'.
      destruct Hev as [n n' Hn|n n' Hn]; [|apply PermR_nil].
      destruct Hn; try apply PermR_nil.
      - apply PermR_one. split; [reflexivity|assumption].
      - destruct n; try discriminate; apply PermR_nil.
    Qed.

    Lemma rsel_sels_nil x y : rsel x y ->
      match sel_sels x with [] => true | _ => false end = match sel_sels y with [] => true | _ => false end.
    Proof.
      intro H. apply rsel_sels_rsels, rsels_PermR, PermR_length in H.
      destruct (sel_sels x), (sel_sels y); try reflexivity; discriminate.
    Qed.

    Lemma r_leaf_field_selections : v_leaf_field_selections s d = v_leaf_field_selections s d'.
    Proof.
      unfold v_leaf_field_selections. apply (PermR_existsb rfe); [apply field_events_rel|].
      intros [f e] [f' e'] _ [Hf He]. cbn [fst snd] in *. subst e'.
      rewrite (rsel_sels_nil _ _ Hf), (rsel_name _ _ Hf). reflexivity.
    Qed.

    Lemma root_typename_fields_of_rel x : forall y, rsel x y ->
      PermR rsel (root_typename_fields_of x) (root_typename_fields_of y).
    Proof.
      induction x as [p al n args dirs sp sels IH|p n dirs|p tc dirs sp sels IH] using selection_ind';
        intros y Hxy.
      - inversion Hxy; subst. cbn [root_typename_fields_of].
        destruct (name_eqb n "__typename"); [apply PermR_one, Hxy|apply PermR_nil].
      - inversion Hxy; subst. apply PermR_nil.
      - pose proof (rsel_sels_rsels _ _ _ _ _ Hxy) as Hss. cbn [sel_sels] in Hss.
        inversion Hxy; subst. cbn [root_typename_fields_of].
        destruct tc as [tc|]; [apply PermR_nil|].
        apply (PermR_flat_map rsel); [apply rsels_PermR, Hss|].
        intros a b Ha Hab. rewrite Forall_forall in IH. apply IH; assumption.
    Qed.
    Lemma root_typename_fields_rel l l' : rsels l l' ->
      PermR rsel (root_typename_fields l) (root_typename_fields l').
    Proof.
      intro H. unfold root_typename_fields. apply (PermR_flat_map rsel); [apply rsels_PermR, H|].
      intros a b _ Hab. apply root_typename_fields_of_rel, Hab.
    Qed.

    Lemma r_fields_on_correct_type : v_fields_on_correct_type s d = v_fields_on_correct_type s d'.
    Proof.
      unfold v_fields_on_correct_type. f_equal.
      - apply (PermR_existsb rfe); [apply field_events_rel|].
        intros [f e] [f' e'] _ [Hf He]. cbn [fst snd] in *. subst e'. rewrite (rsel_name _ _ Hf). reflexivity.
      - apply (F2_existsb rop). eapply Forall2_impl_in; [|apply rdoc_ops, Hd]. intros o o' _ H.
        destruct (rop_fields _ _ _ _ _ _ _ H) as (Hk & _ & _ & _ & _ & _ & Hs). rewrite <- Hk.
        destruct (o_kind o); try reflexivity.
        apply root_typename_fields_rel, PermR_length in Hs.
        destruct (root_typename_fields (o_sels o)), (root_typename_fields (o_sels o')); try reflexivity; discriminate.
    Qed.

    Lemma r_possible_fragment_spreads : v_possible_fragment_spreads s d = v_possible_fragment_spreads s d'.
    Proof.
      unfold v_possible_fragment_spreads. apply (PermR_existsb raev); [apply annot_rel, Hd|].
      intros [ev e] [ev' e'] _ [Hev He]. cbn [fst snd] in *. subst e'.
      destruct Hev as [n n' Hn|n n' Hn]; [|reflexivity].
      destruct Hn as [| | | | | |x x' Hx| |n Hn]; try reflexivity.
      - destruct Hx as [|p n dirs dirs' Hdi|]; try reflexivity.
        destruct (find_fragment_rel n) as [f f' Hf|]; [|reflexivity].
        destruct (rfrag_fields _ _ _ _ _ Hf) as (_ & _ & Htc & _). rewrite Htc. reflexivity.
      - destruct n; try discriminate; reflexivity.
    Qed.

    (* ---- arguments ---- *)
    Lemma args_unknown_perm decls (a a' : list argument) : Permutation a a' ->
      v_args_unknown decls a = v_args_unknown decls a'.
    Proof. intro H. destruct decls as [ds|]; [|reflexivity]. cbn [v_args_unknown]. apply existsb_perm, H. Qed.
    Lemma args_missing_perm decls (a a' : list argument) : Permutation a a' ->
      v_args_missing decls a = v_args_missing decls a'.
    Proof.
      intro H. destruct decls as [ds|]; [|reflexivity]. cbn [v_args_missing].
      apply existsb_eqset; [apply eqset_refl|]. intros x _. rewrite (existsb_perm _ _ _ H). reflexivity.
    Qed.
    Lemma args_duplicated_perm (a a' : list argument) : Permutation a a' ->
      v_args_duplicated a = v_args_duplicated a'.
    Proof. intro H. unfold v_args_duplicated. rewrite (nodup_names_perm _ _ (Permutation_map fst H)). reflexivity. Qed.

    Lemma rfe_decls x y : rfe x y -> field_decls x = field_decls y.
    Proof. intros [Hf He]. unfold field_decls. rewrite He, (rsel_name _ _ Hf). reflexivity. Qed.
    Lemma rdir_decls x y : rdir x y -> directive_decls s x = directive_decls s y.
    Proof. intro H. unfold directive_decls. destruct (rdir_fields _ _ H) as (_ & -> & _). reflexivity. Qed.

    Lemma r_known_argument_names : v_known_argument_names s d = v_known_argument_names s d'.
    Proof.
      unfold v_known_argument_names. f_equal.
      - apply (PermR_existsb rfe); [apply field_events_rel|]. intros x y _ H.
        rewrite (rfe_decls _ _ H). apply args_unknown_perm, rsel_args, H.
      - apply (PermR_existsb rdir); [apply directive_events_rel|]. intros x y _ H.
        rewrite (rdir_decls _ _ H). apply args_unknown_perm, (rdir_fields _ _ H).
    Qed.
    Lemma r_unique_argument_names : v_unique_argument_names s d = v_unique_argument_names s d'.
    Proof.
      unfold v_unique_argument_names. f_equal.
      - apply (PermR_existsb rfe); [apply field_events_rel|]. intros x y _ H.
        apply args_duplicated_perm, rsel_args, H.
      - apply (PermR_existsb rdir); [apply directive_events_rel|]. intros x y _ H.
        apply args_duplicated_perm, (rdir_fields _ _ H).
    Qed.
    Lemma r_provided_required_arguments : v_provided_required_arguments s d = v_provided_required_arguments s d'.
    Proof.
      unfold v_provided_required_arguments. f_equal.
      - apply (PermR_existsb rfe); [apply field_events_rel|]. intros x y _ H.
        rewrite (rfe_decls _ _ H). apply args_missing_perm, rsel_args, H.
      - apply (PermR_existsb rdir); [apply directive_events_rel|]. intros x y _ H.
        rewrite (rdir_decls _ _ H). apply args_missing_perm, (rdir_fields _ _ H).
    Qed.

    (* ---- directives ---- *)
    Definition rsite (x y : dir_loc * list directive) : Prop := fst x = fst y /\ rdirs (snd x) (snd y).

    Lemma sel_directive_sites_rel x : forall y, rsel x y ->
      PermR rsite (sel_directive_sites x) (sel_directive_sites y).
    Proof.
      induction x as [p al n args dirs sp sels IH|p n dirs|p tc dirs sp sels IH] using selection_ind';
        intros y Hxy; pose proof (rsel_sels_rsels _ _ _ _ _ Hxy) as Hss; pose proof (rsel_dirs _ _ Hxy) as Hdi;
        cbn [sel_sels sel_dirs] in Hss, Hdi;
        inversion Hxy; subst; cbn [sel_directive_sites sel_sels sel_dirs] in *;
        (apply PermR_cons; [split; [reflexivity|exact Hdi]|]); try apply PermR_nil;
        (apply (PermR_flat_map rsel); [apply rsels_PermR, Hss|]);
        intros a b Ha Hab; rewrite Forall_forall in IH; apply IH; assumption.
    Qed.
    Lemma sels_directive_sites_rel l l' : rsels l l' ->
      PermR rsite (flat_map sel_directive_sites l) (flat_map sel_directive_sites l').
    Proof.
      intro H. apply (PermR_flat_map rsel); [apply rsels_PermR, H|].
      intros a b _ Hab. apply sel_directive_sites_rel, Hab.
    Qed.
    Lemma directive_sites_rel : PermR rsite (directive_sites d) (directive_sites d').
    Proof.
      unfold directive_sites. apply (F2_flat_map rdef). eapply Forall2_impl_in; [|exact Hd].
      intros x y _ [o o' H|f f' H].
      - destruct (rop_fields _ _ _ _ _ _ _ H) as (Hk & _ & _ & _ & _ & _ & Hs). rewrite <- Hk.
        apply PermR_cons; [split; [reflexivity|apply (rop_directives ren hk pa pv ps), H]|].
        apply sels_directive_sites_rel, Hs.
      - destruct (rfrag_fields _ _ _ _ _ H) as (_ & _ & _ & _ & Hdi & Hs).
        apply PermR_cons; [split; [reflexivity|exact Hdi]|]. apply sels_directive_sites_rel, Hs.
    Qed.

    Lemma r_known_directives : v_known_directives s d = v_known_directives s d'.
    Proof.
      unfold v_known_directives. apply (PermR_existsb rsite); [apply directive_sites_rel|].
      intros [loc ds] [loc' ds'] _ [Hl Hds]. cbn [fst snd] in *. subst loc'.
      apply (F2_existsb rdir). eapply Forall2_impl_in; [|exact Hds]. intros x y _ H.
      destruct (rdir_fields _ _ H) as (_ & -> & _). reflexivity.
    Qed.
    Lemma r_unique_directives_per_location :
      v_unique_directives_per_location s d = v_unique_directives_per_location s d'.
    Proof.
      unfold v_unique_directives_per_location. apply (PermR_existsb rsite); [apply directive_sites_rel|].
      intros [loc ds] [loc' ds'] _ [Hl Hds]. cbn [fst snd] in *. f_equal. f_equal.
      apply (Forall2_flat_map_eq rdir); [exact Hds|]. intros x y H.
      destruct (rdir_fields _ _ H) as (_ & -> & _). reflexivity.
    Qed.

    (* ---- values ---- *)
    Lemma r_values_of_correct_type : v_values_of_correct_type s d = v_values_of_correct_type s d'.
    Proof. unfold v_values_of_correct_type. apply existsb_perm, literal_positions_rel. Qed.

    Lemma args_usages_perm decls (a a' : list argument) : Permutation a a' ->
      Permutation (args_usages s decls a) (args_usages s decls a').
    Proof. apply perm_flat_map. Qed.

    Lemma definition_usages_rel x y : rdef x y ->
      Permutation (definition_usages s x) (definition_usages s y).
    Proof.
      intro H. apply PermR_eq_perm. unfold definition_usages.
      apply (PermR_flat_map raev); [apply annot_definition_rel, H|].
      intros [ev e] [ev' e'] _ [Hev He]. cbn [fst snd] in *. subst e'.
      destruct Hev as [n n' Hn|n n' Hn]; [|apply PermR_nil].
      destruct Hn as [| | |a a' Hx| |a a' Hx| | |n Hn]; try apply PermR_nil.
      - rewrite (rdir_decls _ _ Hx). apply PermR_perm, args_usages_perm, (rdir_fields _ _ Hx).
      - assert (Hfe : rfe (a, e) (a', e)) by (split; [exact Hx|reflexivity]).
        rewrite (rfe_decls _ _ Hfe). apply PermR_perm, args_usages_perm, rsel_args, Hx.
      - apply PermR_eq_refl.
    Qed.

    Lemma op_usages_rel o o' : rop o o' -> eqset (op_usages s d o) (op_usages s d' o').
    Proof.
      intro H. unfold op_usages. apply eqset_app.
      - apply perm_eqset, definition_usages_rel. constructor. exact H.
      - apply eqset_flat_map; [apply op_reachable_rel, H|]. intros n _.
        apply perm_eqset, PermR_eq_perm. apply (F2_flat_map rfrag).
        eapply Forall2_impl_in; [|apply rdoc_frags, Hd]. intros f f' _ Hf.
        destruct (rfrag_fields _ _ _ _ _ Hf) as (_ & Hn & _). rewrite <- Hn.
        destruct (name_eqb (fr_name f) n); [|apply PermR_nil].
        apply PermR_perm, definition_usages_rel. constructor. exact Hf.
    Qed.

    Lemma r_variables_in_allowed_position :
      (pv = true -> v_unique_variable_names d = false) ->
      v_variables_in_allowed_position s d = v_variables_in_allowed_position s d'.
    Proof.
      intro Hu. unfold v_variables_in_allowed_position.
      apply (F2_existsb rop). apply Forall2_impl_in with (R := rop); [|apply rdoc_ops, Hd].
      intros o o' Ho H. apply existsb_eqset; [apply op_usages_rel, H|]. intros [[x lt] ld] _.
      assert (E : find_first (fun vd => name_eqb (v_name vd) x) (op_variable_definitions o) =
                  find_first (fun vd => name_eqb (v_name vd) x) (op_variable_definitions o')).
      { pose proof (rop_vardefs ren hk pa pv ps _ _ H) as Hv. destruct pv; cbn [lperm] in Hv; [|rewrite Hv; reflexivity].
        specialize (Hu eq_refl). unfold v_unique_variable_names in Hu.
        assert (Hn : nodup_names (op_var_names o) = true).
        { destruct (nodup_names (op_var_names o)) eqn:E; [reflexivity|].
          assert (existsb (fun o => negb (nodup_names (op_var_names o))) (operations_of d) = true).
          { apply existsb_exists. exists o. split; [exact Ho|rewrite E; reflexivity]. }
          congruence. }
        apply (find_first_key_eqset v_name); [exact Hn| |apply perm_eqset, Hv].
        rewrite <- Hn. apply nodup_names_perm, Permutation_map, Permutation_sym, Hv. }
      rewrite E. reflexivity.
    Qed.
  End Doc.
End DocRel.

(* ------------------------------------------------------------------ depth-first collection through
   named fragments, each expanded at most once: what it returns does not depend on the order *)
Inductive atom (X : Type) : Type := AField (x : X) | ASpread (n : name).
Arguments AField {X} x.
Arguments ASpread {X} n.

Lemma mem_name_app n a b : mem_name n (a ++ b) = mem_name n a || mem_name n b.
Proof. unfold mem_name. apply existsb_app. Qed.
Lemma mem_name_cons n x a : mem_name n (x :: a) = name_eqb n x || mem_name n a.
Proof. reflexivity. Qed.
Lemma mem_false_notin x l : mem_name x l = false <-> ~ In x l.
Proof.
  split.
  - intros H Hin. apply mem_In in Hin. congruence.
  - intro H. destruct (mem_name x l) eqn:E; [|reflexivity]. apply mem_In in E. contradiction.
Qed.

Lemma NoDup_app' {A} (a b : list A) : NoDup a -> NoDup b -> (forall x, In x a -> ~ In x b) -> NoDup (a ++ b).
Proof.
  induction a as [|x a IH]; intros Ha Hb Hab; [exact Hb|]. cbn [app].
  inversion Ha as [|? ? Hx Ha']; subst. constructor.
  - rewrite in_app_iff. intros [H|H]; [contradiction|]. apply (Hab x); [left; reflexivity|exact H].
  - apply IH; [exact Ha'|exact Hb|]. intros y Hy. apply Hab. right. exact Hy.
Qed.

Section Dfs.
  Context {X : Type}.
  Variable body : name -> option (list (atom X)).

  Definition dstep (rec : list (atom X) -> list name -> list X * list name) (a : atom X) (v : list name)
    : list X * list name :=
    match a with
    | AField x => ([x], v)
    | ASpread n =>
        if mem_name n v then ([], v)
        else match body n with Some b => rec b (n :: v) | None => ([], n :: v) end
    end.
  Fixpoint dmany (rec : list (atom X) -> list name -> list X * list name) (l : list (atom X)) (v : list name)
    : list X * list name :=
    match l with
    | [] => ([], v)
    | a :: r => let '(i1, v1) := dstep rec a v in
                let '(i2, v2) := dmany rec r v1 in (i1 ++ i2, v2)
    end.
  Fixpoint dfs (fuel : nat) : list (atom X) -> list name -> list X * list name :=
    match fuel with
    | O => fun _ v => ([], v)
    | S f => dmany (dfs f)
    end.

  Lemma dmany_app rec a b v :
    dmany rec (a ++ b) v = let '(i1, v1) := dmany rec a v in
                           let '(i2, v2) := dmany rec b v1 in (i1 ++ i2, v2).
  Proof.
    revert v. induction a as [|x a IH]; intro v; cbn [app dmany].
    - destruct (dmany rec b v) as [i2 v2]. reflexivity.
    - destruct (dstep rec x v) as [i1 v1]. rewrite IH.
      destruct (dmany rec a v1) as [i2 v2]. destruct (dmany rec b v2) as [i3 v3].
      rewrite app_assoc. reflexivity.
  Qed.

  Definition succs (l : list (atom X)) : list name :=
    flat_map (fun a => match a with ASpread n => [n] | AField _ => [] end) l.
  Definition afields (l : list (atom X)) : list X :=
    flat_map (fun a => match a with AField x => [x] | ASpread _ => [] end) l.
  Definition nbody (n : name) : list (atom X) := match body n with Some b => b | None => [] end.
  Definition nsucc (n : name) : list name := succs (nbody n).

  (* reachable through names that are not in v *)
  Inductive reach (v : list name) : list name -> name -> Prop :=
  | reach_here L n : In n L -> mem_name n v = false -> reach v L n
  | reach_step L n m : In n L -> mem_name n v = false -> reach v (nsucc n) m -> reach v L m.

  Lemma reach_mono_L v L L' m : (forall n, In n L -> In n L') -> reach v L m -> reach v L' m.
  Proof.
    intros H Hr. inversion Hr as [L0 n Hn Hv|L0 n m0 Hn Hv Hr0]; subst.
    - apply reach_here; [apply H, Hn|exact Hv].
    - eapply reach_step; [apply H, Hn|exact Hv|exact Hr0].
  Qed.
  Lemma reach_mono_v v v' L m : (forall n, mem_name n v' = false -> mem_name n v = false) ->
    reach v' L m -> reach v L m.
  Proof.
    intros H Hr. induction Hr as [L n Hn Hv|L n m Hn Hv _ IH].
    - apply reach_here; [exact Hn|apply H, Hv].
    - eapply reach_step; [exact Hn|apply H, Hv|exact IH].
  Qed.
  Lemma reach_trans1 v L k m : reach v L k -> In m (nsucc k) -> mem_name m v = false -> reach v L m.
  Proof.
    intros Hr Hm Hv. induction Hr as [L n Hn Hnv|L n k Hn Hnv _ IH].
    - eapply reach_step; [exact Hn|exact Hnv|]. apply reach_here; assumption.
    - eapply reach_step; [exact Hn|exact Hnv|]. apply IH; assumption.
  Qed.
  Lemma reach_skip v n L m : mem_name n v = true -> reach v (n :: L) m -> reach v L m.
  Proof.
    intros Hv Hr. inversion Hr as [L0 k Hk Hkv|L0 k m0 Hk Hkv Hr0]; subst.
    - destruct Hk as [->|Hk]; [congruence|]. apply reach_here; assumption.
    - destruct Hk as [->|Hk]; [congruence|]. eapply reach_step; eassumption.
  Qed.
  Lemma reach_first v L m : reach v L m -> exists x, In x L /\ mem_name x v = false.
  Proof. intros [L0 x Hx Hxv|L0 x m0 Hx Hxv _]; exists x; split; assumption. Qed.
  Lemma reach_closed v W L m :
    (forall k, In k W -> forall x, In x (nsucc k) -> In x W \/ mem_name x v = true) ->
    reach v L m -> In m W \/ reach (W ++ v) L m.
  Proof.
    intros HW Hr. induction Hr as [L n Hn Hv|L n m Hn Hv _ IH].
    - destruct (mem_name n W) eqn:E; [left; apply mem_In, E|]. right. apply reach_here; [exact Hn|].
      rewrite mem_name_app, E, Hv. reflexivity.
    - destruct IH as [IH|IH]; [left; exact IH|].
      destruct (mem_name n W) eqn:E.
      + exfalso. apply mem_In in E.
        assert (Hfirst : exists x, In x (nsucc n) /\ mem_name x (W ++ v) = false).
        { apply reach_first in IH. exact IH. }
        destruct Hfirst as (x & Hx & Hxv). rewrite mem_name_app in Hxv. apply orb_false_iff in Hxv.
        destruct Hxv as [HxW Hxv]. destruct (HW n E x Hx) as [H|H]; [|congruence].
        apply mem_In in H. congruence.
      + right. eapply reach_step; [exact Hn| |exact IH]. rewrite mem_name_app, E, Hv. reflexivity.
  Qed.

  (* the fuel suffices as long as it exceeds the number of names with a body not yet visited *)
  Variable U : list name.
  Hypothesis HU : forall n b, body n = Some b -> In n U.
  Definition unvisited (v : list name) : nat := List.length (filter (fun k => negb (mem_name k v)) U).

  Lemma filter_length_le {A} (p q : A -> bool) l : (forall x, p x = true -> q x = true) ->
    List.length (filter p l) <= List.length (filter q l).
  Proof.
    intro H. induction l as [|x l IH]; cbn [filter]; [lia|].
    destruct (p x) eqn:E; [rewrite (H x E); cbn [List.length]; lia|].
    destruct (q x); cbn [List.length]; lia.
  Qed.
  Lemma filter_length_lt {A} (p q : A -> bool) l x : (forall x, p x = true -> q x = true) ->
    In x l -> p x = false -> q x = true -> List.length (filter p l) < List.length (filter q l).
  Proof.
    intros H Hx Hp Hq. induction l as [|y l IH]; [destruct Hx|]. cbn [filter]. destruct Hx as [->|Hx].
    - rewrite Hp, Hq. cbn [List.length]. pose proof (filter_length_le p q l H). lia.
    - specialize (IH Hx). destruct (p y) eqn:E; [rewrite (H y E); cbn [List.length]; lia|].
      destruct (q y); cbn [List.length]; lia.
  Qed.
  Lemma unvisited_mono v v' : (forall n, mem_name n v = true -> mem_name n v' = true) ->
    unvisited v' <= unvisited v.
  Proof.
    intro H. apply filter_length_le. intros x Hx. apply negb_true_iff in Hx. apply negb_true_iff.
    destruct (mem_name x v) eqn:E; [|reflexivity]. rewrite (H x E) in Hx. discriminate.
  Qed.
  Lemma unvisited_lt n v : In n U -> mem_name n v = false -> unvisited (n :: v) < unvisited v.
  Proof.
    intros Hn Hv. apply (filter_length_lt _ _ U n).
    - intros x Hx. apply negb_true_iff in Hx. apply negb_true_iff. rewrite mem_name_cons in Hx.
      apply orb_false_iff in Hx. apply Hx.
    - exact Hn.
    - rewrite mem_name_cons, name_eqb_refl. reflexivity.
    - rewrite Hv. reflexivity.
  Qed.

  Definition dfs_ok (l : list (atom X)) (v : list name) (res : list X * list name) : Prop :=
    exists news, snd res = news ++ v /\ NoDup news /\ (forall m, In m news -> mem_name m v = false) /\
                 (forall m, In m news <-> reach v (succs l) m) /\
                 Permutation (fst res) (afields l ++ flat_map (fun n => afields (nbody n)) news).

  Lemma dfs_ok_nil v : dfs_ok [] v ([], v).
  Proof.
    exists []. split; [reflexivity|]. split; [constructor|]. split; [intros m []|]. split; [|constructor].
    intro m. split; [intros []|]. intro Hr. apply reach_first in Hr. destruct Hr as (x & [] & _).
  Qed.

  Lemma dfs_spec : forall fuel l v, unvisited v < fuel -> dfs_ok l v (dfs fuel l v).
  Proof.
    induction fuel as [|f IHf]; intros l v Hfuel; [lia|]. cbn [dfs].
    revert v Hfuel. induction l as [|a r IHr]; intros v Hfuel; [apply dfs_ok_nil|].
    cbn [dmany]. destruct a as [x|n]; cbn [dstep].
    - (* a field *)
      destruct (IHr v Hfuel) as (news & Hv & Hnd & Hout & Hreach & Hitems).
      destruct (dmany (dfs f) r v) as [i2 v2]. cbn [fst snd] in *.
      exists news. repeat split; try assumption; try apply Hreach.
      cbn [afields flat_map app]. constructor. exact Hitems.
    - destruct (mem_name n v) eqn:Env.
      + (* already visited *)
        destruct (IHr v Hfuel) as (news & Hv & Hnd & Hout & Hreach & Hitems).
        destruct (dmany (dfs f) r v) as [i2 v2]. cbn [fst snd app] in *.
        exists news. repeat split; try assumption.
        * intro Hm. cbn [succs flat_map app]. eapply reach_mono_L; [|apply Hreach, Hm].
          intros k Hk. right. exact Hk.
        * intro Hm. apply Hreach. cbn [succs flat_map app] in Hm. eapply reach_skip; eassumption.
      + (* expanded *)
        set (res1 := match body n with Some b => dfs f b (n :: v) | None => ([], n :: v) end).
        assert (H1 : dfs_ok (nbody n) (n :: v) res1).
        { unfold res1, nbody. destruct (body n) as [b|] eqn:Eb; [|apply dfs_ok_nil].
          apply IHf. pose proof (unvisited_lt n v (HU n b Eb) Env). lia. }
        destruct H1 as (news1 & Hv1 & Hnd1 & Hout1 & Hreach1 & Hitems1).
        destruct res1 as [i1 v1]. cbn [fst snd] in *. subst v1.
        assert (Hfuel2 : unvisited (news1 ++ n :: v) < S f).
        { pose proof (unvisited_mono v (news1 ++ n :: v)) as Hm. 
          assert (unvisited (news1 ++ n :: v) <= unvisited v); [|lia]. apply Hm.
          intros k Hk. rewrite mem_name_app, mem_name_cons, Hk, !orb_true_r. reflexivity. }
        destruct (IHr _ Hfuel2) as (news2 & Hv2 & Hnd2 & Hout2 & Hreach2 & Hitems2).
        destruct (dmany (dfs f) r (news1 ++ n :: v)) as [i2 v2]. cbn [fst snd] in *. subst v2.
        exists (news2 ++ news1 ++ [n]).
        assert (Hout2' : forall m, In m news2 -> mem_name m news1 = false /\ name_eqb m n = false /\ mem_name m v = false).
        { intros m Hm. specialize (Hout2 m Hm). rewrite mem_name_app, mem_name_cons in Hout2.
          apply orb_false_iff in Hout2. destruct Hout2 as [Ha Hb]. apply orb_false_iff in Hb. tauto. }
        assert (Hout1' : forall m, In m news1 -> name_eqb m n = false /\ mem_name m v = false).
        { intros m Hm. specialize (Hout1 m Hm). rewrite mem_name_cons in Hout1.
          apply orb_false_iff in Hout1. exact Hout1. }
        split; [|split; [|split; [|split]]].
        * rewrite <- !app_assoc. reflexivity.
        * apply NoDup_app'; [exact Hnd2| |].
          -- apply NoDup_app'; [exact Hnd1|constructor; [intros []|constructor]|].
             intros m Hm [E|[]]. subst m. destruct (Hout1' n Hm) as [Hne _]. rewrite name_eqb_refl in Hne. discriminate.
          -- intros m Hm Hin. destruct (Hout2' m Hm) as (Ha & Hb & _). apply in_app_iff in Hin.
             destruct Hin as [Hin|[E|[]]]; [apply mem_In in Hin; congruence|]. subst m.
             rewrite name_eqb_refl in Hb. discriminate.
        * intros m Hm. apply in_app_iff in Hm. destruct Hm as [Hm|Hm]; [apply (Hout2' m Hm)|].
          apply in_app_iff in Hm. destruct Hm as [Hm|[E|[]]]; [apply (Hout1' m Hm)|subst m; exact Env].
        * intro m. cbn [succs flat_map app]. fold (succs r). split.
          -- intro Hm. apply in_app_iff in Hm. destruct Hm as [Hm|Hm].
             ++ apply Hreach2 in Hm. eapply reach_mono_L; [intros k Hk; right; exact Hk|].
                eapply reach_mono_v; [|exact Hm]. intros k Hk. rewrite mem_name_app, mem_name_cons in Hk.
                apply orb_false_iff in Hk. destruct Hk as [_ Hk]. apply orb_false_iff in Hk. apply Hk.
             ++ apply in_app_iff in Hm. destruct Hm as [Hm|[E|[]]]; [|subst m].
                ** apply Hreach1 in Hm. eapply reach_step; [left; reflexivity|exact Env|].
                   eapply reach_mono_v; [|exact Hm]. intros k Hk. rewrite mem_name_cons in Hk.
                   apply orb_false_iff in Hk. apply Hk.
                ** apply reach_here; [left; reflexivity|exact Env].
          -- intro Hm.
             assert (HW : forall k, In k (news1 ++ [n]) -> forall x, In x (nsucc k) ->
                                    In x (news1 ++ [n]) \/ mem_name x v = true).
             { intros k Hk x Hx. destruct (mem_name x (n :: v)) eqn:Exv.
               - rewrite mem_name_cons in Exv. apply orb_true_iff in Exv. destruct Exv as [Exv|Exv]; [|right; exact Exv].
                 apply name_eqb_eq in Exv. subst x. left. apply in_app_iff. right. left. reflexivity.
               - left. apply in_app_iff. left. apply Hreach1. apply in_app_iff in Hk.
                 destruct Hk as [Hk|[E|[]]]; [|subst k].
                 + apply Hreach1 in Hk. eapply reach_trans1; eassumption.
                 + apply reach_here; assumption. }
             destruct (reach_closed v (news1 ++ [n]) _ m HW Hm) as [Hin|Hr].
             ++ apply in_app_iff. right. exact Hin.
             ++ apply in_app_iff. left. apply Hreach2. rewrite <- app_assoc in Hr. cbn [app] in Hr.
                eapply reach_skip; [|exact Hr]. rewrite mem_name_app, mem_name_cons, name_eqb_refl, orb_true_r. reflexivity.
        * cbn [afields flat_map app]. fold (afields r). rewrite !flat_map_app. cbn [flat_map]. rewrite app_nil_r.
          eapply Permutation_trans; [apply Permutation_app; [exact Hitems1|exact Hitems2]|].
          eapply Permutation_trans; [apply Permutation_app_comm|]. rewrite <- !app_assoc.
          do 2 apply Permutation_app_head. apply Permutation_app_comm.
  Qed.
End Dfs.

Lemma F2_perm_r {A B} (R : A -> B -> Prop) m' l' : Permutation m' l' ->
  forall m, Forall2 R m m' -> exists m2, Permutation m m2 /\ Forall2 R m2 l'.
Proof.
  induction 1 as [|x m' l' _ IH|x y m'|m1 m2 m3 _ IH1 _ IH2]; intros m Hf.
  - inversion Hf; subst. exists []. split; constructor.
  - inversion Hf as [|a ? m0 ? Ha Hm0]; subst. destruct (IH m0 Hm0) as (m2 & Hp & Hf2).
    exists (a :: m2). split; [constructor; exact Hp|constructor; assumption].
  - inversion Hf as [|a ? m0 ? Ha Hm0]; subst. inversion Hm0 as [|b ? m1 ? Hb Hm1]; subst.
    exists (b :: a :: m1). split; [apply perm_swap|repeat constructor; assumption].
  - destruct (IH1 m Hf) as (k & Hp & Hk). destruct (IH2 k Hk) as (k2 & Hp2 & Hk2).
    exists k2. split; [eapply Permutation_trans; eassumption|exact Hk2].
Qed.

Lemma PermR_perm_r {A B} (R : A -> B -> Prop) l m' l' : PermR R l m' -> Permutation m' l' -> PermR R l l'.
Proof.
  intros (m & Hp & Hf) Hq. destruct (F2_perm_r R m' l' Hq m Hf) as (m2 & Hp2 & Hf2).
  exists m2. split; [eapply Permutation_trans; eassumption|exact Hf2].
Qed.

Lemma reach_rel {X X'} (body : name -> option (list (atom X))) (body' : name -> option (list (atom X'))) v v' L L' m :
  (forall n k, In k (nsucc body n) -> In k (nsucc body' n)) ->
  (forall n, mem_name n v = mem_name n v') -> (forall n, In n L -> In n L') ->
  reach body v L m -> reach body' v' L' m.
Proof.
  intros Hb Hv HL Hr. revert L' HL. induction Hr as [L n Hn Hnv|L n m Hn Hnv _ IH]; intros L' HL.
  - apply reach_here; [apply HL, Hn|rewrite <- Hv; exact Hnv].
  - eapply reach_step; [apply HL, Hn|rewrite <- Hv; exact Hnv|]. apply IH. apply Hb.
Qed.

Section Dfs2.
  Context {X X' : Type}.
  Variable RX : X -> X' -> Prop.
  Inductive ratom : atom X -> atom X' -> Prop :=
  | RAField x x' : RX x x' -> ratom (AField x) (AField x')
  | RASpread n : ratom (ASpread n) (ASpread n).

  Lemma succs_rel l l' : PermR ratom l l' -> Permutation (succs l) (succs l').
  Proof.
    intro H. apply PermR_eq_perm. unfold succs. apply (PermR_flat_map ratom); [exact H|].
    intros a b _ []; [apply PermR_nil|apply PermR_eq_refl].
  Qed.
  Lemma afields_rel l l' : PermR ratom l l' -> PermR RX (afields l) (afields l').
  Proof.
    intro H. unfold afields. apply (PermR_flat_map ratom); [exact H|].
    intros a b _ [x x' Hx|n]; [apply PermR_one, Hx|apply PermR_nil].
  Qed.

  Variables (body : name -> option (list (atom X))) (body' : name -> option (list (atom X'))).
  Hypothesis Hbody : forall n, PermR ratom (nbody body n) (nbody body' n).
  Variables U U' : list name.
  Hypothesis HU : forall n b, body n = Some b -> In n U.
  Hypothesis HU' : forall n b, body' n = Some b -> In n U'.

  Theorem dfs_rel fuel fuel' l l' v v' :
    unvisited U v < fuel -> unvisited U' v' < fuel' -> PermR ratom l l' -> eqset v v' ->
    PermR RX (fst (dfs body fuel l v)) (fst (dfs body' fuel' l' v')) /\
    eqset (snd (dfs body fuel l v)) (snd (dfs body' fuel' l' v')).
  Proof.
    intros Hf Hf' Hl Hv.
    destruct (dfs_spec body U HU fuel l v Hf) as (news & Hs & Hnd & _ & Hreach & Hitems).
    destruct (dfs_spec body' U' HU' fuel' l' v' Hf') as (news' & Hs' & Hnd' & _ & Hreach' & Hitems').
    assert (Hmem : forall n, mem_name n v = mem_name n v') by (intro n; apply mem_name_eqset, Hv).
    assert (Hnews : Permutation news news').
    { apply NoDup_Permutation; [exact Hnd|exact Hnd'|]. intro m. rewrite Hreach, Hreach'. split.
      - apply reach_rel; [|exact Hmem|].
        + intros n k Hk. unfold nsucc in *. eapply Permutation_in; [apply succs_rel, Hbody|exact Hk].
        + intros k Hk. eapply Permutation_in; [apply succs_rel, Hl|exact Hk].
      - apply reach_rel; [|intro n; symmetry; apply Hmem|].
        + intros n k Hk. unfold nsucc in *.
          eapply Permutation_in; [apply Permutation_sym, succs_rel, Hbody|exact Hk].
        + intros k Hk. eapply Permutation_in; [apply Permutation_sym, succs_rel, Hl|exact Hk]. }
    split.
    - eapply PermR_perm_l; [exact Hitems|]. eapply PermR_perm_r; [|apply Permutation_sym, Hitems'].
      apply PermR_app; [apply afields_rel, Hl|].
      apply (PermR_flat_map eq); [apply PermR_perm, Hnews|]. intros n n' _ <-. apply afields_rel, Hbody.
    - rewrite Hs, Hs'. apply eqset_app; [apply perm_eqset, Hnews|exact Hv].
  Qed.
End Dfs2.

Lemma filter_length_all {A} (p : A -> bool) l : List.length (filter p l) <= List.length l.
Proof. induction l as [|x l IH]; cbn [filter List.length]; [lia|]. destruct (p x); cbn [List.length]; lia. Qed.

Lemma find_fragment_in d n fr : find_fragment d n = Some fr -> In n (frag_names d).
Proof.
  unfold find_fragment. intro H. apply find_first_some_in in H. destruct H as [Hin Hn].
  apply name_eqb_eq in Hn. subst n. unfold frag_names. apply in_map. apply in_rev. exact Hin.
Qed.

(* ---- CollectFields of the subscription rule as such a collection ---- *)
Section BridgeS.
  Variables (s : sdocument) (obj : type_def).
  Definition tc_applies (tc : option name) : bool :=
    match tc with None => true | Some c => fragment_type_applies s obj c end.
  Fixpoint flatS (x : selection) : list (atom selection) :=
    match x with
    | SField _ _ _ _ _ _ _ => [AField x]
    | SSpread _ n _ => [ASpread n]
    | SInline _ tc _ _ ss => if tc_applies tc then flat_map flatS ss else []
    end.
  Definition bodyS (d : document) (n : name) : option (list (atom selection)) :=
    match find_fragment d n with
    | Some fr => if fragment_type_applies s obj (fr_tc fr) then Some (flat_map flatS (fr_sels fr)) else None
    | None => None
    end.

  Section One.
    Variable d : document.
    Variable rec : list selection -> list name -> list selection * list name.
    Variable rec' : list (atom selection) -> list name -> list selection * list name.
    Hypothesis Hrec : forall l v, rec l v = rec' (flat_map flatS l) v.

    Lemma sm_flat_F l : Forall (fun x => forall v, so s d obj rec x v = dmany (bodyS d) rec' (flatS x) v) l ->
      forall v, sm s d obj rec l v = dmany (bodyS d) rec' (flat_map flatS l) v.
    Proof.
      induction 1 as [|y r Hy _ IH]; intro v; [reflexivity|].
      cbn [sm flat_map]. rewrite dmany_app, Hy. destruct (dmany (bodyS d) rec' (flatS y) v) as [a v1].
      rewrite IH. reflexivity.
    Qed.
    Lemma so_flat x : forall v, so s d obj rec x v = dmany (bodyS d) rec' (flatS x) v.
    Proof.
      induction x as [p al n args dirs sp sels IH|p n dirs|p tc dirs sp sels IH] using selection_ind'; intro v.
      - reflexivity.
      - cbn [so flatS dmany dstep]. destruct (mem_name n v); [reflexivity|]. unfold bodyS.
        destruct (find_fragment d n) as [fr|]; [|reflexivity].
        destruct (fragment_type_applies s obj (fr_tc fr)); [|reflexivity].
        rewrite Hrec. destruct (rec' (flat_map flatS (fr_sels fr)) (n :: v)) as [i1 v1].
        rewrite app_nil_r. reflexivity.
      - rewrite so_inline. cbn [flatS]. fold (tc_applies tc). destruct (tc_applies tc); [|reflexivity].
        apply sm_flat_F, IH.
    Qed.
    Lemma sm_flat l v : sm s d obj rec l v = dmany (bodyS d) rec' (flat_map flatS l) v.
    Proof. apply sm_flat_F. apply Forall_forall. intros x _. apply so_flat. Qed.
  End One.

  Lemma spec_collect_list_flat d : forall fuel l v,
    spec_collect_list fuel s d obj l v = dfs (bodyS d) fuel (flat_map flatS l) v.
  Proof.
    induction fuel as [|fuel IH]; intros l v; [reflexivity|].
    rewrite spec_collect_list_S. cbn [dfs]. apply sm_flat. exact IH.
  Qed.

  Lemma bodyS_U d n b : bodyS d n = Some b -> In n (frag_names d).
  Proof.
    unfold bodyS. destruct (find_fragment d n) as [fr|] eqn:E; [|discriminate]. intros _.
    eapply find_fragment_in, E.
  Qed.
End BridgeS.

(* ---- the collected set of the merge rule as such a collection ---- *)
Section BridgeC.
  Variable s : sdocument.
  Definition inl_parent (tc : option name) (parent : option type_def) : option type_def :=
    match opt_bind tc (type_by_name s) with Some t => Some t | None => parent end.
  Fixpoint flatC (parent : option type_def) (x : selection) : list (atom cfield) :=
    match x with
    | SField _ _ _ _ _ _ _ => [AField (mkCF parent x)]
    | SSpread _ n _ => [ASpread n]
    | SInline _ tc _ _ ss => flat_map (flatC (inl_parent tc parent)) ss
    end.
  Definition bodyC (d : document) (n : name) : option (list (atom cfield)) :=
    match find_fragment d n with
    | Some fr => Some (flat_map (flatC (type_by_name s (fr_tc fr))) (fr_sels fr))
    | None => None
    end.

  Section One.
    Variable d : document.
    Variable rec : option type_def -> list selection -> list name -> list cfield * list name.
    Variable rec' : list (atom cfield) -> list name -> list cfield * list name.
    Hypothesis Hrec : forall p l v, rec p l v = rec' (flat_map (flatC p) l) v.

    Lemma cm_flat_F l : Forall (fun x => forall p v, co s d rec p x v = dmany (bodyC d) rec' (flatC p x) v) l ->
      forall p v, cm s d rec p l v = dmany (bodyC d) rec' (flat_map (flatC p) l) v.
    Proof.
      induction 1 as [|y r Hy _ IH]; intros p v; [reflexivity|].
      rewrite cm_cons. cbn [flat_map]. rewrite dmany_app, Hy. destruct (dmany (bodyC d) rec' (flatC p y) v) as [a v1].
      rewrite IH. reflexivity.
    Qed.
    Lemma co_flat x : forall p v, co s d rec p x v = dmany (bodyC d) rec' (flatC p x) v.
    Proof.
      induction x as [q al n args dirs sp sels IH|q n dirs|q tc dirs sp sels IH] using selection_ind'; intros p v.
      - reflexivity.
      - cbn [co flatC dmany dstep]. destruct (mem_name n v); [reflexivity|]. unfold bodyC.
        destruct (find_fragment d n) as [fr|]; [|reflexivity].
        rewrite Hrec. destruct (rec' (flat_map (flatC (type_by_name s (fr_tc fr))) (fr_sels fr)) (n :: v)) as [i1 v1].
        rewrite app_nil_r. reflexivity.
      - rewrite co_inline. cbn [flatC]. fold (inl_parent tc p). apply cm_flat_F, IH.
    Qed.
    Lemma cm_flat p l v : cm s d rec p l v = dmany (bodyC d) rec' (flat_map (flatC p) l) v.
    Proof. apply cm_flat_F. apply Forall_forall. intros x _. apply co_flat. Qed.
  End One.

  Lemma collect_set_flat d : forall fuel p l v,
    collect_set fuel s d p l v = dfs (bodyC d) fuel (flat_map (flatC p) l) v.
  Proof.
    induction fuel as [|fuel IH]; intros p l v; [reflexivity|].
    rewrite collect_set_S. cbn [dfs]. apply cm_flat. exact IH.
  Qed.

  Lemma bodyC_U d n b : bodyC d n = Some b -> In n (frag_names d).
  Proof.
    unfold bodyC. destruct (find_fragment d n) as [fr|] eqn:E; [|discriminate]. intros _.
    eapply find_fragment_in, E.
  Qed.
End BridgeC.

Lemma distinct_keys_spec l : forall seen,
  NoDup (distinct_keys l seen) /\
  forall k, In k (distinct_keys l seen) <-> In k l /\ mem_name k seen = false.
Proof.
  induction l as [|x r IH]; intro seen; cbn [distinct_keys].
  - split; [constructor|]. intro k. split; [intros []|intros [[] _]].
  - destruct (mem_name x seen) eqn:E.
    + destruct (IH seen) as [Hnd Hin]. split; [exact Hnd|]. intro k. rewrite Hin. cbn [In]. split.
      * intros [H1 H2]. split; [right; exact H1|exact H2].
      * intros [[->|H1] H2]; [congruence|]. split; assumption.
    + destruct (IH (x :: seen)) as [Hnd Hin]. split.
      * constructor; [|exact Hnd]. intro H. apply Hin in H. destruct H as [_ H].
        rewrite mem_name_cons, name_eqb_refl in H. discriminate.
      * intro k. cbn [In]. rewrite Hin, mem_name_cons. split.
        -- intros [->|[H1 H2]]; [split; [left; reflexivity|exact E]|].
           apply orb_false_iff in H2. split; [right; exact H1|apply H2].
        -- intros [[->|H1] H2]; [left; reflexivity|].
           destruct (name_eqb k x) eqn:Ek; [left; symmetry; apply name_eqb_eq, Ek|].
           right. split; [exact H1|]. rewrite H2. reflexivity.
Qed.

Definition sfs_bad (l : list selection) : bool :=
  Nat.leb 2 (List.length (group_by_key l)) ||
  existsb (fun g : name * list selection => existsb is_introspection_field (snd g)) (group_by_key l).

Lemma group_introspection l :
  existsb (fun g : name * list selection => existsb is_introspection_field (snd g)) (group_by_key l) =
  existsb is_introspection_field l.
Proof.
  apply bool_iff_eq. rewrite !existsb_exists. unfold group_by_key. split.
  - intros (g & Hg & H). apply in_map_iff in Hg. destruct Hg as (k & <- & _). cbn [snd] in H.
    apply existsb_exists in H. destruct H as (f & Hf & Hi). apply filter_In in Hf. exists f. split; [apply Hf|exact Hi].
  - intros (f & Hf & Hi). exists (field_response_key f, filter (fun g => name_eqb (field_response_key g) (field_response_key f)) l).
    split.
    + apply in_map_iff. exists (field_response_key f). split; [reflexivity|].
      apply (distinct_keys_spec (map field_response_key l) []). split; [apply in_map, Hf|reflexivity].
    + cbn [snd]. apply existsb_exists. exists f. split; [|exact Hi]. apply filter_In. split; [exact Hf|apply name_eqb_refl].
Qed.

(* ---- generic facts about the pair lists of the merge predicate ---- *)
Lemma forallb_filter {A} (p q : A -> bool) l : forallb p (filter q l) = forallb (fun x => negb (q x) || p x) l.
Proof.
  induction l as [|x l IH]; [reflexivity|]. cbn [filter forallb]. destruct (q x); cbn [negb orb forallb]; rewrite IH; reflexivity.
Qed.
Lemma forallb_map {A B} (p : B -> bool) (h : A -> B) l : forallb p (map h l) = forallb (fun x => p (h x)) l.
Proof. induction l as [|x l IH]; [reflexivity|]. cbn [map forallb]. rewrite IH. reflexivity. Qed.
Lemma forallb_ext_in {A} (p q : A -> bool) l : (forall x, In x l -> p x = q x) -> forallb p l = forallb q l.
Proof. intro H. apply forallb_eqset; [apply eqset_refl|exact H]. Qed.
Lemma forallb_prod {A B} (g : A -> B -> bool) a b :
  forallb (fun xy : A * B => g (fst xy) (snd xy)) (flat_map (fun x => map (fun y => (x, y)) b) a) =
  forallb (fun x => forallb (g x) b) a.
Proof.
  induction a as [|x a IH]; [reflexivity|]. cbn [flat_map forallb]. rewrite forallb_app, forallb_map, IH. reflexivity.
Qed.
Lemma forallb_swap {A B} (g : A -> B -> bool) a b :
  forallb (fun x => forallb (g x) b) a = forallb (fun y => forallb (fun x => g x y) a) b.
Proof.
  apply bool_iff_eq. rewrite !forallb_forall. split; intros H u Hu; apply forallb_forall; intros w Hw;
    specialize (H w Hw); rewrite forallb_forall in H; apply H, Hu.
Qed.

Fixpoint pw_all {A} (g : A -> A -> bool) (l : list A) : bool :=
  match l with [] => true | x :: r => forallb (g x) r && pw_all g r end.
Lemma pairs_within_cons {A} (x : A) r : pairs_within (x :: r) = map (fun y => (x, y)) r ++ pairs_within r.
Proof. reflexivity. Qed.
Lemma pairs_within_forallb {A} (g : A -> A -> bool) l :
  forallb (fun ab : A * A => g (fst ab) (snd ab)) (pairs_within l) = pw_all g l.
Proof.
  induction l as [|x r IH]; [reflexivity|]. rewrite pairs_within_cons, forallb_app, forallb_map, IH. reflexivity.
Qed.
Lemma pw_all_perm {A} (g : A -> A -> bool) l l' : (forall x y, g x y = g y x) ->
  Permutation l l' -> pw_all g l = pw_all g l'.
Proof.
  intros Hg. induction 1 as [|x l l' Hp IH|x y l|l1 l2 l3 _ IH1 _ IH2]; cbn [pw_all forallb].
  - reflexivity.
  - rewrite IH, (forallb_perm _ _ _ Hp). reflexivity.
  - rewrite (Hg y x). destruct (g x y), (forallb (g x) l), (forallb (g y) l); reflexivity.
  - rewrite IH1. exact IH2.
Qed.
Lemma pw_all_F2 {A B} (R : A -> B -> Prop) (g : A -> A -> bool) (g' : B -> B -> bool) l l' :
  Forall2 R l l' -> (forall x x' y y', R x x' -> R y y' -> g x y = g' x' y') -> pw_all g l = pw_all g' l'.
Proof.
  intros H Hg. induction H as [|x x' l l' Hx Hl IH]; [reflexivity|]. cbn [pw_all]. rewrite IH. f_equal.
  apply F2_forallb. eapply Forall2_impl_in; [|exact Hl]. intros y y' _ Hy. apply Hg; assumption.
Qed.

Lemma fold_add_F2 {A B} (R : A -> B -> Prop) (g : A -> nat) (g' : B -> nat) l l' :
  Forall2 R l l' -> (forall x y, In x l -> R x y -> g x = g' y) ->
  forall a, fold_left (fun n x => n + g x) l a = fold_left (fun n x => n + g' x) l' a.
Proof.
  intros H Hg. induction H as [|x y l l' Hxy _ IH]; intro a; [reflexivity|]. cbn [fold_left].
  rewrite (Hg x y (or_introl eq_refl) Hxy). apply IH. intros u w Hu. apply Hg. right. exact Hu.
Qed.

Definition cross_all (h : cfield -> cfield -> bool) (A B : list cfield) : bool :=
  forallb (fun x => forallb (fun y => negb (name_eqb (cf_key x) (cf_key y)) || h x y) B) A.
Lemma cross_pairs_forallb h A B :
  forallb (fun xy : cfield * cfield => h (fst xy) (snd xy)) (cross_pairs A B) = cross_all h A B.
Proof.
  unfold cross_pairs, cross_all. rewrite forallb_filter.
  apply (forallb_prod (fun x y => negb (name_eqb (cf_key x) (cf_key y)) || h x y)).
Qed.
Lemma fcm_unfold f s d m a b :
  fields_can_merge (S f) s d m a b =
  (((m || parents_exclusive a b) ||
    (name_eqb (sel_name (cf_field a)) (sel_name (cf_field b)) &&
     same_arguments (sel_args (cf_field a)) (sel_args (cf_field b)))) &&
   match cf_def a, cf_def b with
   | Some da, Some db => negb (shape_conflict s (fd_type da) (fd_type db))
   | _, _ => true
   end &&
   cross_all (fields_can_merge f s d (m || parents_exclusive a b)) (sub_set s d a) (sub_set s d b)).
Proof. cbn [fields_can_merge]. rewrite cross_pairs_forallb. reflexivity. Qed.

Lemma name_eqb_sym a b : name_eqb a b = name_eqb b a.
Proof. apply String.eqb_sym. Qed.

Lemma shape_conflict_sym s : forall a b, shape_conflict s a b = shape_conflict s b a.
Proof.
  intro a. induction a as [x|x IH|x IH]; intros [y|y|y]; cbn [shape_conflict]; try reflexivity; try apply IH.
  rewrite (name_eqb_sym x y), orb_comm. reflexivity.
Qed.
Lemma parents_exclusive_sym a b : parents_exclusive a b = parents_exclusive b a.
Proof.
  unfold parents_exclusive. destruct (cf_parent a) as [[]|], (cf_parent b) as [[]|]; try reflexivity.
  rewrite name_eqb_sym. reflexivity.
Qed.
Lemma same_arguments_sym a b : same_arguments a b = same_arguments b a.
Proof. unfold same_arguments. apply andb_comm. Qed.

Lemma fcm_sym s d : forall f m a b, fields_can_merge f s d m a b = fields_can_merge f s d m b a.
Proof.
  induction f as [|f IH]; intros m a b; [reflexivity|]. rewrite !fcm_unfold.
  rewrite (parents_exclusive_sym b a), (name_eqb_sym (sel_name (cf_field b))), (same_arguments_sym (sel_args (cf_field b))).
  f_equal; [f_equal|].
  - destruct (cf_def a), (cf_def b); try reflexivity. rewrite shape_conflict_sym. reflexivity.
  - unfold cross_all. rewrite forallb_swap. apply forallb_ext_in. intros y _. apply forallb_ext_in. intros x _.
    rewrite (name_eqb_sym (cf_key x)), IH. reflexivity.
Qed.

Lemma args_subset_perm a a' b b' : Permutation a a' -> Permutation b b' -> args_subset a b = args_subset a' b'.
Proof.
  intros Ha Hb. unfold args_subset. apply forallb_eqset; [apply perm_eqset, Ha|]. intros x _. apply existsb_perm, Hb.
Qed.
Lemma same_arguments_perm a a' b b' : Permutation a a' -> Permutation b b' -> same_arguments a b = same_arguments a' b'.
Proof.
  intros Ha Hb. unfold same_arguments. rewrite (args_subset_perm a a' b b' Ha Hb), (args_subset_perm b b' a a' Hb Ha).
  reflexivity.
Qed.

Section CollectRel.
  Variable ren : option name -> option name.
  Variable hk : option (name -> name).
  Variables pa pv ps : bool.
  Notation rdir := (rdir pa).
  Notation rdirs := (rdirs pa).
  Notation rsel := (rsel hk pa ps).
  Notation rsels := (rsels hk pa ps).
  Notation rop := (rop ren hk pa pv ps).
  Notation rfrag := (rfrag hk pa ps).
  Notation rdef := (rdef ren hk pa pv ps).
  Notation rdoc := (rdoc ren hk pa pv ps).

  Hypothesis Hinjk : key_injective hk.
  (* related fields *)
  Definition rselF (x y : selection) : Prop := rsel x y /\ is_field_sel x = true.

  Lemma sfs_bad_rel l l' : PermR rselF l l' -> sfs_bad l = sfs_bad l'.
  Proof.
    intro H. unfold sfs_bad. rewrite !group_introspection. f_equal.
    - f_equal. unfold group_by_key. rewrite !map_length.
      assert (Hk : Permutation (map (kmap hk) (map field_response_key l)) (map field_response_key l')).
      { apply PermR_eq_perm. rewrite map_map. apply (PermR_map rselF); [exact H|].
        intros x y _ [Hxy Hx]. symmetry. apply (rsel_key hk pa ps); assumption. }
      rewrite <- (map_length (kmap hk) (distinct_keys (map field_response_key l) [])).
      apply Permutation_length, NoDup_Permutation.
      + apply FinFun.Injective_map_NoDup; [exact Hinjk|apply distinct_keys_spec].
      + apply distinct_keys_spec.
      + intro k. rewrite (proj2 (distinct_keys_spec _ [])), in_map_iff. split.
        * intros (k0 & <- & Hk0). apply (distinct_keys_spec _ []) in Hk0. destruct Hk0 as [Hk0 _].
          split; [|reflexivity]. eapply Permutation_in; [exact Hk|]. apply in_map, Hk0.
        * intros [H1 _]. eapply Permutation_in in H1; [|apply Permutation_sym, Hk].
          apply in_map_iff in H1. destruct H1 as (k0 & <- & Hk0). exists k0. split; [reflexivity|].
          apply (distinct_keys_spec _ []). split; [exact Hk0|reflexivity].
    - apply (PermR_existsb rselF); [exact H|]. intros x y _ [[] _]; reflexivity.
  Qed.

  Variables (s : sdocument) (d d' : document).
  Hypothesis Hd : rdoc d d'.

  Lemma unvisited_nil U : unvisited U [] <= List.length U.
  Proof. apply filter_length_all. Qed.

  (* ---- single-field subscriptions ---- *)
  Lemma flatS_rel obj x : forall y, rsel x y -> PermR (ratom rselF) (flatS s obj x) (flatS s obj y).
  Proof.
    induction x as [p al n args dirs sp sels IH|p n dirs|p tc dirs sp sels IH] using selection_ind';
      intros y Hxy; pose proof (rsel_sels_rsels _ _ _ _ _ Hxy) as Hss; cbn [sel_sels] in Hss;
      inversion Hxy; subst; cbn [flatS].
    - apply PermR_one. constructor. split; [exact Hxy|reflexivity].
    - apply PermR_one. constructor.
    - destruct (tc_applies s obj tc); [|apply PermR_nil].
      apply (PermR_flat_map rsel); [apply rsels_PermR, Hss|].
      intros a b Ha Hab. rewrite Forall_forall in IH. apply IH; assumption.
  Qed.
  Lemma flatS_list_rel obj l l' : rsels l l' ->
    PermR (ratom rselF) (flat_map (flatS s obj) l) (flat_map (flatS s obj) l').
  Proof.
    intro H. apply (PermR_flat_map rsel); [apply rsels_PermR, H|]. intros a b _. apply flatS_rel.
  Qed.
  Lemma bodyS_rel obj n : PermR (ratom rselF) (nbody (bodyS s obj d) n) (nbody (bodyS s obj d') n).
  Proof.
    unfold nbody, bodyS. destruct (find_fragment_rel ren hk pa pv ps d d' Hd n) as [f f' Hf|]; [|apply PermR_nil].
    destruct (rfrag_fields _ _ _ _ _ Hf) as (_ & _ & Htc & _ & _ & Hs). rewrite <- Htc.
    destruct (fragment_type_applies s obj (fr_tc f)); [|apply PermR_nil]. apply flatS_list_rel, Hs.
  Qed.

  Lemma spec_collect_rel obj l l' : rsels l l' ->
    sfs_bad (fst (spec_collect_list (S (S (List.length (fragments_of d)))) s d obj l [])) =
    sfs_bad (fst (spec_collect_list (S (S (List.length (fragments_of d')))) s d' obj l' [])).
  Proof.
    intro H. apply sfs_bad_rel. rewrite !spec_collect_list_flat.
    apply (dfs_rel rselF (bodyS s obj d) (bodyS s obj d') (bodyS_rel obj) (frag_names d) (frag_names d')
                   (bodyS_U s obj d) (bodyS_U s obj d')).
    - pose proof (unvisited_nil (frag_names d)). unfold frag_names in *. rewrite map_length in *. lia.
    - pose proof (unvisited_nil (frag_names d')). unfold frag_names in *. rewrite map_length in *. lia.
    - apply flatS_list_rel, H.
    - apply eqset_refl.
  Qed.

  Lemma r_single_field_subscriptions : v_single_field_subscriptions s d = v_single_field_subscriptions s d'.
  Proof.
    unfold v_single_field_subscriptions. apply (F2_existsb rop).
    eapply Forall2_impl_in; [|apply (rdoc_ops ren hk pa pv ps), Hd]. intros o o' _ H.
    destruct (rop_fields _ _ _ _ _ _ _ H) as (Hk & _ & _ & _ & _ & _ & Hs). rewrite <- Hk.
    destruct (o_kind o); try reflexivity. destruct (root s OpSubscription) as [t|]; [|reflexivity].
    unfold spec_collect. apply (spec_collect_rel t _ _ Hs).
  Qed.
  (* ---- field merging ---- *)
  Definition rcf (c c' : cfield) : Prop :=
    cf_parent c = cf_parent c' /\ rsel (cf_field c) (cf_field c') /\ is_field_sel (cf_field c) = true.

  Lemma flatC_rel x : forall y p, rsel x y -> PermR (ratom rcf) (flatC s p x) (flatC s p y).
  Proof.
    induction x as [q al n args dirs sp sels IH|q n dirs|q tc dirs sp sels IH] using selection_ind';
      intros y p Hxy; pose proof (rsel_sels_rsels _ _ _ _ _ Hxy) as Hss; cbn [sel_sels] in Hss;
      inversion Hxy; subst; cbn [flatC].
    - apply PermR_one. constructor. split; [reflexivity|split; [exact Hxy|reflexivity]].
    - apply PermR_one. constructor.
    - apply (PermR_flat_map rsel); [apply rsels_PermR, Hss|].
      intros a b Ha Hab. rewrite Forall_forall in IH. apply IH; assumption.
  Qed.
  Lemma flatC_list_rel p l l' : rsels l l' ->
    PermR (ratom rcf) (flat_map (flatC s p) l) (flat_map (flatC s p) l').
  Proof.
    intro H. apply (PermR_flat_map rsel); [apply rsels_PermR, H|]. intros a b _. apply flatC_rel.
  Qed.
  Lemma bodyC_rel n : PermR (ratom rcf) (nbody (bodyC s d) n) (nbody (bodyC s d') n).
  Proof.
    unfold nbody, bodyC. destruct (find_fragment_rel ren hk pa pv ps d d' Hd n) as [f f' Hf|]; [|apply PermR_nil].
    destruct (rfrag_fields _ _ _ _ _ Hf) as (_ & _ & Htc & _ & _ & Hs). rewrite <- Htc.
    apply flatC_list_rel, Hs.
  Qed.

  Lemma collected_rel p l l' : rsels l l' -> PermR rcf (collected s d p l) (collected s d' p l').
  Proof.
    intro H. unfold collected, set_fuel. rewrite !collect_set_flat.
    apply (dfs_rel rcf (bodyC s d) (bodyC s d') bodyC_rel (frag_names d) (frag_names d')
                   (bodyC_U s d) (bodyC_U s d')).
    - pose proof (unvisited_nil (frag_names d)). unfold frag_names in *. rewrite map_length in *. lia.
    - pose proof (unvisited_nil (frag_names d')). unfold frag_names in *. rewrite map_length in *. lia.
    - apply flatC_list_rel, H.
    - apply eqset_refl.
  Qed.

  Lemma rcf_def c c' : rcf c c' -> cf_def c = cf_def c'.
  Proof. intros (Hp & Hf & _). unfold cf_def. rewrite Hp, (rsel_name _ _ _ _ _ Hf). reflexivity. Qed.
  Lemma rcf_key c c' : rcf c c' -> cf_key c' = kmap hk (cf_key c).
  Proof. intros (_ & Hf & Hi). unfold cf_key. apply (rsel_key _ _ _ _ _ Hf Hi). Qed.
  Lemma rcf_key_eqb x x' y y' : rcf x x' -> rcf y y' ->
    name_eqb (cf_key x') (cf_key y') = name_eqb (cf_key x) (cf_key y).
  Proof. intros Hx Hy. rewrite (rcf_key _ _ Hx), (rcf_key _ _ Hy). apply name_eqb_kmap, Hinjk. Qed.

  Lemma sub_set_rel c c' : rcf c c' -> PermR rcf (sub_set s d c) (sub_set s d' c').
  Proof.
    intro H. unfold sub_set. rewrite (rcf_def _ _ H). apply collected_rel, rsel_sels_rsels, H.
  Qed.

  Lemma cross_all_rel h h' A A' B B' : PermR rcf A A' -> PermR rcf B B' ->
    (forall x x' y y', rcf x x' -> rcf y y' -> h x y = h' x' y') -> cross_all h A B = cross_all h' A' B'.
  Proof.
    intros HA HB Hh. unfold cross_all. apply (PermR_forallb rcf); [exact HA|]. intros x x' _ Hx.
    apply (PermR_forallb rcf); [exact HB|]. intros y y' _ Hy.
    rewrite (rcf_key_eqb _ _ _ _ Hx Hy), (Hh x x' y y' Hx Hy). reflexivity.
  Qed.

  Lemma fcm_rel : forall f m a a' b b', rcf a a' -> rcf b b' ->
    fields_can_merge f s d m a b = fields_can_merge f s d' m a' b'.
  Proof.
    induction f as [|f IH]; intros m a a' b b' Ha Hb; [reflexivity|]. rewrite !fcm_unfold.
    assert (Epe : parents_exclusive a b = parents_exclusive a' b').
    { unfold parents_exclusive. rewrite (proj1 Ha), (proj1 Hb). reflexivity. }
    rewrite Epe, (rcf_def _ _ Ha), (rcf_def _ _ Hb).
    rewrite (rsel_name _ _ _ _ _ (proj1 (proj2 Ha))), (rsel_name _ _ _ _ _ (proj1 (proj2 Hb))).
    rewrite (same_arguments_perm _ _ _ _ (rsel_args _ _ _ _ _ (proj1 (proj2 Ha))) (rsel_args _ _ _ _ _ (proj1 (proj2 Hb)))).
    f_equal. apply cross_all_rel; [apply sub_set_rel, Ha|apply sub_set_rel, Hb|].
    intros x x' y y' Hx Hy. apply IH; assumption.
  Qed.

  Lemma count_fields_rel x : forall y, rsel x y -> count_fields x = count_fields y.
  Proof.
    induction x as [q al n args dirs sp sels IH|q n dirs|q tc dirs sp sels IH] using selection_ind';
      intros y Hxy; inversion Hxy as [? ? ? ? ? ? ? ? ? ? m ? _ _ _ Hp Hf| |? ? ? ? ? ? m ? _ Hp Hf]; subst;
      cbn [count_fields]; try reflexivity; [f_equal|];
      (rewrite (fold_add_perm count_fields _ _ (lperm_perm ps _ _ Hp));
       apply (fold_add_F2 rsel); [exact Hf|]; intros a b Ha Hab; rewrite Forall_forall in IH; apply IH; [|exact Hab];
       eapply Permutation_in; [apply Permutation_sym, (lperm_perm ps), Hp|exact Ha]).
  Qed.
  Lemma sels_fields_rel l l' : rsels l l' ->
    fold_left (fun n y => n + count_fields y) l 0 = fold_left (fun n y => n + count_fields y) l' 0.
  Proof.
    intros (m & Hp & Hf). rewrite (fold_add_perm count_fields _ _ (lperm_perm ps _ _ Hp)).
    apply (fold_add_F2 rsel); [exact Hf|]. intros a b _. apply count_fields_rel.
  Qed.
  Lemma doc_fields_rel : doc_fields d = doc_fields d'.
  Proof.
    unfold doc_fields. apply (fold_add_F2 rdef); [exact Hd|]. intros x y _ Hxy.
    pose proof (rdef_sels _ _ _ _ _ _ _ Hxy) as H. destruct Hxy; cbn [def_sels] in H; apply sels_fields_rel, H.
  Qed.

  Lemma fisc_rel set set' : PermR rcf set set' ->
    fields_in_set_can_merge s d set = fields_in_set_can_merge s d' set'.
  Proof.
    intros (m & Hp & Hf). unfold fields_in_set_can_merge, same_key_pairs, merge_fuel_spec.
    rewrite <- doc_fields_rel. rewrite !forallb_filter.
    rewrite (pairs_within_forallb (fun a b => negb (name_eqb (cf_key a) (cf_key b)) || fields_can_merge (S (S (doc_fields d))) s d false a b)).
    rewrite (pairs_within_forallb (fun a b => negb (name_eqb (cf_key a) (cf_key b)) || fields_can_merge (S (S (doc_fields d))) s d' false a b)).
    rewrite (pw_all_perm _ set m); [| |exact Hp].
    - apply (pw_all_F2 rcf); [exact Hf|]. intros x x' y y' Hx Hy.
      rewrite (rcf_key_eqb _ _ _ _ Hx Hy), (fcm_rel _ _ _ _ _ _ Hx Hy). reflexivity.
    - intros x y. rewrite name_eqb_sym, fcm_sym. reflexivity.
  Qed.

  Lemma r_overlapping_fields : v_overlapping_fields s d = v_overlapping_fields s d'.
  Proof.
    unfold v_overlapping_fields. apply (PermR_existsb (rss hk pa ps)); [apply (selection_sets_rel ren hk pa pv ps), Hd|].
    intros [p l] [p' l'] _ [Hp Hl]. cbn [fst snd] in *. subst p'. f_equal.
    apply fisc_rel, collected_rel, Hl.
  Qed.
End CollectRel.

(* ------------------------------------------------------------------ all rules *)
Definition renames (ren : option name -> option name) (fo : name -> name) (d : document) : Prop :=
  (forall n, ren n = opt_map fo n) /\
  (forall a b, In a (named_operation_names d) -> In b (named_operation_names d) -> fo a = fo b -> a = b).

Lemma renames_id d : renames (fun n => n) (fun x => x) d.
Proof. split; [intros [n|]; reflexivity|intros a b _ _ H; exact H]. Qed.

Theorem violated_rel ren hk pa pv ps r s d d' fo : rdoc ren hk pa pv ps d d' -> renames ren fo d ->
  key_injective hk ->
  (pv = true -> r = R_VariablesInAllowedPosition -> v_unique_variable_names d = false) ->
  violated r s d = violated r s d'.
Proof.
  intros Hd [Hren Hinj] Hk Hu. destruct r; cbn [violated].
  - apply (r_unique_operation_names ren hk pa pv ps d d' Hd fo Hren Hinj).
  - apply (r_lone_anonymous ren hk pa pv ps d d' Hd fo Hren).
  - apply (r_single_field_subscriptions ren hk pa pv ps Hk s d d' Hd).
  - apply (r_known_type_names ren hk pa pv ps), Hd.
  - apply (r_fragments_on_composite ren hk pa pv ps), Hd.
  - apply (r_variables_are_input_types ren hk pa pv ps), Hd.
  - apply (r_leaf_field_selections ren hk pa pv ps), Hd.
  - apply (r_fields_on_correct_type ren hk pa pv ps), Hd.
  - apply (r_unique_fragment_names ren hk pa pv ps), Hd.
  - apply (r_known_fragment_names ren hk pa pv ps), Hd.
  - apply (r_no_unused_fragments ren hk pa pv ps), Hd.
  - rewrite (r_no_fragment_cycles ren hk pa pv ps d d' Hd), (r_overlapping_fields ren hk pa pv ps Hk s d d' Hd). reflexivity.
  - apply (r_no_fragment_cycles ren hk pa pv ps), Hd.
  - apply (r_possible_fragment_spreads ren hk pa pv ps), Hd.
  - apply (r_no_unused_variables ren hk pa pv ps), Hd.
  - apply (r_no_undefined_variables ren hk pa pv ps), Hd.
  - apply (r_known_argument_names ren hk pa pv ps), Hd.
  - apply (r_unique_argument_names ren hk pa pv ps), Hd.
  - apply (r_unique_variable_names ren hk pa pv ps), Hd.
  - apply (r_provided_required_arguments ren hk pa pv ps), Hd.
  - apply (r_known_directives ren hk pa pv ps), Hd.
  - apply (r_variables_in_allowed_position ren hk pa pv ps); [exact Hd|]. intro Hpv. apply Hu; [exact Hpv|reflexivity].
  - apply (r_values_of_correct_type ren hk pa pv ps), Hd.
  - apply (r_unique_directives_per_location ren hk pa pv ps), Hd.
Qed.

(* the rewrites of C14 (b), (c), (d): d' is d with ... , everywhere in the document *)
(* (c) the argument lists of fields and directives permuted *)
Definition perm_args_doc : document -> document -> Prop := rdoc (fun n => n) None true false false.
(* (c) the variable definitions of operations permuted *)
Definition perm_vars_doc : document -> document -> Prop := rdoc (fun n => n) None false true false.
(* (b) the selections of selection sets permuted *)
Definition perm_sels_doc : document -> document -> Prop := rdoc (fun n => n) None false false true.
(* all three at once *)
Definition perm_lists_doc : document -> document -> Prop := rdoc (fun n => n) None true true true.
(* (d) operations renamed by fo *)
Definition rename_ops_doc (fo : name -> name) : document -> document -> Prop := rdoc (opt_map fo) None false false false.
Definition injective_on (fo : name -> name) (l : list name) : Prop :=
  forall a b, In a l -> In b l -> fo a = fo b -> a = b.

Theorem violated_perm_arguments : forall r s d d', perm_args_doc d d' -> violated r s d = violated r s d'.
Proof.
  intros r s d d' H. apply (violated_rel (fun n => n) None true false false r s d d' (fun x => x));
    [exact H|apply renames_id|apply key_injective_none|discriminate].
Qed.

Theorem violated_perm_variable_definitions : forall r s d d', perm_vars_doc d d' ->
  (r = R_VariablesInAllowedPosition -> violated R_UniqueVariableNames s d = false) ->
  violated r s d = violated r s d'.
Proof.
  intros r s d d' H Hu. apply (violated_rel (fun n => n) None false true false r s d d' (fun x => x));
    [exact H|apply renames_id|apply key_injective_none|]. intros _. exact Hu.
Qed.

Theorem violated_perm_selections : forall r s d d', perm_sels_doc d d' -> violated r s d = violated r s d'.
Proof.
  intros r s d d' H. apply (violated_rel (fun n => n) None false false true r s d d' (fun x => x));
    [exact H|apply renames_id|apply key_injective_none|discriminate].
Qed.

Theorem violated_perm_lists : forall r s d d', perm_lists_doc d d' ->
  (r = R_VariablesInAllowedPosition -> violated R_UniqueVariableNames s d = false) ->
  violated r s d = violated r s d'.
Proof.
  intros r s d d' H Hu. apply (violated_rel (fun n => n) None true true true r s d d' (fun x => x));
    [exact H|apply renames_id|apply key_injective_none|]. intros _. exact Hu.
Qed.

Theorem violated_rename_operations : forall fo r s d d',
  rename_ops_doc fo d d' -> injective_on fo (named_operation_names d) ->
  violated r s d = violated r s d'.
Proof.
  intros fo r s d d' H Hinj. apply (violated_rel (opt_map fo) None false false false r s d d' fo);
    [exact H|split; [reflexivity|exact Hinj]|apply key_injective_none|discriminate].
Qed.

(* (d) aliases rewritten: the field with response key k gets an alias with which its response key is h k *)
Definition rename_aliases_doc (h : name -> name) : document -> document -> Prop :=
  rdoc (fun n => n) (Some h) false false false.

Theorem violated_rename_aliases : forall h r s d d',
  rename_aliases_doc h d d' -> (forall a b, h a = h b -> a = b) ->
  violated r s d = violated r s d'.
Proof.
  intros h r s d d' H Hinj. apply (violated_rel (fun n => n) (Some h) false false false r s d d' (fun x => x));
    [exact H|apply renames_id|exact Hinj|discriminate].
Qed.

(* the relations are reflexive *)
Lemma rdir_refl pa x : rdir pa x x.
Proof. destruct x. constructor. apply lperm_refl. Qed.
Lemma rdirs_refl pa l : rdirs pa l l.
Proof. induction l; constructor; [apply rdir_refl|assumption]. Qed.
Lemma rsel_refl pa ps x : rsel None pa ps x x.
Proof.
  induction x as [p al n args dirs sp sels IH|p n dirs|p tc dirs sp sels IH] using selection_ind'.
  - apply RField with (m := sels); [reflexivity|apply lperm_refl|apply rdirs_refl|apply lperm_refl|].
    induction IH; constructor; assumption.
  - constructor. apply rdirs_refl.
  - apply RInline with (m := sels); [apply rdirs_refl|apply lperm_refl|]. induction IH; constructor; assumption.
Qed.
Lemma rsels_refl pa ps l : rsels None pa ps l l.
Proof. exists l. split; [apply lperm_refl|]. induction l; constructor; [apply rsel_refl|assumption]. Qed.
Lemma rfrag_refl pa ps f : rfrag None pa ps f f.
Proof. destruct f. constructor; [apply rdirs_refl|apply rsels_refl]. Qed.

(* renaming as a function: the renamed document is related to the original *)
Definition rename_op (fo : name -> name) (o : operation) : operation :=
  mkOperation (o_kind o) (o_pos o) (opt_map fo (o_name o)) (o_vars o) (o_dirs o) (o_span o) (o_sels o).
Definition rename_def (fo : name -> name) (x : definition) : definition :=
  match x with DOp o => DOp (rename_op fo o) | DFrag f => DFrag f end.
Lemma rename_ops_doc_map fo d : rename_ops_doc fo d (map (rename_def fo) d).
Proof.
  induction d as [|x d IH]; cbn [map]; constructor; [|exact IH].
  destruct x as [o|f]; cbn [rename_def]; constructor; [|apply rfrag_refl].
  destruct o. unfold rename_op. cbn. constructor; [apply lperm_refl|apply rdirs_refl|apply rsels_refl].
Qed.

(* re-aliasing as a function *)
Fixpoint realias_sel (h : name -> name) (x : selection) : selection :=
  match x with
  | SField p al n args dirs sp sels => SField p (Some (h (field_key al n))) n args dirs sp (map (realias_sel h) sels)
  | SSpread _ _ _ => x
  | SInline p tc dirs sp sels => SInline p tc dirs sp (map (realias_sel h) sels)
  end.
Definition realias_def (h : name -> name) (x : definition) : definition :=
  match x with
  | DOp o => DOp (mkOperation (o_kind o) (o_pos o) (o_name o) (o_vars o) (o_dirs o) (o_span o) (map (realias_sel h) (o_sels o)))
  | DFrag f => DFrag (mkFragment (fr_pos f) (fr_name f) (fr_tc f) (fr_dirs f) (fr_span f) (map (realias_sel h) (fr_sels f)))
  end.
Lemma Forall2_map_r {A B} (R : A -> B -> Prop) (g : A -> B) l : Forall (fun x => R x (g x)) l -> Forall2 R l (map g l).
Proof. induction 1; cbn [map]; constructor; assumption. Qed.
Lemma realias_sel_rel h x : rsel (Some h) false false x (realias_sel h x).
Proof.
  induction x as [p al n args dirs sp sels IH|p n dirs|p tc dirs sp sels IH] using selection_ind'; cbn [realias_sel].
  - apply RField with (m := sels); [reflexivity|reflexivity|apply rdirs_refl|reflexivity|apply Forall2_map_r, IH].
  - constructor. apply rdirs_refl.
  - apply RInline with (m := sels); [apply rdirs_refl|reflexivity|apply Forall2_map_r, IH].
Qed.
Lemma realias_sels_rel h l : rsels (Some h) false false l (map (realias_sel h) l).
Proof.
  exists l. split; [reflexivity|]. apply Forall2_map_r, Forall_forall. intros x _. apply realias_sel_rel.
Qed.
Lemma rename_aliases_doc_map h d : rename_aliases_doc h d (map (realias_def h) d).
Proof.
  induction d as [|x d IH]; cbn [map]; constructor; [|exact IH].
  destruct x as [o|f]; cbn [realias_def]; constructor.
  - destruct o. cbn. apply (ROp (fun n => n) (Some h) false false false); [reflexivity|apply rdirs_refl|apply realias_sels_rel].
  - destruct f. cbn. constructor; [apply rdirs_refl|apply realias_sels_rel].
Qed.

(* ------------------------------------------------------------------ the model's verdicts *)
Section Side.
  Variable ren : option name -> option name.
  Variable hk : option (name -> name).
  Variables pa pv ps : bool.
  Variables (s : sdocument) (d d' : document).
  Hypothesis Hd : rdoc ren hk pa pv ps d d'.
  Variable fo : name -> name.
  Hypothesis Hren : renames ren fo d.

  Lemma doc_types_proper_rel : doc_types_proper d = doc_types_proper d'.
  Proof.
    unfold doc_types_proper. apply F2_forallb. eapply Forall2_impl_in; [|apply (rdoc_ops ren hk pa pv ps), Hd].
    intros o o' _ H. apply forallb_perm, (lperm_perm pv), (rop_vardefs ren hk pa pv ps), H.
  Qed.
  Lemma defaults_const_rel : defaults_const d = defaults_const d'.
  Proof.
    unfold C07_position_proofs.defaults_const. apply F2_forallb.
    eapply Forall2_impl_in; [|apply (rdoc_ops ren hk pa pv ps), Hd].
    intros o o' _ H. apply forallb_perm, (lperm_perm pv), (rop_vardefs ren hk pa pv ps), H.
  Qed.
  Lemma distinct_fragments_rel : distinct_fragments d = distinct_fragments d'.
  Proof. unfold distinct_fragments. rewrite (r_unique_fragment_names ren hk pa pv ps d d' Hd). reflexivity. Qed.
  Lemma distinct_operations_rel : distinct_operations d = distinct_operations d'.
  Proof.
    destruct Hren as [Hr Hi].
    unfold distinct_operations. rewrite (r_unique_operation_names ren hk pa pv ps d d' Hd fo Hr Hi). f_equal. f_equal.
    pose proof (rdoc_ops ren hk pa pv ps d d' Hd) as H.
    induction H as [|o o' l l' Ho _ IH]; [reflexivity|]. cbn [filter].
    rewrite (rop_node_name_fo ren hk pa pv ps fo Hr _ _ Ho).
    destruct (op_node_name o); cbn [opt_map is_none List.length]; rewrite IH; reflexivity.
  Qed.
  Lemma rule_in_scope_rel r : rule_in_scope r s d = rule_in_scope r s d'.
  Proof.
    destruct r; cbn [rule_in_scope]; try reflexivity;
      rewrite ?distinct_fragments_rel, ?distinct_operations_rel, ?(r_no_fragment_cycles ren hk pa pv ps d d' Hd),
              ?(r_unique_argument_names ren hk pa pv ps s d d' Hd), ?(r_variables_are_input_types ren hk pa pv ps s d d' Hd);
      reflexivity.
  Qed.
  Lemma side_rel r : side r s d -> side r s d'.
  Proof.
    intros (Hwf & Hty & Hdc & Hdf & Hsc).
    rewrite doc_types_proper_rel in Hty. rewrite defaults_const_rel in Hdc.
    rewrite distinct_fragments_rel in Hdf.
    rewrite (rule_in_scope_rel r) in Hsc. repeat split; assumption.
  Qed.
End Side.

Theorem run_alone_rel ren hk pa pv ps r s d d' fo :
  r <> R_OverlappingFieldsCanBeMerged ->
  wf_schema s = true -> doc_types_proper d = true -> defaults_const d = true ->
  distinct_fragments d = true -> rule_in_scope r s d = true ->
  rdoc ren hk pa pv ps d d' -> renames ren fo d -> key_injective hk ->
  (pv = true -> r = R_VariablesInAllowedPosition -> v_unique_variable_names d = false) ->
  (run_alone r s d = [] <-> run_alone r s d' = []).
Proof.
  intros Hr Hwf Hty Hdc Hdf Hsc Hd Hren Hk Hu.
  assert (Hside : side r s d) by (repeat split; assumption).
  rewrite (nil_iff_false _ _ (rule_iff r s d Hr Hside)).
  rewrite (nil_iff_false _ _ (rule_iff r s d' Hr (side_rel ren hk pa pv ps s d d' Hd r Hside))).
  rewrite (violated_rel ren hk pa pv ps r s d d' fo Hd Hren Hk Hu). reflexivity.
Qed.

Theorem run_alone_perm_arguments : forall r s d d',
  r <> R_OverlappingFieldsCanBeMerged ->
  wf_schema s = true -> doc_types_proper d = true -> defaults_const d = true ->
  distinct_fragments d = true -> rule_in_scope r s d = true ->
  perm_args_doc d d' ->
  (run_alone r s d = [] <-> run_alone r s d' = []).
Proof.
  intros r s d d' Hr Hwf Hty Hdc Hdf Hsc Hd.
  apply (run_alone_rel (fun n => n) None true false false r s d d' (fun x => x)); try assumption;
    [apply renames_id|apply key_injective_none|discriminate].
Qed.

Theorem run_alone_perm_variable_definitions : forall r s d d',
  r <> R_OverlappingFieldsCanBeMerged ->
  wf_schema s = true -> doc_types_proper d = true -> defaults_const d = true ->
  distinct_fragments d = true -> rule_in_scope r s d = true ->
  perm_vars_doc d d' ->
  (r = R_VariablesInAllowedPosition -> violated R_UniqueVariableNames s d = false) ->
  (run_alone r s d = [] <-> run_alone r s d' = []).
Proof.
  intros r s d d' Hr Hwf Hty Hdc Hdf Hsc Hd Hu.
  apply (run_alone_rel (fun n => n) None false true false r s d d' (fun x => x)); try assumption;
    [apply renames_id|apply key_injective_none|]. intros _. exact Hu.
Qed.

Theorem run_alone_perm_selections : forall r s d d',
  r <> R_OverlappingFieldsCanBeMerged ->
  wf_schema s = true -> doc_types_proper d = true -> defaults_const d = true ->
  distinct_fragments d = true -> rule_in_scope r s d = true ->
  perm_sels_doc d d' ->
  (run_alone r s d = [] <-> run_alone r s d' = []).
Proof.
  intros r s d d' Hr Hwf Hty Hdc Hdf Hsc Hd.
  apply (run_alone_rel (fun n => n) None false false true r s d d' (fun x => x)); try assumption;
    [apply renames_id|apply key_injective_none|discriminate].
Qed.

Theorem run_alone_rename_operations : forall fo r s d d',
  r <> R_OverlappingFieldsCanBeMerged ->
  wf_schema s = true -> doc_types_proper d = true -> defaults_const d = true ->
  distinct_fragments d = true -> rule_in_scope r s d = true ->
  rename_ops_doc fo d d' -> injective_on fo (named_operation_names d) ->
  (run_alone r s d = [] <-> run_alone r s d' = []).
Proof.
  intros fo r s d d' Hr Hwf Hty Hdc Hdf Hsc Hd Hinj.
  apply (run_alone_rel (opt_map fo) None false false false r s d d' fo); try assumption;
    [split; [reflexivity|exact Hinj]|apply key_injective_none|discriminate].
Qed.

Theorem run_alone_rename_aliases : forall h r s d d',
  r <> R_OverlappingFieldsCanBeMerged ->
  wf_schema s = true -> doc_types_proper d = true -> defaults_const d = true ->
  distinct_fragments d = true -> rule_in_scope r s d = true ->
  rename_aliases_doc h d d' -> (forall a b, h a = h b -> a = b) ->
  (run_alone r s d = [] <-> run_alone r s d' = []).
Proof.
  intros h r s d d' Hr Hwf Hty Hdc Hdf Hsc Hd Hinj.
  apply (run_alone_rel (fun n => n) (Some h) false false false r s d d' (fun x => x)); try assumption;
    [apply renames_id|discriminate].
Qed.

(* ------------------------------------------------------------------ the hypotheses are needed *)
(* two definitions of variable $v with different types: the usage is checked against the first *)
Definition cxv_schema : sdocument :=
  [SDType (TDObject "Query" [] [mkFD "a" [mkIV "x" (TNamed "Int") None] (TNamed "String")]);
   SDType (TDScalar "String"); SDType (TDScalar "Int")].
Definition cxv_field : selection := SField cx_z None "a" [("x", VVar "v")] [] (cx_z, cx_z) [].
Definition cxv_v1 : vardef := mkVardef cx_z "v" (TNamed "Int") None.
Definition cxv_v2 : vardef := mkVardef cx_z "v" (TNamed "String") None.
Definition cxv_d1 : document := [DOp (mkOperation OpQuery cx_z (Some "Q") [cxv_v1; cxv_v2] [] (cx_z, cx_z) [cxv_field])].
Definition cxv_d2 : document := [DOp (mkOperation OpQuery cx_z (Some "Q") [cxv_v2; cxv_v1] [] (cx_z, cx_z) [cxv_field])].

Lemma perm_vars_needs_unique_variable_names :
  wf_schema cxv_schema = true /\ perm_vars_doc cxv_d1 cxv_d2 /\
  violated R_UniqueVariableNames cxv_schema cxv_d1 = true /\
  violated R_VariablesInAllowedPosition cxv_schema cxv_d1 = false /\
  violated R_VariablesInAllowedPosition cxv_schema cxv_d2 = true /\
  run_alone R_VariablesInAllowedPosition cxv_schema cxv_d1 = [] /\
  run_alone R_VariablesInAllowedPosition cxv_schema cxv_d2 <> [].
Proof.
  split; [vm_compute; reflexivity|]. split.
  - constructor; [|constructor]. constructor.
    apply (ROp (fun n => n) None false true false OpQuery cx_z (Some "Q") [cxv_v1; cxv_v2] [cxv_v2; cxv_v1]).
    + cbn [lperm]. apply perm_swap.
    + constructor.
    + apply rsels_refl.
  - repeat split; try (vm_compute; reflexivity). vm_compute. discriminate.
Qed.

(* a renaming that identifies two operation names *)
Definition cxr_op (n : name) : definition := DOp (mkOperation OpQuery cx_z (Some n) [] [] (cx_z, cx_z) [cx_field "a"]).
Lemma rename_needs_injective :
  rename_ops_doc (fun _ => "Q") [cxr_op "A"; cxr_op "B"] [cxr_op "Q"; cxr_op "Q"] /\
  violated R_UniqueOperationNames cx_schema [cxr_op "A"; cxr_op "B"] = false /\
  violated R_UniqueOperationNames cx_schema [cxr_op "Q"; cxr_op "Q"] = true.
Proof.
  split; [|split; vm_compute; reflexivity].
  exact (rename_ops_doc_map (fun _ => "Q") [cxr_op "A"; cxr_op "B"]).
Qed.

(* a re-aliasing that identifies two response keys *)
Definition cxa_doc : document :=
  [DOp (mkOperation OpQuery cx_z (Some "Q") [] [] (cx_z, cx_z)
          [cx_field "a"; SField cx_z None "t" [] [] (cx_z, cx_z) [cx_field "a"]])].
Lemma realias_needs_injective :
  rename_aliases_doc (fun _ => "x") cxa_doc (map (realias_def (fun _ => "x")) cxa_doc) /\
  violated R_OverlappingFieldsCanBeMerged cx_schema cxa_doc = false /\
  violated R_OverlappingFieldsCanBeMerged cx_schema (map (realias_def (fun _ => "x")) cxa_doc) = true.
Proof. split; [apply rename_aliases_doc_map|split; vm_compute; reflexivity]. Qed.

(* the relations are not degenerate: swapping two arguments, two selections *)
Example perm_args_example :
  perm_args_doc [DOp (mkOperation OpQuery cx_z None [] [] (cx_z, cx_z)
                        [SField cx_z None "f" [("x", VInt 1); ("y", VInt 2)] [] (cx_z, cx_z) []])]
                [DOp (mkOperation OpQuery cx_z None [] [] (cx_z, cx_z)
                        [SField cx_z None "f" [("y", VInt 2); ("x", VInt 1)] [] (cx_z, cx_z) []])].
Proof.
  constructor; [|constructor]. constructor.
  apply (ROp (fun n => n) None true false false OpQuery cx_z None [] []); [reflexivity|constructor|].
  eexists. split; [reflexivity|]. constructor; [|constructor].
  apply RField with (m := []); [reflexivity|apply perm_swap|constructor|reflexivity|constructor].
Qed.
Example perm_sels_example :
  perm_sels_doc [DOp (mkOperation OpQuery cx_z None [] [] (cx_z, cx_z) [cx_field "a"; SSpread cx_z "F" []])]
                [DOp (mkOperation OpQuery cx_z None [] [] (cx_z, cx_z) [SSpread cx_z "F" []; cx_field "a"])].
Proof.
  constructor; [|constructor]. constructor.
  apply (ROp (fun n => n) None false false true OpQuery cx_z None [] []); [reflexivity|constructor|].
  exists [SSpread cx_z "F" []; cx_field "a"]. split; [apply perm_swap|].
  constructor; [apply rsel_refl|constructor; [apply rsel_refl|constructor]].
Qed.

Print Assumptions violated_perm_arguments.
Print Assumptions violated_perm_variable_definitions.
Print Assumptions violated_perm_selections.
Print Assumptions violated_perm_lists.
Print Assumptions violated_rename_operations.
Print Assumptions violated_rename_aliases.
Print Assumptions run_alone_perm_arguments.
Print Assumptions run_alone_perm_variable_definitions.
Print Assumptions run_alone_perm_selections.
Print Assumptions run_alone_rename_operations.
Print Assumptions run_alone_rename_aliases.

(* C05_frag_fuel.v — OverlappingFieldsCanBeMerged: on documents without fragment cycles the fuel
   [merge_fuel d] given to the memoised search is sufficient, whatever the memo tables contain
   (the bound does not rely on the memo tables: the depth of the recursion is bounded by the
   nesting of fields, at most [doc_fields d] levels on an acyclic document, times the length of
   the chains of fragment comparisons between two levels, at most twice the number of fragments). *)
From Coq Require Import Permutation.
From GT Require Import Visitor Validate Merge.
From GTS Require Import SpecLin Annot WfSchema SpecCollect SpecRules SpecMerge SpecValid.
From GTP Require Import VisitorFacts TraceFacts RuleFacts EventFacts C06_graph_proofs C06_proofs C05_proofs
     C05_frag_graph C05_frag_spec C05_frag_sound C05_frag_rank.

Lemma seq_total run l : (forall c, In c l -> forall st, exists r, run c st = Some r) ->
  forall st, exists r, seq_calls run l st = Some r.
Proof.
  induction l as [|c l' IH]; intros H st; cbn [seq_calls]; [eexists; reflexivity|].
  destruct (H c (or_introl eq_refl) st) as [[st1 cs1] E1]. rewrite E1. fold (seq_calls run l' st1).
  destruct (IH (fun c' Hc' => H c' (or_intror Hc')) st1) as [[st2 cs2] E2]. rewrite E2. eexists. reflexivity.
Qed.

Lemma ff_loop_total run fm m l : (forall f, In f l -> forall st, exists r, run (CFieldsAndFragment fm f m) st = Some r) ->
  forall st acc, exists r, ff_loop run fm m l st acc = Some r.
Proof.
  induction l as [|f l' IH]; intros H st acc; cbn [ff_loop]; [eexists; reflexivity|].
  fold (ff_loop run fm m). destruct (mem_name f (ms_visited st)).
  - apply (IH (fun f' Hf' => H f' (or_intror Hf'))).
  - destruct (H f (or_introl eq_refl) (mkMS (ms_compared st) (ms_visited st ++ [f]) (ms_being st))) as [[st2 cs2] E].
    rewrite E. apply (IH (fun f' Hf' => H f' (or_intror Hf'))).
Qed.

Section Fuel.
  Variables (s : sdocument) (d : document).
  Hypothesis Hacyc : forall u, ~ cyc d u.

  Notation hbf := (hb cfield (sub_child s d)).
  Notation G := (List.length (fragments_of d)).
  Definition Lv : nat := 2 * G + 5.
  Definition Bn (h : nat) : nat := 1 + h * Lv.

  Lemma hb_mono x h h' : hbf x h -> h <= h' -> hbf x h'.
  Proof.
    intros H Hle. inversion H as [x' h0 Hc]; subst. constructor. intros u Hu.
    destruct (Hc u Hu) as [h1 [Hlt Hu']]. exists h1. split; [lia|exact Hu'].
  Qed.

  Definition Hlt (h : nat) (v : cfield) : Prop := exists h', h' < h /\ hbf v h'.

  Lemma Hlt_children x h u : hbf x h -> In u (sub_set s d x) -> Hlt h u.
  Proof. intros H Hu. inversion H as [x' h0 Hc]; subst. apply (Hc u Hu). Qed.

  Definition wfa2 (a : astdef) : Prop := ad_of (cf_of a) = a.
  Definition fmF (h : nat) (fm : fmap) : Prop := forall a, In a (fm_fields fm) -> wfa2 a /\ Hlt h (cf_of a).
  Definition fragF (h : nat) (f : name) : Prop :=
    forall g v, lreach d f g -> In v (fdirect s d g) -> Hlt h v.

  Definition legitF (h : nat) (c : mcall) : Prop :=
    match c with
    | CFindConflict a b _ => wfa2 a /\ wfa2 b /\ hbf (cf_of a) h /\ hbf (cf_of b) h
    | CBetweenSub _ pn1 s1 pn2 s2 =>
        forall u, In u (collected s d (opt_bind pn1 (type_by_name s)) s1) \/
                  In u (collected s d (opt_bind pn2 (type_by_name s)) s2) -> Hlt h u
    | CFieldsAndFragment fm f _ => fmF h fm /\ fragF h f
    | CBetweenFragments a b _ => fragF h a /\ fragF h b
    | CBetween _ fm1 fm2 => fmF h fm1 /\ fmF h fm2
    | CFragmentLoop fm frs _ => fmF h fm /\ forall f, In f frs -> fragF h f
    | CWithin fm => fmF h fm
    | CWithinSelectionSet P sels => forall u, In u (collected s d P sels) -> Hlt h u
    end.

  Definition need (h : nat) (c : mcall) : nat :=
    match c with
    | CFindConflict _ _ _ => (h + 1) * Lv
    | CBetweenSub _ _ _ _ _ => Bn h + 2 * G + 3
    | CFieldsAndFragment _ f _ => rk d f + Bn h + 1
    | CBetweenFragments a b _ => rk d a + rk d b + Bn h + 1
    | CBetween _ _ _ => Bn h
    | CFragmentLoop _ frs _ => maxr d frs + Bn h + 2
    | CWithin _ => Bn h
    | CWithinSelectionSet _ _ => Bn h + 2 * G + 3
    end.

  Lemma fmF_of h C : (forall c, In c C -> Hlt h c) -> fmF h (fm_of (map ad_of C) []).
  Proof.
    intros H a Ha. apply fm_fields_of in Ha. destruct Ha as [c [Hc ->]]. unfold wfa2. rewrite cf_of_ad_of.
    split; [reflexivity|apply H, Hc].
  Qed.

  Lemma maxr_bound l : maxr d l <= G.
  Proof.
    unfold maxr. apply list_max_le_all. intros k Hk. apply in_map_iff in Hk. destruct Hk as [f [<- _]].
    apply rk_bound.
  Qed.

  Lemma find_calls_ok h fm1 fm2 a b : fmF h fm1 -> fmF h fm2 -> In a (fm_fields fm1) -> In b (fm_fields fm2) ->
    exists h', legitF h' (CFindConflict a b false) /\ need h' (CFindConflict a b false) + 1 <= Bn h.
  Proof.
    intros F1 F2 Ha Hb. destruct (F1 a Ha) as [Wa [h1 [L1 H1]]]. destruct (F2 b Hb) as [Wb [h2 [L2 H2]]].
    exists (Nat.max h1 h2). split.
    - cbn [legitF]. split; [exact Wa|]. split; [exact Wb|].
      split; [apply (hb_mono _ _ _ H1); lia|apply (hb_mono _ _ _ H2); lia].
    - cbn [need]. unfold Bn. assert (Hm : Nat.max h1 h2 + 1 <= h) by lia.
      assert ((Nat.max h1 h2 + 1) * Lv <= h * Lv) by (apply Nat.mul_le_mono_r, Hm). lia.
  Qed.

  Theorem mrun_total : forall fuel h c st, legitF h c -> need h c <= fuel -> exists r, mrun fuel s d c st = Some r.
  Proof.
    induction fuel as [|fuel IH]; intros h c st Hl Hn.
    { exfalso. destruct c; cbn [need] in Hn; unfold Bn, Lv in Hn; lia. }
    destruct c as [a b pm|m pn1 s1 pn2 s2|fm f m|f1 f2 m|m fm1 fm2|fm frs m|fm|P sels].
    - (* CFindConflict *)
      destruct Hl as [Wa [Wb [Ha Hb]]]. cbn [need] in Hn. rewrite mrun_find. cbv zeta.
      destruct (negb (find_mutex pm a b) && negb (name_eqb (sel_name (ad_field a)) (sel_name (ad_field b))));
        [eexists; reflexivity|].
      destruct (negb (find_mutex pm a b) && negb (is_same_arguments (sel_args (ad_field a)) (sel_args (ad_field b))));
        [eexists; reflexivity|].
      destruct (type_conf s a b); [eexists; reflexivity|].
      destruct (negb (is_nil (sel_sels (ad_field a))) && negb (is_nil (sel_sels (ad_field b)))); [|eexists; reflexivity].
      destruct (being_hit st (sel_pos (ad_field a)) (sel_pos (ad_field b)) (find_mutex pm a b)); [eexists; reflexivity|].
      match goal with |- exists r, match mrun fuel s d ?c' ?st1 with _ => _ end = Some r =>
        destruct (IH h c' st1) as [[st2 cs] E] end.
      + cbn [legitF]. intros u [Hu|Hu].
        * apply (Hlt_children (cf_of a) h u Ha). unfold sub_set. rewrite <- (sub_parent_eq s (cf_of a)), Wa. exact Hu.
        * apply (Hlt_children (cf_of b) h u Hb). unfold sub_set. rewrite <- (sub_parent_eq s (cf_of b)), Wb. exact Hu.
      + cbn [need]. unfold Bn. rewrite Nat.mul_add_distr_r in Hn. unfold Lv in *. lia.
      + rewrite E. destruct (is_nil cs); eexists; reflexivity.
    - (* CBetweenSub *)
      cbn [legitF] in Hl. cbn [need] in Hn. rewrite mrun_between_sub, !gff_gen.
      set (P1 := opt_bind pn1 (type_by_name s)) in *. set (P2 := opt_bind pn2 (type_by_name s)) in *.
      assert (F1 : fmF h (fm_of (map ad_of (cfl s P1 s1)) [])).
      { apply fmF_of. intros c Hc. apply Hl. left. apply collected_In. left. exact Hc. }
      assert (F2 : fmF h (fm_of (map ad_of (cfl s P2 s2)) [])).
      { apply fmF_of. intros c Hc. apply Hl. right. apply collected_In. left. exact Hc. }
      assert (R1 : forall f, In f (frs_of s1) -> fragF h f).
      { intros f Hf g v Hg Hv. apply Hl. left. apply collected_In. right. exists g. split; [|exact Hv].
        exists f. split; [apply frs_of_In, Hf|exact Hg]. }
      assert (R2 : forall f, In f (frs_of s2) -> fragF h f).
      { intros f Hf g v Hg Hv. apply Hl. right. apply collected_In. right. exists g. split; [|exact Hv].
        exists f. split; [apply frs_of_In, Hf|exact Hg]. }
      apply seq_total. intros c Hc st0. cbn [app] in Hc. destruct Hc as [<-|[<-|[<-|Hc]]].
      + apply (IH h); [split; assumption|cbn [need]; lia].
      + apply (IH h); [split; assumption|]. cbn [need]. pose proof (maxr_bound (frs_of s2)). lia.
      + apply (IH h); [split; assumption|]. cbn [need]. pose proof (maxr_bound (frs_of s1)). lia.
      + apply in_flat_map in Hc. destruct Hc as [a [Ha Hc]]. apply in_map_iff in Hc. destruct Hc as [b [<- Hb]].
        apply (IH h); [split; [apply R1, Ha|apply R2, Hb]|]. cbn [need].
        pose proof (rk_bound d a). pose proof (rk_bound d b). lia.
    - (* CFieldsAndFragment *)
      destruct Hl as [F1 RF]. cbn [need] in Hn. rewrite mrun_ff.
      destruct (known_fragment d f) as [fr|] eqn:Ek; [|eexists; reflexivity].
      destruct (fdirect_known s d f fr Ek) as [Hfd [Hfn Hfr]]. rewrite (grf_eq s).
      destruct (mem_name f (frs_of (fr_sels fr))); [eexists; reflexivity|].
      set (fm2 := fm_of (map ad_of (cfl s (type_by_name s (fr_tc fr)) (fr_sels fr))) []).
      assert (F2 : fmF h fm2).
      { apply fmF_of. intros c Hc. apply (RF f c (lr_refl d f)). rewrite Hfd. exact Hc. }
      destruct (IH h (CBetween m fm fm2) st (conj F1 F2)) as [[st1 cs1] E1]; [cbn [need]; lia|]. rewrite E1.
      apply ff_loop_total. intros f2 Hf2 st0.
      assert (He : ledge d f f2) by (unfold ledge; rewrite Hfn; apply frs_of_In, Hf2).
      apply (IH h).
      + split; [exact F1|]. intros g v Hg Hv. apply (RF g v); [econstructor; eassumption|exact Hv].
      + cbn [need]. pose proof (rk_ledge d Hacyc f f2 He). lia.
    - (* CBetweenFragments *)
      destruct Hl as [RA RB]. cbn [need] in Hn. rewrite mrun_bf.
      destruct (name_eqb f1 f2); [eexists; reflexivity|].
      destruct (ps_contains (ms_compared st) f1 f2 m); [eexists; reflexivity|]. cbv zeta.
      destruct (known_fragment d f1) as [fa|] eqn:Ea; [|eexists; reflexivity].
      destruct (known_fragment d f2) as [fb|] eqn:Eb; [|eexists; reflexivity].
      destruct (fdirect_known s d f1 fa Ea) as [Hfd1 [Hfn1 Hfr1]].
      destruct (fdirect_known s d f2 fb Eb) as [Hfd2 [Hfn2 Hfr2]].
      rewrite !(grf_eq s). apply seq_total. intros c Hc st0. cbn [app] in Hc. destruct Hc as [<-|Hc].
      + apply (IH h); [|cbn [need]; lia]. split; apply fmF_of; intros c Hc.
        * apply (RA f1 c (lr_refl d f1)). rewrite Hfd1. exact Hc.
        * apply (RB f2 c (lr_refl d f2)). rewrite Hfd2. exact Hc.
      + apply in_app_or in Hc. destruct Hc as [Hc|Hc]; apply in_map_iff in Hc; destruct Hc as [x [<- Hx]];
          apply frs_of_In in Hx; apply (IH h).
        * split; [exact RA|]. intros g v Hg Hv. apply (RB g v); [|exact Hv].
          econstructor; [|exact Hg]. unfold ledge. rewrite Hfn2. exact Hx.
        * cbn [need]. assert (He : ledge d f2 x) by (unfold ledge; rewrite Hfn2; exact Hx).
          pose proof (rk_ledge d Hacyc f2 x He). lia.
        * split; [|exact RB]. intros g v Hg Hv. apply (RA g v); [|exact Hv].
          econstructor; [|exact Hg]. unfold ledge. rewrite Hfn1. exact Hx.
        * cbn [need]. assert (He : ledge d f1 x) by (unfold ledge; rewrite Hfn1; exact Hx).
          pose proof (rk_ledge d Hacyc f1 x He). lia.
    - (* CBetween *)
      destruct Hl as [F1 F2]. cbn [need] in Hn. rewrite mrun_between. apply seq_total. intros c Hc st0.
      destruct (in_between_calls _ _ _ _ Hc) as [k [g [g2 [a [b [Hkg [Eg [Ha [Hb ->]]]]]]]]].
      assert (Hfa : In a (fm_fields fm1)) by (apply in_flat_map; exists (k, g); split; assumption).
      assert (Hfb : In b (fm_fields fm2)).
      { apply in_flat_map. exists (k, g2). split; [apply al_get_Some_In, Eg|exact Hb]. }
      destruct (find_calls_ok h fm1 fm2 a b F1 F2 Hfa Hfb) as [h' [L' N']].
      apply (IH h'); [exact L'|]. cbn [need] in *. lia.
    - (* CFragmentLoop *)
      destruct Hl as [F1 RF]. cbn [need] in Hn. rewrite mrun_floop.
      match goal with |- exists r, match seq_calls ?run ?l ?st0 with _ => _ end = Some r =>
        destruct (seq_total run l) with (st := st0) as [[st1 cs] E] end.
      + intros c Hc st0. apply in_map_iff in Hc. destruct Hc as [f [<- Hf]]. apply (IH h).
        * split; [exact F1|apply RF, Hf].
        * cbn [need]. pose proof (maxr_In d frs f Hf). lia.
      + rewrite E. eexists. reflexivity.
    - (* CWithin *)
      rename Hl into F1. cbn [need] in Hn. rewrite mrun_within. apply seq_total. intros c Hc st0.
      destruct (in_within_calls _ _ Hc) as [k [g [a [b [Hkg [Ha [Hb ->]]]]]]].
      assert (Hfa : In a (fm_fields fm)) by (apply in_flat_map; exists (k, g); split; assumption).
      assert (Hfb : In b (fm_fields fm)) by (apply in_flat_map; exists (k, g); split; assumption).
      destruct (find_calls_ok h fm fm a b F1 F1 Hfa Hfb) as [h' [L' N']].
      apply (IH h'); [exact L'|]. cbn [need] in *. lia.
    - (* CWithinSelectionSet *)
      cbn [legitF] in Hl. cbn [need] in Hn. rewrite mrun_wss, gff_gen.
      set (fm := fm_of (map ad_of (cfl s P sels)) []).
      assert (F1 : fmF h fm).
      { apply fmF_of. intros c Hc. apply Hl. apply collected_In. left. exact Hc. }
      assert (R1 : forall f, In f (frs_of sels) -> fragF h f).
      { intros f Hf g v Hg Hv. apply Hl. apply collected_In. right. exists g. split; [|exact Hv].
        exists f. split; [apply frs_of_In, Hf|exact Hg]. }
      destruct (IH h (CWithin fm) st F1) as [[st0 cs0] E0]; [cbn [need]; lia|]. rewrite E0.
      match goal with |- exists r, match seq_calls ?run ?l ?st1 with _ => _ end = Some r =>
        destruct (seq_total run l) with (st := st1) as [[st2 cs] E] end.
      + intros c Hc st1. apply wss_calls_In in Hc. destruct Hc as [[f [Hf ->]]|[g1 [g2 [Hg1 [Hg2 ->]]]]].
        * apply (IH h); [split; [exact F1|apply R1, Hf]|]. cbn [need]. pose proof (rk_bound d f). lia.
        * apply (IH h); [split; [apply R1, Hg1|apply R1, Hg2]|]. cbn [need].
          pose proof (rk_bound d g1). pose proof (rk_bound d g2). lia.
      + rewrite E. eexists. reflexivity.
  Qed.

  (* ---------------------------------------------------------------- one selection set of the document *)
  Lemma merge_fuel_enough : need (S (doc_fields d)) (CWithinSelectionSet None []) <= merge_fuel d.
  Proof.
    cbn [need]. unfold Bn, Lv, merge_fuel. set (nf := doc_fields d). set (g := List.length (fragments_of d)). nia.
  Qed.

  Theorem merge_set_total P sels st : incl (sels_all sels) (doc_selections d) ->
    exists r, mrun (merge_fuel d) s d (CWithinSelectionSet P sels) st = Some r.
  Proof.
    intro Hdoc. apply (mrun_total (merge_fuel d) (S (doc_fields d))).
    - cbn [legitF]. intros u Hu. destruct (collected_below s d P sels u Hdoc Hu) as [Fu _].
      exists (doc_fields d). split; [lia|]. apply (field_height s d Hacyc u Fu).
    - apply merge_fuel_enough.
  Qed.
End Fuel.

(* ================================================================== the whole walk never runs out of fuel *)
Lemma ofm_fold_oof s d tr : forall st,
  (forall sp sels c, In (Enter (NSelectionSet sp sels), c) tr ->
     forall cmp, exists r, mrun (merge_fuel d) s d (CWithinSelectionSet (current_parent_type c) sels) (mkMS cmp [] []) = Some r) ->
  r_oof (ofm_res (fold_left (hh (ofm_step s d)) tr st)) = r_oof (ofm_res st).
Proof.
  induction tr as [|[e c] r IH]; intros st H; cbn [fold_left]; [reflexivity|].
  rewrite IH by (intros sp sels c0 H0; apply (H sp sels c0); right; exact H0).
  unfold hh. cbn [fst snd]. destruct e as [n|n]; [destruct n|]; cbn [ofm_step ofm_step_with]; try reflexivity.
  destruct (H sp items c (or_introl eq_refl) (ofm_compared st)) as [[ms cs] E]. rewrite E. reflexivity.
Qed.

Theorem merge_fuel_sufficient_acyclic : forall s d c,
  v_no_fragment_cycles d = false -> r_oof (snd (run_rule R_OverlappingFieldsCanBeMerged s d c)) = false.
Proof.
  intros s d c Hc. cbn [run_rule]. rewrite visit_fold. cbn [snd].
  assert (Hacyc : forall u, ~ cyc d u).
  { intros u Hu. assert (Ht : v_no_fragment_cycles d = true) by (apply cycles_spec; exists u; exact Hu).
    rewrite Ht in Hc. discriminate. }
  rewrite ofm_fold_oof; [reflexivity|]. intros sp sels c0 Hin cmp.
  apply (merge_set_total s d Hacyc). 
  assert (He : In (Enter (NSelectionSet sp sels)) (lin_document d)).
  { rewrite <- (ctr_document_events s d c). apply in_map_iff. exists (Enter (NSelectionSet sp sels), c0).
    split; [reflexivity|exact Hin]. }
  destruct (seg_selset d sp sels He) as [l1 [l3 E]]. rewrite E. intros z Hz.
  apply in_or_app. right. apply in_or_app. left. exact Hz.
Qed.

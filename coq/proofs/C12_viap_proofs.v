(* C12_viap_proofs.v — VariablesInAllowedPosition: the spreads of a scope are a HashSet in the Rust
   code, iterated in arbitrary order by the reachability walk.  Enumerating every such set in another
   order makes the depth-first walk visit the scopes in another order, but it visits the same set of
   scopes (those reachable from the start through scopes not visited before: the "white path"
   characterisation of depth-first search), each once, and appends the usage errors of a scope when it
   visits it; hence the reported errors are a permutation of each other — provided neither walk runs
   out of fuel. *)
From GT Require Import Visitor Validate.
From Coq Require Import Permutation.

(* ================================================================ scopes *)
Lemma sc_name_eqb_eq a b : name_eqb a b = true <-> a = b.
Proof. unfold name_eqb. apply String.eqb_eq. Qed.
Lemma sc_oname_eqb_eq a b : oname_eqb a b = true <-> a = b.
Proof. destruct a, b; cbn [oname_eqb]; rewrite ?sc_name_eqb_eq; split; congruence. Qed.
Lemma sc_opkey_eqb_eq a b : opkey_eqb a b = true <-> a = b.
Proof.
  destruct a as [i x], b as [j y]. unfold opkey_eqb. cbn [fst snd].
  rewrite andb_true_iff, Nat.eqb_eq, sc_oname_eqb_eq. split; [intros [-> ->]; reflexivity|intro H; inversion H; auto].
Qed.
Lemma sc_scope_eqb_eq a b : scope_eqb a b = true <-> a = b.
Proof.
  destruct a as [i x|x], b as [j y|y]; cbn [scope_eqb]; rewrite ?sc_opkey_eqb_eq, ?sc_name_eqb_eq; split; congruence.
Qed.

Lemma scope_eq_dec (a b : scope) : {a = b} + {a <> b}.
Proof.
  destruct (scope_eqb a b) eqn:E.
  - left. apply sc_scope_eqb_eq. exact E.
  - right. intro H. apply sc_scope_eqb_eq in H. congruence.
Qed.

Lemma sc_existsb_In x l : existsb (scope_eqb x) l = true <-> In x l.
Proof.
  rewrite existsb_exists. split.
  - intros [y [H1 H2]]. apply sc_scope_eqb_eq in H2. subst y. exact H1.
  - intro H. exists x. split; [exact H|]. apply sc_scope_eqb_eq. reflexivity.
Qed.

Lemma NoDup_app_disj {A} (a b : list A) :
  NoDup a -> NoDup b -> (forall x, In x a -> ~ In x b) -> NoDup (a ++ b).
Proof.
  intros Ha Hb Hd. induction Ha as [|x a Hx Ha IH]; [exact Hb|].
  cbn [app]. constructor.
  - rewrite in_app_iff. intros [H|H]; [exact (Hx H)|]. exact (Hd x (or_introl eq_refl) H).
  - apply IH. intros y Hy. apply Hd. right. exact Hy.
Qed.

(* ================================================================ white paths *)
Section Graph.
  Variable succ : scope -> list scope.

  (* a path from x to y none of whose nodes (x and y included) is in V *)
  Inductive wreach (V : list scope) : scope -> scope -> Prop :=
  | wr_refl x : ~ In x V -> wreach V x x
  | wr_step x z y : ~ In x V -> In z (succ x) -> wreach V z y -> wreach V x y.

  Lemma wreach_start V x y : wreach V x y -> ~ In x V.
  Proof. intro H. destruct H; assumption. Qed.

  Lemma wreach_end V x y : wreach V x y -> ~ In y V.
  Proof. intro H. induction H; assumption. Qed.

  Lemma wreach_mono V V' x y : (forall a, In a V -> In a V') -> wreach V' x y -> wreach V x y.
  Proof.
    intros Hsub H. induction H as [x Hx|x z y Hx Hz _ IH].
    - apply wr_refl. intro H. apply Hx. apply Hsub. exact H.
    - apply (wr_step V x z y); [|exact Hz|exact IH]. intro H. apply Hx. apply Hsub. exact H.
  Qed.

  Lemma wreach_trans V x p y : wreach V x p -> wreach V p y -> wreach V x y.
  Proof.
    intros H1 H2. induction H1 as [x Hx|x z p Hx Hz _ IH]; [exact H2|].
    apply (wr_step V x z y Hx Hz). apply IH. exact H2.
  Qed.

  (* a V-avoiding path either avoids N too, or its end is reachable from a node of N *)
  Lemma wreach_split V N x y :
    wreach V x y -> wreach (V ++ N) x y \/ exists p, In p N /\ wreach V p y.
  Proof.
    intro H. induction H as [x Hx|x z y Hx Hz Hzy IH].
    - destruct (in_dec scope_eq_dec x N) as [HN|HN].
      + right. exists x. split; [exact HN|apply wr_refl; exact Hx].
      + left. apply wr_refl. rewrite in_app_iff. tauto.
    - destruct IH as [IH|IH]; [|right; exact IH].
      destruct (in_dec scope_eq_dec x N) as [HN|HN].
      + right. exists x. split; [exact HN|]. exact (wr_step V x z y Hx Hz Hzy).
      + left. apply (wr_step (V ++ N) x z y); [|exact Hz|exact IH]. rewrite in_app_iff. tauto.
  Qed.

  (* cut a path at the last occurrence of x *)
  Lemma wreach_last V x x' y :
    wreach V x' y ->
    wreach (V ++ [x]) x' y \/ y = x \/ exists z, In z (succ x) /\ wreach (V ++ [x]) z y.
  Proof.
    intro H. induction H as [x' Hx'|x' z y Hx' Hz _ IH].
    - destruct (scope_eq_dec x' x) as [E|E].
      + right. left. exact E.
      + left. apply wr_refl. rewrite in_app_iff. cbn [In]. intros [H|[H|[]]]; [exact (Hx' H)|]. congruence.
    - destruct IH as [IH|IH]; [|right; exact IH].
      destruct (scope_eq_dec x' x) as [E|E].
      + subst x'. right. right. exists z. split; [exact Hz|exact IH].
      + left. apply (wr_step (V ++ [x]) x' z y); [|exact Hz|exact IH].
        rewrite in_app_iff. cbn [In]. intros [H|[H|[]]]; [exact (Hx' H)|]. congruence.
  Qed.

  Lemma wreach_from V x y :
    wreach V x y -> y = x \/ exists z, In z (succ x) /\ wreach (V ++ [x]) z y.
  Proof.
    intro H. destruct (wreach_last V x x y H) as [H1|H1]; [|exact H1].
    exfalso. apply (wreach_start _ _ _ H1). rewrite in_app_iff. right. left. reflexivity.
  Qed.
End Graph.

Lemma wreach_ext succ succ' V x y :
  (forall a b, In b (succ a) <-> In b (succ' a)) -> wreach succ V x y -> wreach succ' V x y.
Proof.
  intros Hext H. induction H as [x Hx|x z y Hx Hz _ IH].
  - apply wr_refl. exact Hx.
  - apply (wr_step succ' V x z y Hx); [|exact IH]. apply Hext. exact Hz.
Qed.

(* ================================================================ the walk *)
Definition sget (st : viap_state) (x : scope) : list name :=
  match as_get scope_eqb x (vp_spreads st) with Some l => l | None => [] end.
Definition vsucc (st : viap_state) (x : scope) : list scope := map ScFrag (sget st x).
Definition uerrs (s : sdocument) (st : viap_state) (vd : list vardef) (x : scope) : list verror :=
  usage_errors s vd (match as_get scope_eqb x (vp_usages st) with Some l => l | None => [] end).

Fixpoint viap_loop (walk : scope -> list verror -> list scope -> option (list verror * list scope))
         (l : list name) (errs : list verror) (visited : list scope) : option (list verror * list scope) :=
  match l with
  | [] => Some (errs, visited)
  | sp :: r =>
      match walk (ScFrag sp) errs visited with
      | Some (e', v') => viap_loop walk r e' v'
      | None => None
      end
  end.

Lemma viap_walk_S fuel s st vd from errs visited :
  viap_walk (S fuel) s st vd from errs visited =
  if existsb (scope_eqb from) visited then Some (errs, visited)
  else viap_loop (viap_walk fuel s st vd) (sget st from) (errs ++ uerrs s st vd from) (visited ++ [from]).
Proof.
  cbn [viap_walk]. destruct (existsb (scope_eqb from) visited); [reflexivity|].
  unfold sget, uerrs.
  generalize (errs ++ usage_errors s vd
                (match as_get scope_eqb from (vp_usages st) with Some l => l | None => [] end)).
  generalize (visited ++ [from]).
  generalize (match as_get scope_eqb from (vp_spreads st) with Some l => l | None => [] end).
  intro l. induction l as [|sp r IH]; intros v e; [reflexivity|].
  cbn [viap_loop]. destruct (viap_walk fuel s st vd (ScFrag sp) e v) as [[e' v']|]; [apply IH|reflexivity].
Qed.

(* what a successful walk returns: the newly visited scopes [new], appended to [visited] in the
   order of visit, are exactly the scopes reachable from [from] through scopes not in [visited],
   each once, and the errors appended are their usage errors in the same order *)
Definition walk_spec (succ : scope -> list scope) (U : scope -> list verror)
           (V : list scope) (errs : list verror) (from : scope) (res : list verror * list scope) : Prop :=
  exists new, snd res = V ++ new /\ fst res = errs ++ flat_map U new /\ NoDup new /\
              forall y, In y new <-> wreach succ V from y.

Lemma loop_spec succ U walk :
  (forall from errs V r, walk from errs V = Some r -> walk_spec succ U V errs from r) ->
  forall l e W e' v', viap_loop walk l e W = Some (e', v') ->
  exists new, v' = W ++ new /\ e' = e ++ flat_map U new /\ NoDup new /\
              forall y, In y new <-> exists z, In z l /\ wreach succ W (ScFrag z) y.
Proof.
  intros Hwalk l. induction l as [|z r IH]; intros e W e' v' H; cbn [viap_loop] in H.
  - inversion H; subst e' v'. exists []. cbn [flat_map]. rewrite !app_nil_r.
    repeat split; try constructor.
    + intros [].
    + intros [z [[] _]].
  - destruct (walk (ScFrag z) e W) as [[e1 v1]|] eqn:E1; [|discriminate].
    apply Hwalk in E1. destruct E1 as [new1 [Hv1 [He1 [Hnd1 Hin1]]]]. cbn [fst snd] in Hv1, He1.
    destruct (IH e1 v1 e' v' H) as [new2 [Hv2 [He2 [Hnd2 Hin2]]]].
    exists (new1 ++ new2). subst v1 e1. split; [|split; [|split]].
    + rewrite Hv2, app_assoc. reflexivity.
    + rewrite He2, flat_map_app, app_assoc. reflexivity.
    + apply NoDup_app_disj; [exact Hnd1|exact Hnd2|].
      intros x Hx1 Hx2. apply Hin2 in Hx2. destruct Hx2 as [z' [_ Hz']].
      apply wreach_end in Hz'. apply Hz'. rewrite in_app_iff. right. exact Hx1.
    + intro y. rewrite in_app_iff. split.
      * intros [Hy|Hy].
        -- exists z. split; [left; reflexivity|]. apply Hin1. exact Hy.
        -- apply Hin2 in Hy. destruct Hy as [z' [Hz' Hr]]. exists z'. split; [right; exact Hz'|].
           apply (wreach_mono succ W (W ++ new1)); [|exact Hr]. intros a Ha. rewrite in_app_iff. tauto.
      * intros [z' [[Hz'|Hz'] Hr]].
        -- subst z'. left. apply Hin1. exact Hr.
        -- destruct (wreach_split succ W new1 _ _ Hr) as [Hs|[p [Hp Hpy]]].
           ++ right. apply Hin2. exists z'. split; [exact Hz'|exact Hs].
           ++ left. apply Hin1. apply (wreach_trans succ W _ p y); [|exact Hpy]. apply Hin1. exact Hp.
Qed.

Lemma viap_walk_spec s st vd fuel : forall from errs V r,
  viap_walk fuel s st vd from errs V = Some r ->
  walk_spec (vsucc st) (uerrs s st vd) V errs from r.
Proof.
  induction fuel as [|fuel IH]; intros from errs V r H; [discriminate|].
  rewrite viap_walk_S in H. destruct (existsb (scope_eqb from) V) eqn:Ev.
  - inversion H; subst r. exists []. cbn [fst snd flat_map]. rewrite !app_nil_r.
    repeat split; try constructor.
    + intros [].
    + intro Hr. apply wreach_start in Hr. apply Hr. apply sc_existsb_In. exact Ev.
  - assert (HnV : ~ In from V).
    { intro Hin. apply sc_existsb_In in Hin. congruence. }
    destruct r as [e' v'].
    destruct (loop_spec (vsucc st) (uerrs s st vd) (viap_walk fuel s st vd) IH _ _ _ _ _ H)
      as [new [Hv [He [Hnd Hin]]]].
    exists (from :: new). cbn [fst snd flat_map]. split; [|split; [|split]].
    + rewrite Hv, <- app_assoc. reflexivity.
    + rewrite He, <- app_assoc. reflexivity.
    + constructor; [|exact Hnd]. intro Hf. apply Hin in Hf. destruct Hf as [z [_ Hz]].
      apply wreach_end in Hz. apply Hz. rewrite in_app_iff. right. left. reflexivity.
    + intro y. cbn [In]. split.
      * intros [Hy|Hy].
        -- subst y. apply wr_refl. exact HnV.
        -- apply Hin in Hy. destruct Hy as [z [Hz Hr]].
           apply (wr_step (vsucc st) V from (ScFrag z) y HnV).
           ++ unfold vsucc. apply in_map. exact Hz.
           ++ apply (wreach_mono (vsucc st) V (V ++ [from])); [|exact Hr]. intros a Ha. rewrite in_app_iff. tauto.
      * intro Hr. destruct (wreach_from (vsucc st) V from y Hr) as [Hy|[z [Hz Hzy]]].
        -- left. symmetry. exact Hy.
        -- right. apply Hin. unfold vsucc in Hz. apply in_map_iff in Hz. destruct Hz as [n [Hn Hnin]].
           subst z. exists n. split; [exact Hnin|exact Hzy].
Qed.

(* ================================================================ order independence *)
(* [st'] differs from [st] only by the order (and multiplicity) in which the spreads of each scope
   are enumerated *)
Definition spreads_reordered (st st' : viap_state) : Prop :=
  vp_usages st = vp_usages st' /\ vp_defs st = vp_defs st' /\
  forall x n, In n (sget st x) <-> In n (sget st' x).

Lemma vsucc_reordered st st' : spreads_reordered st st' ->
  forall a b, In b (vsucc st a) <-> In b (vsucc st' a).
Proof.
  intros [_ [_ H]] a b. unfold vsucc. rewrite !in_map_iff.
  split; intros [n [Hn Hin]]; exists n; (split; [exact Hn|]); apply H; exact Hin.
Qed.

Lemma uerrs_reordered s st st' vd : spreads_reordered st st' -> forall x, uerrs s st vd x = uerrs s st' vd x.
Proof. intros [H _] x. unfold uerrs. rewrite H. reflexivity. Qed.

(* the visited set does not depend on the order, and the errors are the same up to permutation *)
Theorem viap_walk_reordered s st st' vd fuel fuel' from errs errs' V e1 v1 e2 v2 :
  spreads_reordered st st' ->
  viap_walk fuel s st vd from errs V = Some (e1, v1) ->
  viap_walk fuel' s st' vd from errs' V = Some (e2, v2) ->
  exists new1 new2,
    v1 = V ++ new1 /\ v2 = V ++ new2 /\ Permutation new1 new2 /\
    e1 = errs ++ flat_map (uerrs s st vd) new1 /\ e2 = errs' ++ flat_map (uerrs s st vd) new2.
Proof.
  intros Hre H1 H2. apply viap_walk_spec in H1. apply viap_walk_spec in H2.
  destruct H1 as [new1 [Hv1 [He1 [Hnd1 Hin1]]]]. destruct H2 as [new2 [Hv2 [He2 [Hnd2 Hin2]]]].
  cbn [fst snd] in *. exists new1, new2. repeat split; try assumption.
  - apply NoDup_Permutation; [exact Hnd1|exact Hnd2|]. intro y. rewrite Hin1, Hin2. split.
    + apply wreach_ext. apply vsucc_reordered. exact Hre.
    + apply wreach_ext. intros a b. symmetry. apply vsucc_reordered. exact Hre.
  - rewrite He2. f_equal. apply flat_map_ext. intro x. symmetry. apply uerrs_reordered. exact Hre.
Qed.

Corollary viap_walk_errors_perm s st st' vd fuel fuel' from errs errs' V e1 v1 e2 v2 :
  spreads_reordered st st' -> Permutation errs errs' ->
  viap_walk fuel s st vd from errs V = Some (e1, v1) ->
  viap_walk fuel' s st' vd from errs' V = Some (e2, v2) ->
  Permutation e1 e2 /\ Permutation v1 v2.
Proof.
  intros Hre Hp H1 H2.
  destruct (viap_walk_reordered s st st' vd fuel fuel' from errs errs' V e1 v1 e2 v2 Hre H1 H2)
    as [new1 [new2 [Hv1 [Hv2 [Hperm [He1 He2]]]]]].
  subst. split.
  - apply Permutation_app; [exact Hp|]. apply Permutation_flat_map. exact Hperm.
  - apply Permutation_app_head. exact Hperm.
Qed.

(* ---- the whole rule ---- *)
Definition viap_fold (s : sdocument) (d : document) (st : viap_state) :=
  fold_left (fun (res : rule_result) (entry : scope * list vardef) =>
               match viap_walk (vars_fuel d) s st (snd entry) (fst entry) (r_errors res) [] with
               | Some (errs, _) => mkRes errs (r_oof res)
               | None => mkRes (r_errors res) true
               end).

Lemma viap_fold_oof_sticky s d st l : forall res, r_oof res = true -> r_oof (viap_fold s d st l res) = true.
Proof.
  induction l as [|en r IH]; intros res H; [exact H|].
  unfold viap_fold. cbn [fold_left]. apply IH.
  destruct (viap_walk _ _ _ _ _ _ _) as [[e v]|]; [exact H|reflexivity].
Qed.

Lemma viap_fold_reordered s d st st' : spreads_reordered st st' ->
  forall l res1 res2, Permutation (r_errors res1) (r_errors res2) ->
  r_oof (viap_fold s d st l res1) = false -> r_oof (viap_fold s d st' l res2) = false ->
  Permutation (r_errors (viap_fold s d st l res1)) (r_errors (viap_fold s d st' l res2)).
Proof.
  intros Hre l. induction l as [|en r IH]; intros res1 res2 Hp Ho1 Ho2; [exact Hp|].
  unfold viap_fold in *. cbn [fold_left] in *.
  destruct (viap_walk (vars_fuel d) s st (snd en) (fst en) (r_errors res1) []) as [[e1 v1]|] eqn:E1.
  2:{ fold (viap_fold s d st) in Ho1. rewrite viap_fold_oof_sticky in Ho1; [discriminate|reflexivity]. }
  destruct (viap_walk (vars_fuel d) s st' (snd en) (fst en) (r_errors res2) []) as [[e2 v2]|] eqn:E2.
  2:{ fold (viap_fold s d st') in Ho2. rewrite viap_fold_oof_sticky in Ho2; [discriminate|reflexivity]. }
  apply IH; [|exact Ho1|exact Ho2]. cbn [r_errors].
  exact (proj1 (viap_walk_errors_perm s st st' (snd en) _ _ (fst en) _ _ [] e1 v1 e2 v2 Hre Hp E1 E2)).
Qed.

(* VariablesInAllowedPosition: enumerating the spreads of every scope in another order yields a
   permutation of the reported errors, provided neither run exhausts the fuel *)
Theorem viap_finish_reordered : forall s d st st', spreads_reordered st st' ->
  r_oof (viap_finish s d st) = false -> r_oof (viap_finish s d st') = false ->
  Permutation (r_errors (viap_finish s d st)) (r_errors (viap_finish s d st')).
Proof.
  intros s d st st' Hre Ho1 Ho2. unfold viap_finish in *.
  pose proof Hre as [_ [Hd _]]. rewrite <- Hd in *.
  apply (viap_fold_reordered s d st st' Hre (vp_defs st) (mkRes [] false) (mkRes [] false));
    [apply Permutation_refl|exact Ho1|exact Ho2].
Qed.

(* the hypothesis in its concrete form: same keys in the same order, every value list permuted *)
Definition spreads_permuted (m m' : list (scope * list name)) : Prop :=
  Forall2 (fun a b => fst a = fst b /\ Permutation (snd a) (snd b)) m m'.

Lemma spreads_permuted_get m m' : spreads_permuted m m' -> forall x,
  Permutation (match as_get scope_eqb x m with Some l => l | None => [] end)
              (match as_get scope_eqb x m' with Some l => l | None => [] end).
Proof.
  intros H x. induction H as [|[k l] [k' l'] m m' [Hk Hl] _ IH]; [apply Permutation_refl|].
  cbn [fst snd] in Hk, Hl. subst k'. cbn [as_get]. destruct (scope_eqb x k); [exact Hl|exact IH].
Qed.

Lemma spreads_permuted_reordered st spreads' : spreads_permuted (vp_spreads st) spreads' ->
  spreads_reordered st (mkViap spreads' (vp_usages st) (vp_defs st) (vp_scope st) (vp_seen st) (vp_directive st)
                               (vp_objects st) (vp_defaults st)).
Proof.
  intro H. split; [reflexivity|split; [reflexivity|]]. intros x n. unfold sget. cbn [vp_spreads].
  pose proof (spreads_permuted_get _ _ H x) as Hp. split; intro Hin.
  - exact (Permutation_in _ Hp Hin).
  - exact (Permutation_in _ (Permutation_sym Hp) Hin).
Qed.

Theorem viap_finish_spreads_perm : forall s d st spreads',
  spreads_permuted (vp_spreads st) spreads' ->
  let st' := mkViap spreads' (vp_usages st) (vp_defs st) (vp_scope st) (vp_seen st) (vp_directive st)
                    (vp_objects st) (vp_defaults st) in
  r_oof (viap_finish s d st) = false -> r_oof (viap_finish s d st') = false ->
  Permutation (r_errors (viap_finish s d st)) (r_errors (viap_finish s d st')).
Proof.
  intros s d st spreads' H st'. apply viap_finish_reordered. apply spreads_permuted_reordered. exact H.
Qed.

(* ================================================================ enough fuel *)
(* the walk succeeds as soon as the fuel exceeds the number of entries of the spreads map whose key
   has not been visited yet: every recursive call made from a scope with spreads marks one more key *)
Definition unvisited (st : viap_state) (V : list scope) : nat :=
  List.length (filter (fun k => negb (existsb (scope_eqb k) V)) (map fst (vp_spreads st))).

Lemma filter_length_le {A} (p q : A -> bool) l :
  (forall x, q x = true -> p x = true) -> List.length (filter q l) <= List.length (filter p l).
Proof.
  intro H. induction l as [|x r IH]; [cbn; lia|]. cbn [filter].
  destruct (q x) eqn:Eq.
  - rewrite (H x Eq). cbn [List.length]. lia.
  - destruct (p x); cbn [List.length]; lia.
Qed.

Lemma filter_length_lt {A} (p q : A -> bool) l a :
  (forall x, q x = true -> p x = true) -> In a l -> p a = true -> q a = false ->
  List.length (filter q l) < List.length (filter p l).
Proof.
  intros H Hin Hp Hq. induction l as [|x r IH]; [destruct Hin|]. cbn [filter].
  destruct Hin as [Hx|Hin].
  - subst x. rewrite Hp, Hq. cbn [List.length]. pose proof (filter_length_le p q r H). lia.
  - specialize (IH Hin). destruct (q x) eqn:Eq.
    + rewrite (H x Eq). cbn [List.length]. lia.
    + destruct (p x); cbn [List.length]; lia.
Qed.

Lemma unvisited_mono st V V' : (forall a, In a V -> In a V') -> unvisited st V' <= unvisited st V.
Proof.
  intro Hsub. unfold unvisited. apply filter_length_le. intros k Hk.
  apply negb_true_iff in Hk. apply negb_true_iff.
  destruct (existsb (scope_eqb k) V) eqn:E; [|reflexivity].
  apply sc_existsb_In in E. apply Hsub in E. apply sc_existsb_In in E. congruence.
Qed.

Lemma as_get_scope_In {X} x (m : list (scope * X)) l : as_get scope_eqb x m = Some l -> In x (map fst m).
Proof.
  induction m as [|[k v] r IH]; [discriminate|]. cbn [as_get map fst In].
  destruct (scope_eqb x k) eqn:E.
  - intros _. left. symmetry. apply sc_scope_eqb_eq. exact E.
  - intro H. right. apply IH. exact H.
Qed.

Lemma unvisited_mark st V from l :
  as_get scope_eqb from (vp_spreads st) = Some l -> ~ In from V ->
  unvisited st (V ++ [from]) < unvisited st V.
Proof.
  intros Hget HnV. unfold unvisited. apply (filter_length_lt _ _ _ from).
  - intros k Hk. apply negb_true_iff in Hk. apply negb_true_iff.
    rewrite existsb_app in Hk. apply orb_false_iff in Hk. tauto.
  - exact (as_get_scope_In _ _ _ Hget).
  - apply negb_true_iff. destruct (existsb (scope_eqb from) V) eqn:E; [|reflexivity].
    apply sc_existsb_In in E. contradiction.
  - apply negb_false_iff. apply sc_existsb_In. rewrite in_app_iff. right. left. reflexivity.
Qed.

Lemma viap_walk_total s st vd fuel : forall from errs V,
  unvisited st V < fuel -> exists r, viap_walk fuel s st vd from errs V = Some r.
Proof.
  induction fuel as [|fuel IH]; intros from errs V Hf; [lia|].
  rewrite viap_walk_S. destruct (existsb (scope_eqb from) V) eqn:Ev; [eexists; reflexivity|].
  assert (HnV : ~ In from V).
  { intro Hin. apply sc_existsb_In in Hin. congruence. }
  assert (Hloop : forall l e W, unvisited st W < fuel ->
                    exists r, viap_loop (viap_walk fuel s st vd) l e W = Some r).
  { intro l. induction l as [|z r IHl]; intros e W HW; cbn [viap_loop]; [eexists; reflexivity|].
    destruct (IH (ScFrag z) e W HW) as [[e1 v1] E1]. rewrite E1. apply IHl.
    apply viap_walk_spec in E1. destruct E1 as [new [Hv1 _]]. cbn [snd] in Hv1. subst v1.
    pose proof (unvisited_mono st W (W ++ new)) as Hm.
    assert (unvisited st (W ++ new) <= unvisited st W); [|lia].
    apply Hm. intros a Ha. rewrite in_app_iff. tauto. }
  unfold sget. destruct (as_get scope_eqb from (vp_spreads st)) as [l|] eqn:Eg.
  - apply Hloop. pose proof (unvisited_mark st V from l Eg HnV). lia.
  - cbn [viap_loop]. eexists; reflexivity.
Qed.

Lemma unvisited_nil st : unvisited st [] = List.length (vp_spreads st).
Proof.
  unfold unvisited. cbn [existsb negb]. rewrite <- (map_length fst (vp_spreads st)).
  induction (map fst (vp_spreads st)) as [|x r IH]; [reflexivity|]. cbn [filter List.length]. rewrite IH. reflexivity.
Qed.

Lemma viap_fold_no_oof s d st : List.length (vp_spreads st) < vars_fuel d ->
  forall l res, r_oof (viap_fold s d st l res) = r_oof res.
Proof.
  intros Hf l. induction l as [|en r IH]; intro res; [reflexivity|].
  unfold viap_fold. cbn [fold_left]. fold (viap_fold s d st).
  destruct (viap_walk_total s st (snd en) (vars_fuel d) (fst en) (r_errors res) []) as [[e v] E].
  - rewrite unvisited_nil. exact Hf.
  - rewrite E, IH. reflexivity.
Qed.

Lemma viap_finish_no_oof s d st : List.length (vp_spreads st) < vars_fuel d -> r_oof (viap_finish s d st) = false.
Proof. intro Hf. unfold viap_finish. apply (viap_fold_no_oof s d st Hf (vp_defs st) (mkRes [] false)). Qed.

Lemma spreads_permuted_length m m' : spreads_permuted m m' -> List.length m = List.length m'.
Proof. intro H. induction H as [|a b m m' _ _ IH]; [reflexivity|]. cbn [List.length]. rewrite IH. reflexivity. Qed.

(* VariablesInAllowedPosition with an explicit "enough fuel" condition (which does not depend on the
   enumeration order): no run exhausts the fuel and the errors are a permutation of each other *)
Theorem viap_finish_spreads_perm_fuel : forall s d st spreads',
  spreads_permuted (vp_spreads st) spreads' ->
  List.length (vp_spreads st) < vars_fuel d ->
  let st' := mkViap spreads' (vp_usages st) (vp_defs st) (vp_scope st) (vp_seen st) (vp_directive st)
                    (vp_objects st) (vp_defaults st) in
  r_oof (viap_finish s d st) = false /\ r_oof (viap_finish s d st') = false /\
  Permutation (r_errors (viap_finish s d st)) (r_errors (viap_finish s d st')).
Proof.
  intros s d st spreads' H Hf st'.
  assert (Ho1 : r_oof (viap_finish s d st) = false) by (apply viap_finish_no_oof; exact Hf).
  assert (Ho2 : r_oof (viap_finish s d st') = false).
  { apply viap_finish_no_oof. subst st'. cbn [vp_spreads].
    rewrite <- (spreads_permuted_length _ _ H). exact Hf. }
  split; [exact Ho1|split; [exact Ho2|]].
  apply viap_finish_spreads_perm; assumption.
Qed.

Print Assumptions viap_finish_spreads_perm_fuel.
Print Assumptions viap_finish_spreads_perm.
Print Assumptions viap_walk_reordered.

(* C07_proofs.v — the variable rules: the decision core of VariablesInAllowedPosition
   (is_subtype on effective types = IsVariableUsageAllowed), UniqueVariableNames and
   VariablesAreInputTypes fire exactly when their specification is violated. *)
From GT Require Import Visitor Validate.
From GTS Require Import SpecLin Annot WfSchema SpecRules SpecValues SpecValid.
From GTP Require Import VisitorFacts TraceFacts RuleFacts.

(* ================================================================ 1. allowed_core *)

Lemma ty_size_pos t : 1 <= ty_size t.
Proof. destruct t; cbn [ty_size]; lia. Qed.

(* AreTypesCompatible is reflexive (up to ty_eqb) *)
Lemma ty_eqb_types_compatible a : forall b, ty_eqb a b = true -> types_compatible a b = true.
Proof.
  induction a as [x|a IH|a IH]; intros [y|b|b] E; cbn [ty_eqb] in E; try discriminate E;
    cbn [types_compatible].
  - exact E.
  - apply IH. exact E.
  - apply IH. exact E.
Qed.

Lemma input_named_not_abstract s n :
  is_input_named s n = true ->
  exists t, type_by_name s n = Some t /\ td_is_abstract t = false.
Proof.
  unfold is_input_named. destruct (type_by_name s n) as [t|]; [|discriminate].
  intro H. exists t. split; [reflexivity|]. destruct t; cbn in H |- *; congruence.
Qed.

(* any sufficient fuel: on types whose named type is an input type, the subtype test of the
   rule is the specification's AreTypesCompatible *)
Lemma is_subtype_fuel_compat s n : forall a b,
  ty_size a + ty_size b <= n ->
  is_input_named s (inner_type b) = true ->
  is_subtype_fuel n s a b = types_compatible a b.
Proof.
  induction n as [|n IH]; intros a b Hn Hb.
  - pose proof (ty_size_pos a). lia.
  - cbn [is_subtype_fuel].
    destruct (ty_eqb a b) eqn:E.
    { symmetry. apply ty_eqb_types_compatible. exact E. }
    destruct b as [y|bi|bi]; destruct a as [x|ai|ai];
      cbn [is_non_null is_list_type of_type types_compatible ty_size inner_type] in *;
      try reflexivity;
      try (apply IH; cbn [ty_size inner_type]; [lia|assumption]).
    (* named / named *)
    cbn [ty_eqb] in E. rewrite E.
    destruct (input_named_not_abstract s y Hb) as [t [Ht Ha]].
    rewrite Ht, Ha. destruct (type_by_name s x); reflexivity.
Qed.

(* fuel sufficiency, in general: any two sufficient fuels give the same answer *)
Lemma is_subtype_fuel_irrel s n : forall m a b,
  ty_size a + ty_size b <= n -> ty_size a + ty_size b <= m ->
  is_subtype_fuel n s a b = is_subtype_fuel m s a b.
Proof.
  induction n as [|n IH]; intros m a b Hn Hm.
  - pose proof (ty_size_pos a). lia.
  - destruct m as [|m]; [pose proof (ty_size_pos a); lia|].
    cbn [is_subtype_fuel].
    destruct (ty_eqb a b); [reflexivity|].
    destruct b as [y|bi|bi]; destruct a as [x|ai|ai];
      cbn [is_non_null is_list_type of_type ty_size] in *; try reflexivity;
      apply IH; cbn [ty_size]; lia.
Qed.

Lemma is_subtype_fuel_enough s n a b :
  ty_size a + ty_size b <= n -> is_subtype_fuel n s a b = is_subtype s a b.
Proof. intro H. unfold is_subtype. apply is_subtype_fuel_irrel; [exact H|lia]. Qed.

Lemma is_subtype_types_compatible s a b :
  is_input_named s (inner_type b) = true ->
  is_subtype s a b = types_compatible a b.
Proof. intro H. unfold is_subtype. apply is_subtype_fuel_compat; [lia|exact H]. Qed.

Lemma inner_effective_var_type vd : inner_type (effective_var_type vd) = inner_type (v_type vd).
Proof.
  unfold effective_var_type. destruct (v_default vd) as [dv|]; [|reflexivity].
  destruct (v_type vd); destruct dv; reflexivity.
Qed.

Lemma inner_effective_location_type lt ld :
  inner_type (effective_location_type lt ld) = inner_type lt.
Proof. destruct lt; cbn; try reflexivity. destruct ld; reflexivity. Qed.

(* the type is of the form T!! (not producible by the parser) *)
Definition double_non_null (t : ty) : bool :=
  match t with TNonNull (TNonNull _) => true | _ => false end.

(* purely syntactic part *)
Lemma effective_compatible vd lt ld :
  (ld && double_non_null lt) = false ->
  types_compatible (effective_var_type vd) (effective_location_type lt ld)
  = is_variable_usage_allowed (v_type vd) (v_default vd) lt ld.
Proof.
  destruct vd as [p x vt dv]. unfold effective_var_type, is_variable_usage_allowed.
  cbn [v_type v_default].
  intro Hd.
  destruct lt as [y|li|li]; [| |destruct li as [z|lii|lii]]; destruct ld;
    cbn [andb double_non_null] in Hd; try discriminate Hd;
    (destruct dv as [dv|]; [destruct dv|]); destruct vt as [v|vi|vi];
    cbn [effective_location_type types_compatible has_non_null_default orb andb]; reflexivity.
Qed.

Lemma allowed_core_weak s vd lt ld :
  wf_schema s = true ->
  is_input_named s (inner_type (v_type vd)) = true ->
  is_input_named s (inner_type lt) = true ->
  (ld && double_non_null lt) = false ->
  is_subtype s (effective_var_type vd) (effective_location_type lt ld)
  = is_variable_usage_allowed (v_type vd) (v_default vd) lt ld.
Proof.
  intros _ _ Hl Hd.
  rewrite is_subtype_types_compatible by (rewrite inner_effective_location_type; exact Hl).
  apply effective_compatible. exact Hd.
Qed.

(* ty_proper (GT.Ast): the types the GraphQL grammar can express, no NonNull directly under a NonNull *)
Lemma ty_proper_not_double t : ty_proper t = true -> double_non_null t = false.
Proof. destruct t as [x|i|[y|i|i]]; cbn; congruence. Qed.

Lemma allowed_core s vd lt ld :
  wf_schema s = true ->
  is_input_named s (inner_type (v_type vd)) = true ->
  is_input_named s (inner_type lt) = true ->
  ty_proper lt = true ->
  is_subtype s (effective_var_type vd) (effective_location_type lt ld)
  = is_variable_usage_allowed (v_type vd) (v_default vd) lt ld.
Proof.
  intros Hs Hv Hl Hp. apply allowed_core_weak; try assumption.
  rewrite (ty_proper_not_double lt Hp). apply andb_false_r.
Qed.

(* ================================================================ events of operations and variable definitions *)
(* The only events the two rules below react to: entering an operation, entering a variable
   definition.  In the linearisation of a document they are, in order: for every operation,
   Enter (NOperation o) followed by Enter (NVarDef v) for its variable definitions. *)
Definition keep_ov (e : event) : bool :=
  match e with Enter (NOperation _) | Enter (NVarDef _) => true | _ => false end.

Definition ov_events (o : operation) : list event :=
  Enter (NOperation o) :: map (fun v => Enter (NVarDef v)) (op_variable_definitions o).

Lemma filter_flat_map {A B} (p : B -> bool) (f : A -> list B) (l : list A) :
  filter p (flat_map f l) = flat_map (fun x => filter p (f x)) l.
Proof. induction l as [|x r IH]; cbn [flat_map]; [reflexivity|]. rewrite filter_app, IH. reflexivity. Qed.

Lemma flat_map_nil_Forall {A B} (f : A -> list B) (l : list A) :
  Forall (fun x => f x = []) l -> flat_map f l = [].
Proof. induction 1 as [|x r Hx Hr IH]; cbn [flat_map]; [reflexivity|]. rewrite Hx, IH. reflexivity. Qed.

Lemma flat_map_nil_all {A B} (f : A -> list B) (l : list A) :
  (forall x, f x = []) -> flat_map f l = [].
Proof. intro H. apply flat_map_nil_Forall. apply Forall_forall. intros x _. apply H. Qed.

Lemma keep_value v : filter keep_ov (lin_value v) = [].
Proof.
  induction v as [n|z|b|str|b| |n|l IH|l IH] using value_ind'; try reflexivity.
  - cbn [lin_value filter keep_ov]. rewrite filter_app, filter_flat_map.
    rewrite (flat_map_nil_Forall _ l IH). reflexivity.
  - cbn [lin_value filter keep_ov]. rewrite filter_app, filter_flat_map.
    rewrite flat_map_nil_Forall; [reflexivity|].
    eapply Forall_impl; [|exact IH]. intros kv Hkv.
    cbn [filter keep_ov]. rewrite filter_app, Hkv. reflexivity.
Qed.

Lemma keep_argument a : filter keep_ov (lin_argument a) = [].
Proof. unfold lin_argument. cbn [filter keep_ov]. rewrite filter_app, keep_value. reflexivity. Qed.

Lemma keep_directive d : filter keep_ov (lin_directive d) = [].
Proof.
  unfold lin_directive. cbn [filter keep_ov]. rewrite filter_app, filter_flat_map.
  rewrite (flat_map_nil_all _ _ keep_argument). reflexivity.
Qed.

Lemma keep_directives ds : filter keep_ov (flat_map lin_directive ds) = [].
Proof. rewrite filter_flat_map. apply flat_map_nil_all. exact keep_directive. Qed.

Lemma keep_arguments args : filter keep_ov (flat_map lin_argument args) = [].
Proof. rewrite filter_flat_map. apply flat_map_nil_all. exact keep_argument. Qed.

Lemma keep_vardef v : filter keep_ov (lin_vardef v) = [Enter (NVarDef v)].
Proof.
  unfold lin_vardef. cbn [filter keep_ov]. rewrite filter_app.
  destruct (v_default v) as [dv|]; [rewrite keep_value|]; reflexivity.
Qed.

Lemma keep_vardefs vs : filter keep_ov (flat_map lin_vardef vs) = map (fun v => Enter (NVarDef v)) vs.
Proof.
  induction vs as [|v r IH]; cbn [flat_map map]; [reflexivity|].
  rewrite filter_app, keep_vardef, IH. reflexivity.
Qed.

Lemma keep_selection x : filter keep_ov (lin_selection x) = [].
Proof.
  induction x as [p al n args dirs sp sels IH|p n dirs|p tc dirs sp sels IH] using selection_ind'.
  - cbn [lin_selection filter keep_ov].
    rewrite !filter_app, keep_arguments, keep_directives. cbn [filter keep_ov app].
    rewrite filter_app, filter_flat_map, (flat_map_nil_Forall _ sels IH). reflexivity.
  - cbn [lin_selection filter keep_ov]. rewrite filter_app, keep_directives. reflexivity.
  - cbn [lin_selection filter keep_ov].
    rewrite !filter_app, keep_directives. cbn [filter keep_ov app].
    rewrite filter_app, filter_flat_map, (flat_map_nil_Forall _ sels IH). reflexivity.
Qed.

Lemma keep_selection_set sp sels : filter keep_ov (lin_selection_set sp sels) = [].
Proof.
  unfold lin_selection_set. cbn [filter keep_ov].
  rewrite filter_app, filter_flat_map, (flat_map_nil_all _ _ keep_selection). reflexivity.
Qed.

Lemma keep_definition x :
  filter keep_ov (lin_definition x) = match x with DOp o => ov_events o | DFrag _ => [] end.
Proof.
  destruct x as [o|f]; unfold lin_definition, ov_events; cbn [filter keep_ov].
  - rewrite !filter_app, keep_directives, keep_vardefs, keep_selection_set.
    cbn [filter keep_ov app]. rewrite app_nil_r. reflexivity.
  - rewrite !filter_app, keep_directives, keep_selection_set. reflexivity.
Qed.

Lemma keep_document d :
  filter keep_ov (lin_document d) = flat_map ov_events (operations_of d).
Proof.
  unfold lin_document. cbn [filter keep_ov]. rewrite filter_app. cbn [filter keep_ov].
  rewrite app_nil_r, filter_flat_map. unfold operations_of.
  induction d as [|x r IH]; cbn [flat_map]; [reflexivity|].
  rewrite keep_definition, flat_map_app, IH.
  destruct x as [o|f]; cbn [flat_map app]; [rewrite app_nil_r|]; reflexivity.
Qed.

(* ================================================================ 3. VariablesAreInputTypes *)
Lemma existsb_ext_fn {A} (p q : A -> bool) (l : list A) :
  (forall x, p x = q x) -> existsb p l = existsb q l.
Proof. intro H. induction l as [|x r IH]; cbn [existsb]; [reflexivity|]. rewrite H, IH. reflexivity. Qed.

Lemma existsb_map {A B} (p : B -> bool) (f : A -> B) (l : list A) :
  existsb p (map f l) = existsb (fun x => p (f x)) l.
Proof. induction l as [|x r IH]; cbn [existsb map]; [reflexivity|]. rewrite IH. reflexivity. Qed.

Lemma existsb_flat_map {A B} (p : B -> bool) (f : A -> list B) (l : list A) :
  existsb p (flat_map f l) = existsb (fun x => existsb p (f x)) l.
Proof. induction l as [|x r IH]; cbn [existsb flat_map]; [reflexivity|]. rewrite existsb_app, IH. reflexivity. Qed.

Lemma existsb_filter_keep {A} (p keep : A -> bool) (l : list A) :
  (forall x, keep x = false -> p x = false) -> existsb p l = existsb p (filter keep l).
Proof.
  intro H. induction l as [|x r IH]; cbn [existsb filter]; [reflexivity|].
  destruct (keep x) eqn:K; cbn [existsb]; rewrite IH; [reflexivity|]. rewrite (H x K). reflexivity.
Qed.

Definition not_input (s : sdocument) (t : ty) : bool :=
  match type_by_name s (inner_type t) with Some td => negb (td_is_input td) | None => false end.

Definition vit_errors (s : sdocument) (e : event) (c : ctx) : list verror :=
  match e with
  | Enter (NVarDef v) =>
      match type_by_name s (inner_type (v_type v)) with
      | Some t => if negb (td_is_input t) then [err R_VariablesAreInputTypes [v_pos v]] else []
      | None => []
      end
  | _ => []
  end.

Lemma vit_stateless s : stateless (vit_step s) (vit_errors s).
Proof.
  intros st e c. unfold vit_step, vit_errors.
  destruct e as [n|n]; [destruct n|]; try (rewrite app_nil_r; reflexivity).
  destruct (type_by_name s (inner_type (v_type v))) as [t|]; [|rewrite app_nil_r; reflexivity].
  destruct (negb (td_is_input t)); [reflexivity|rewrite app_nil_r; reflexivity].
Qed.

Definition vit_event (s : sdocument) (e : event) : bool :=
  match e with Enter (NVarDef v) => not_input s (v_type v) | _ => false end.

Lemma variables_are_input_types_iff s d :
  run_alone R_VariablesAreInputTypes s d <> [] <-> violated R_VariablesAreInputTypes s d = true.
Proof.
  unfold run_alone. cbn [run_rule violated].
  rewrite (stateless_run s d ctx0 (vit_stateless s)). cbn [snd plain r_errors].
  rewrite flat_map_nonempty_existsb.
  rewrite (existsb_ext_fn _ (fun ec : event * ctx => vit_event s (fst ec))).
  2:{ intros [e c]. cbn [fst snd]. unfold vit_errors, vit_event, not_input.
      destruct e as [n|n]; [destruct n|]; try reflexivity.
      destruct (type_by_name s (inner_type (v_type v))) as [t|]; [|reflexivity].
      destruct (negb (td_is_input t)); reflexivity. }
  rewrite <- (existsb_map (vit_event s) fst), ctr_document_events.
  rewrite (existsb_filter_keep (vit_event s) keep_ov).
  2:{ intros e K. destruct e as [n|n]; [destruct n|]; try reflexivity; discriminate K. }
  rewrite keep_document.
  unfold v_variables_are_input_types, variable_types.
  rewrite !existsb_flat_map.
  rewrite (existsb_ext_fn _ (fun o => existsb (not_input s) (map v_type (op_variable_definitions o)))).
  2:{ intro o. unfold ov_events. cbn [existsb vit_event orb]. rewrite !existsb_map. reflexivity. }
  reflexivity.
Qed.

(* ================================================================ 2. UniqueVariableNames *)
Lemma name_eqb_refl x : name_eqb x x = true.
Proof. apply String.eqb_refl. Qed.
Lemma name_eqb_sym x y : name_eqb x y = name_eqb y x.
Proof. apply String.eqb_sym. Qed.
Lemma name_eqb_eq x y : name_eqb x y = true -> x = y.
Proof. apply String.eqb_eq. Qed.

Lemma mem_name_app x l1 l2 : mem_name x (l1 ++ l2) = mem_name x l1 || mem_name x l2.
Proof. apply existsb_app. Qed.

Lemma nodup_names_snoc l x : nodup_names (l ++ [x]) = negb (mem_name x l) && nodup_names l.
Proof.
  induction l as [|y l IH]; cbn [app nodup_names mem_name existsb]; [reflexivity|].
  fold (mem_name y (l ++ [x])). fold (mem_name x l). fold (mem_name y l).
  rewrite IH, mem_name_app. cbn [mem_name existsb]. rewrite (name_eqb_sym y x).
  destruct (name_eqb x y), (mem_name y l), (mem_name x l), (nodup_names l); reflexivity.
Qed.

Lemma nodup_names_dup x l1 l2 : mem_name x l1 = true -> nodup_names (l1 ++ x :: l2) = false.
Proof.
  induction l1 as [|y l1 IH]; cbn [mem_name existsb]; [discriminate|].
  fold (mem_name x l1). intro H. cbn [app nodup_names].
  destruct (name_eqb x y) eqn:E.
  - apply name_eqb_eq in E. subst y. rewrite mem_name_app. cbn [mem_name existsb].
    rewrite name_eqb_refl, orb_true_r. reflexivity.
  - cbn [orb] in H. rewrite (IH H). apply andb_false_r.
Qed.

Lemma al_get_mem {V} x (m : list (name * V)) : is_some (al_get x m) = mem_name x (map fst m).
Proof.
  induction m as [|[k v] m IH]; cbn [al_get map fst mem_name existsb]; [reflexivity|].
  fold (mem_name x (map fst m)). destruct (name_eqb x k); [reflexivity|exact IH].
Qed.

Definition uvn_ev (st : uvn_state) (e : event) : uvn_state := uvn_step st e ctx0.

Lemma uvn_fold_events tr st :
  fold_left (hh uvn_step) tr st = fold_left uvn_ev (map fst tr) st.
Proof.
  revert st. induction tr as [|[e c] r IH]; intro st; cbn [fold_left map fst]; [reflexivity|].
  rewrite IH. f_equal.
Qed.

Lemma uvn_fold_filter l : forall st,
  fold_left uvn_ev l st = fold_left uvn_ev (filter keep_ov l) st.
Proof.
  induction l as [|e r IH]; intro st; cbn [fold_left filter]; [reflexivity|].
  destruct (keep_ov e) eqn:K; cbn [fold_left]; [apply IH|].
  rewrite <- IH. f_equal.
  destruct e as [n|n]; [destruct n|]; try reflexivity; discriminate K.
Qed.

(* the variable definitions of one operation *)
Lemma uvn_vardefs vs : forall F E,
  nodup_names (map fst F) = true ->
  is_nil (uvn_errs (fold_left uvn_ev (map (fun v => Enter (NVarDef v)) vs) (mkUvn F E)))
  = is_nil E && nodup_names (map fst F ++ map v_name vs).
Proof.
  induction vs as [|v vs IH]; intros F E HF; cbn [map fold_left].
  - cbn [uvn_errs]. rewrite app_nil_r, HF, andb_true_r. reflexivity.
  - unfold uvn_ev at 2. cbn [uvn_step uvn_found uvn_errs].
    pose proof (al_get_mem (v_name v) F) as Hm.
    destruct (al_get (v_name v) F) as [p0|]; cbn [is_some] in Hm; symmetry in Hm.
    + rewrite (IH F _ HF).
      rewrite (nodup_names_dup _ _ _ Hm), andb_false_r.
      destruct E; reflexivity.
    + rewrite IH.
      * rewrite map_app. cbn [map fst]. rewrite <- app_assoc. reflexivity.
      * rewrite map_app. cbn [map fst]. rewrite nodup_names_snoc, Hm, HF. reflexivity.
Qed.

Lemma uvn_operations ops : forall F E,
  is_nil (uvn_errs (fold_left uvn_ev (flat_map ov_events ops) (mkUvn F E)))
  = is_nil E && negb (existsb (fun o => negb (nodup_names (op_var_names o))) ops).
Proof.
  induction ops as [|o ops IH]; intros F E; cbn [flat_map fold_left existsb].
  - cbn [uvn_errs negb]. rewrite andb_true_r. reflexivity.
  - rewrite fold_left_app. unfold ov_events at 2. cbn [fold_left].
    unfold uvn_ev at 3. cbn [uvn_step uvn_errs].
    match goal with |- context [fold_left uvn_ev (flat_map ov_events ops) ?st] =>
      destruct st as [F' E'] eqn:Est end.
    rewrite IH.
    assert (HE : is_nil E' = is_nil E && nodup_names (op_var_names o)).
    { pose proof (uvn_vardefs (op_variable_definitions o) [] E eq_refl) as H.
      rewrite Est in H. cbn [uvn_errs map app] in H. exact H. }
    rewrite HE. unfold op_var_names at 2.
    destruct (is_nil E), (nodup_names (op_var_names o)); reflexivity.
Qed.

Lemma is_nil_false_iff {A} (l : list A) : l <> [] <-> is_nil l = false.
Proof. destruct l; cbn; split; congruence. Qed.

Lemma unique_variable_names_iff s d :
  run_alone R_UniqueVariableNames s d <> [] <-> violated R_UniqueVariableNames s d = true.
Proof.
  unfold run_alone. cbn [run_rule violated].
  rewrite visit_fold. cbn [snd plain r_errors].
  rewrite uvn_fold_events, ctr_document_events, uvn_fold_filter, keep_document.
  rewrite is_nil_false_iff, uvn_operations. cbn [is_nil andb].
  unfold v_unique_variable_names.
  destruct (existsb _ (operations_of d)); cbn [negb]; split; congruence.
Qed.

(* ================================================================ the side condition is needed *)
(* Without [ty_proper lt] (a location of type "T!!" that declares a default) the equation of
   allowed_core fails: the rule strips one "!" of the location, the specification strips it
   and compares against the nullable variable type. *)
Lemma allowed_core_needs_proper :
  let s := [SDType (TDScalar "Int"); SDType (TDObject "Query" [] [mkFD "a" [] (TNamed "Int")])] in
  let lt := TNonNull (TNonNull (TNamed "Int")) in
  wf_schema s = true /\ is_input_named s (inner_type lt) = true /\
  (let vd := mkVardef (0%N, 0%N) "x" (TNamed "Int") (Some (VInt 1)) in
   is_input_named s (inner_type (v_type vd)) = true /\
   is_subtype s (effective_var_type vd) (effective_location_type lt true) = true /\
   is_variable_usage_allowed (v_type vd) (v_default vd) lt true = false) /\
  (let vd := mkVardef (0%N, 0%N) "x" (TNonNull (TNamed "Int")) None in
   is_input_named s (inner_type (v_type vd)) = true /\
   is_subtype s (effective_var_type vd) (effective_location_type lt true) = true /\
   is_variable_usage_allowed (v_type vd) (v_default vd) lt true = false).
Proof. vm_compute. repeat split. Qed.
